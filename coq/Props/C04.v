(** C04 -- decode() fails only with the documented decoding-error family.

    The model contains every escape route of the Python code as an explicit outcome
    (IndexError from every subscript, ValueError from bytearray()/append/int formatting,
    UnicodeDecodeError, OutOfFuel for a loop whose fuel were insufficient); the theorem says
    none of them is reachable, for every byte string, configuration and history. *)
From Coq Require Import ZArith List Bool.
From HV Require Import Prelude.Py Prelude.State Model.Data Model.Decoder Model.Rel.
From HV Require Import Proofs.Table Proofs.TableLift Proofs.DecoderRefine.
Import ListNotations.
Open Scope Z_scope.

Theorem C04_decode_documented : forall d data raw, dec_ok d ->
  match fst (Decoder_decode d data raw) with
  | Ok _ => True
  | Err e => documented e = true
  end.
Proof. exact decode_documented. Qed.

(** every history: a fresh Decoder after ANY sequence of operations (decodes that succeed or
    raise, table-size, permitted-size and list-size settings) -- the only assumption is that
    the list-size limits the application sets can be formatted by CPython (< 10^4300) *)
Definition sane_op (o : dop) : Prop :=
  match o with DSetMaxList v => Z.abs v < 10 ^ 4300 | _ => True end.
Theorem C04_every_history : forall L ops data raw, Z.abs L < 10 ^ 4300 -> Forall sane_op ops ->
  match fst (Decoder_decode (drun ops (Decoder_init L)) data raw) with
  | Ok _ => True
  | Err e => documented e = true
  end.
Proof. exact decode_documented_history. Qed.

Print Assumptions C04_decode_documented.
Print Assumptions C04_every_history.
