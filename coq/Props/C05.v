(** C05 -- Decoder rejects every malformed block, using the documented error classes. *)
From Coq Require Import ZArith List Bool.
From HV Require Import Prelude.Py Prelude.State Prelude.Utf8 Spec.IntRep Spec.HuffmanCode Spec.DynTable Spec.SDecoder.
From HV Require Import Model.Data Model.Decoder Model.Rel.
From HV Require Import Proofs.Table Proofs.DecoderRefine Proofs.SpecDecoder Proofs.DecoderMeaning Proofs.SpecDecoderConv.
Import ListNotations.
Open Scope Z_scope.

(** acceptance <=> the sequential RFC decoder accepts; and the exact error class otherwise *)
Theorem C05_accept_iff : forall d data raw, dec_ok d ->
  ((exists hs d', Decoder_decode d data raw = (Ok hs, d')) <->
   (exists r, decode KLIM (ctx_of d) data (negb raw) = SOk r)).
Proof. exact accept_iff. Qed.
Theorem C05_error_class : forall d data raw e d', dec_ok d ->
  Decoder_decode d data raw = (Err e, d') ->
  exists c, decode KLIM (ctx_of d) data (negb raw) = SErr c /\ e = exn_of c.
Proof. exact error_class. Qed.

(** ... and the RFC decoder accepts EXACTLY the well-formed blocks in the declarative sense: a
    block is accepted iff it is the concatenation of wire forms of a sequence of representations
    that is well-formed for the context (every index addressable, size updates only at the
    start and within the permitted maximum, list within its limit, table size within the
    permitted maximum at the end), and then the result is that sequence's meaning; in text mode
    additionally every name and value must be UTF-8.  With [C05_accept_iff] this is "the Decoder
    accepts a block if and only if it is well-formed for its current context and limits". *)
Theorem C05_accepts_iff_wellformed : forall K c w fs c', 0 <= K ->
  (decode K c w false = SOk (fs, c') <-> exists rs, wire_block K rs w /\ sem c rs [] = Some (fs, c')).
Proof. exact decode_accepts_iff_wellformed. Qed.
Theorem C05_text_accepts_iff : forall K c w fs c', 0 <= K ->
  (decode K c w true = SOk (fs, c') <->
   (exists rs, wire_block K rs w /\ sem c rs [] = Some (fs, c')) /\
   forallb (fun f => utf8_valid (snd (fst f)) && utf8_valid (snd f)) fs = true).
Proof. exact decode_text_accepts_iff. Qed.

(** the only latitude: a larger integer-length limit changes nothing except turning some
    "malformed" verdicts (over-long integers) into something else *)
Theorem C05_limit_latitude : forall K c data t r, KLIM <= K ->
  (decode KLIM c data t = SOk r -> decode K c data t = SOk r) /\
  (forall e, decode KLIM c data t = SErr e -> e <> Malformed -> decode K c data t = SErr e).
Proof. exact limit_latitude. Qed.

(** the defect classes, on the RFC decoder at an arbitrary point of a block
    ([acc] = fields already decoded, [run] = their size) *)
(* index zero / past the end: as an indexed field, and as the name of a literal *)
Theorem C05_bad_index : forall K fuel c b tl acc run i rest,
  128 <= bz b -> int_k K 7 (b :: tl) = SOk (i, rest) -> lookup i (dyn c) = None ->
  decode_loop K (S fuel) c (b :: tl) acc run = SErr BadIndex.
Proof. exact bad_index. Qed.
Theorem C05_bad_name_index : forall K fuel c b tl acc run i rest,
  bz b < 128 -> ~ (32 <= bz b < 64) ->
  int_k K (if 64 <=? bz b then 6 else 4) (b :: tl) = SOk (i, rest) -> i <> 0 -> lookup i (dyn c) = None ->
  decode_loop K (S fuel) c (b :: tl) acc run = SErr BadIndex.
Proof. exact bad_name_index. Qed.
(* a truncated integer anywhere it is expected first *)
Theorem C05_truncated_first_integer : forall K fuel c b tl acc run,
  (128 <= bz b -> int_truncated 7 (map bz (b :: tl))) ->
  (64 <= bz b < 128 -> int_truncated 6 (map bz (b :: tl))) ->
  (32 <= bz b < 64 -> int_truncated 5 (map bz (b :: tl))) ->
  (bz b < 32 -> int_truncated 4 (map bz (b :: tl))) ->
  decode_loop K (S fuel) c (b :: tl) acc run = SErr Malformed.
Proof. exact truncated_first_integer. Qed.
(* a size update after a field, and one above the permitted maximum *)
Theorem C05_update_after_field : forall K fuel c b tl acc run,
  32 <= bz b < 64 -> acc <> [] -> decode_loop K (S fuel) c (b :: tl) acc run = SErr Malformed.
Proof. exact update_after_field. Qed.
Theorem C05_update_above_limit : forall K fuel c b tl run n rest,
  32 <= bz b < 64 -> int_k K 5 (b :: tl) = SOk (n, rest) -> limit c < n ->
  decode_loop K (S fuel) c (b :: tl) [] run = SErr BadSize.
Proof. exact update_above_limit. Qed.
(* strings: truncated, or Huffman data that is not a valid encoding (EOS inside, eight or
   more padding bits, a zero padding bit: exactly the inputs with no [HuffRep], see C13) *)
Theorem C05_truncated_string : forall K bs n rest,
  int_k K 7 bs = SOk (n, rest) -> len rest < n -> str_k K bs = SErr Malformed.
Proof. exact truncated_string. Qed.
Theorem C05_bad_huffman : forall K b tl n rest,
  128 <= bz b -> int_k K 7 (b :: tl) = SOk (n, rest) -> n <= len rest ->
  (~ exists s, HuffRep (firstn (Z.to_nat n) rest) s) -> str_k K (b :: tl) = SErr Malformed.
Proof. exact bad_huffman. Qed.
(* text mode: a name or value that is not UTF-8 *)
Theorem C05_not_utf8 : forall K c data fs c',
  decode K c data false = SOk (fs, c') ->
  forallb (fun f => utf8_valid (snd (fst f)) && utf8_valid (snd f)) fs = false ->
  decode K c data true = SErr Malformed.
Proof. exact not_utf8. Qed.

Print Assumptions C05_accept_iff.
Print Assumptions C05_error_class.
Print Assumptions C05_accepts_iff_wellformed.
Print Assumptions C05_text_accepts_iff.
Print Assumptions C05_limit_latitude.
Print Assumptions C05_bad_index.
Print Assumptions C05_truncated_first_integer.
Print Assumptions C05_update_after_field.
Print Assumptions C05_update_above_limit.
Print Assumptions C05_bad_name_index.
Print Assumptions C05_truncated_string.
Print Assumptions C05_bad_huffman.
Print Assumptions C05_not_utf8.
