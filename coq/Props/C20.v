(** C20 -- Instances are isolated and deterministic; the static table is never modified.
    (partial: the theorem is about the model, in which shared data are immutable constants
    and outputs are Gallina functions of configuration and history -- no hash, clock or
    logging exists in it; what carries it over to the code is the source purity check and the
    isolated-vs-interleaved / DEBUG / PYTHONHASHSEED correspondence runs, see DESIGN.md) *)
From Coq Require Import ZArith List Bool.
From HV Require Import Prelude.Py Prelude.State Model.Decoder Model.Encoder Model.World.
From HV Require Import Proofs.WorldFrame.
Import ListNotations.
Open Scope Z_scope.

(** FRAME: in any interleaving with any other instances (created before or during the
    history), the outputs of instance i and its final state are exactly those of running i's
    own operations alone from its state at the start. *)
Theorem C20_frame : forall w ops i x,
  nth_error w i = Some x ->
  let '(w', outs) := wrun w ops in
  let '(x', outs_i) := irun x (filter (addresses i) ops) in
  nth_error w' i = Some x' /\ outputs_of i ops outs = outs_i.
Proof. exact frame. Qed.

(** in particular: instances used earlier, or interleaved, do not matter -- two worlds that
    agree on instance i produce the same outputs for i under histories that agree on i *)
Theorem C20_independent_of_others : forall w1 w2 ops1 ops2 i x,
  nth_error w1 i = Some x -> nth_error w2 i = Some x ->
  filter (addresses i) ops1 = filter (addresses i) ops2 ->
  outputs_of i ops1 (snd (wrun w1 ops1)) = outputs_of i ops2 (snd (wrun w2 ops2)) /\
  nth_error (fst (wrun w1 ops1)) i = nth_error (fst (wrun w2 ops2)) i.
Proof. exact independent_of_others. Qed.

(** operations on one instance never change another *)
Theorem C20_others_untouched : forall w o i j, i <> j -> addresses j o = true ->
  nth_error (fst (wstep w o)) i = nth_error w i.
Proof. exact others_untouched. Qed.

Print Assumptions C20_frame.
Print Assumptions C20_independent_of_others.
Print Assumptions C20_others_untouched.
