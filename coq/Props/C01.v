(** C01 -- Encoder-to-Decoder round trip preserves every header list over a connection. *)
From Coq Require Import ZArith List Bool.
From HV Require Import Prelude.Py Prelude.State Prelude.Utf8 Spec.DynTable Spec.SDecoder.
From HV Require Import Model.Data Model.Table Model.Decoder Model.Encoder Model.Rel Model.RelEnc.
From HV Require Import Model.Histories.
From HV Require Import Model.Api.
From HV Require Import Proofs.Table Proofs.DecoderRefine Proofs.EncoderMeaning Proofs.Lockstep Proofs.ApiRoundTrip.
Import ListNotations.
Open Scope Z_scope.

(** For any sequence of header blocks encoded by one Encoder and decoded in the same order by
    one Decoder: every decoded block equals the block that was encoded (same fields, same order,
    same name and value bytes; text = its UTF-8 encoding), for every per-block Huffman choice,
    every mix of sensitive and ordinary fields, every size of name and value, every sequence
    of encoder table-size changes between blocks that the decoder's permitted maximum [Lim]
    admits, in raw and in text mode (text mode requires the strings to BE text), provided the
    decoder's list-size limit [LL] admits the lists (C07 requires rejection otherwise). *)
(** [round_trips], [pop_ok]: Model/Histories.v *)
Theorem C01_round_trip : forall Lim LL ops, 4096 <= Lim < BIG -> Z.abs LL < 10 ^ 4300 ->
  Forall (pop_ok Lim LL) ops ->
  round_trips (set_d_max_allowed Lim (Decoder_init LL)) Encoder_init ops.
Proof. exact round_trip_history. Qed.

(** sensitive fields come back in the never-indexed class unless they were sent as an index *)
Theorem C01_block : forall e d hs huff raw,
  TInv e.(e_tab) -> dec_ok d -> Sync e (ctx_of d) -> ctx_sane (ctx_of d) ->
  Forall field_sane hs -> fields_size hs <= d.(d_max_list) ->
  (raw = false -> Forall (fun f => utf8_valid (fst (fst f)) = true /\ utf8_valid (snd (fst f)) = true) hs) ->
  exists w e' hs' d',
    Encoder_encode e hs huff = (Ok w, e') /\ Decoder_decode d w raw = (Ok hs', d') /\
    map nv_of_header hs' = map nv_of_field hs.
Proof. exact block_round_trip. Qed.

(** ... and at the level of the public API: whatever form the application uses (text or bytes,
    tuples of either arity, header-tuple classes, list, iterator or dict), the peer decodes the
    canonical sequence [canon c] of the argument (C18) *)
Theorem C01_api_block : forall e d c huff raw,
  TInv e.(e_tab) -> dec_ok d -> Sync e (ctx_of d) -> ctx_sane (ctx_of d) ->
  Forall field_sane (canon c) -> fields_size (canon c) <= d.(d_max_list) ->
  (raw = false -> Forall (fun f => utf8_valid (fst (fst f)) = true /\ utf8_valid (snd (fst f)) = true) (canon c)) ->
  exists w e' hs' d',
    Encoder_encode_api e c huff = (Ok w, e') /\ Decoder_decode d w raw = (Ok hs', d') /\
    map nv_of_header hs' = map nv_of_field (canon c).
Proof. exact api_block_round_trip. Qed.

Print Assumptions C01_round_trip.
Print Assumptions C01_block.
Print Assumptions C01_api_block.
