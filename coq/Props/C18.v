(** C18 -- Header text/bytes and container forms are interchangeable at the API. *)
From Coq Require Import ZArith List Bool.
From HV Require Import Prelude.Py Prelude.State Prelude.Utf8.
From HV Require Import Model.Data Model.Decoder Model.Encoder Model.Api.
From HV Require Import Proofs.ApiForms.
Import ListNotations.
Open Scope Z_scope.

(** Encoder: output AND resulting state are those of the canonical sequence of
    (name bytes, value bytes, sensitivity) -- [canon] is the property's reading: text = its
    UTF-8 bytes; two-tuples = three-tuples with a false/None flag = HeaderTuple; a true flag =
    NeverIndexedHeaderTuple; list = one-shot iterator; dict = its items with colon-prefixed
    names moved first in stable order. *)
Theorem C18_encode_canon : forall e c huffman,
  Encoder_encode_api e c huffman = Encoder_encode e (canon c) huffman.
Proof. exact encode_canon. Qed.
(** hence any two arguments with the same canonical sequence are interchangeable *)
Corollary C18_interchangeable : forall e c1 c2 huffman, canon c1 = canon c2 ->
  Encoder_encode_api e c1 huffman = Encoder_encode_api e c2 huffman.
Proof. intros e c1 c2 h H. rewrite !encode_canon, H. reflexivity. Qed.
(** the dict rule is a stable partition *)
Theorem C18_dict_order : forall items,
  map (fun kv => (_to_bytes (fst kv), _to_bytes (snd kv)))
      (filter (fun kv => starts_colon (_to_bytes (fst kv))) items ++
       filter (fun kv => negb (starts_colon (_to_bytes (fst kv)))) items)
  = map (fun f => (fst (fst f), snd (fst f))) (canon (CDict items)).
Proof. exact dict_order. Qed.

(** Decoder: raw and text modes leave IDENTICAL state (whatever the outcome), return the same
    fields in the same tuple classes whenever text mode returns (the model represents text by
    its UTF-8 bytes), and text mode differs from raw mode only by refusing non-UTF-8. *)
Theorem C18_modes_same_state : forall d data,
  snd (Decoder_decode d data true) = snd (Decoder_decode d data false).
Proof. exact modes_same_state. Qed.
Theorem C18_text_ok_raw_same : forall d data hs d',
  Decoder_decode d data false = (Ok hs, d') -> Decoder_decode d data true = (Ok hs, d').
Proof. exact text_ok_raw_same. Qed.
Theorem C18_raw_ok_text : forall d data hs d',
  Decoder_decode d data true = (Ok hs, d') ->
  (forallb (fun h => utf8_valid (h_name h) && utf8_valid (h_value h)) hs = true /\
   Decoder_decode d data false = (Ok hs, d')) \/
  (forallb (fun h => utf8_valid (h_name h) && utf8_valid (h_value h)) hs = false /\
   Decoder_decode d data false = (Err HPACKDecodingError, d')).
Proof. exact raw_ok_text. Qed.
Theorem C18_raw_err_text_same : forall d data e d',
  Decoder_decode d data true = (Err e, d') -> Decoder_decode d data false = (Err e, d').
Proof. exact raw_err_text_same. Qed.

Print Assumptions C18_encode_canon.
Print Assumptions C18_interchangeable.
Print Assumptions C18_dict_order.
Print Assumptions C18_modes_same_state.
Print Assumptions C18_text_ok_raw_same.
Print Assumptions C18_raw_ok_text.
Print Assumptions C18_raw_err_text_same.
