(** C10 -- Encoder and Decoder compression contexts stay in lockstep.
    C01 -- Encoder-to-Decoder round trip (Props/C01.v) is proved by the same simulation. *)
From Coq Require Import ZArith List Bool.
From HV Require Import Prelude.Py Prelude.State Prelude.Utf8 Spec.DynTable Spec.SDecoder.
From HV Require Import Model.Data Model.Table Model.Decoder Model.Encoder Model.Rel Model.RelEnc.
From HV Require Import Model.Histories.
From HV Require Import Proofs.Table Proofs.DecoderRefine Proofs.EncoderMeaning Proofs.Lockstep.
Import ListNotations.
Open Scope Z_scope.

(** One block produced by an encoder in step with the decoder's context, then consumed by
    that Decoder (either mode): decoding succeeds, returns the fields that were encoded, and
    afterwards BOTH HOLD THE SAME TABLE -- same maximum size, same entries in the same order
    (hence at the same indices) -- with nothing pending on the encoder side. *)
Theorem C10_block_lockstep : forall e d hs huff raw,
  TInv e.(e_tab) -> dec_ok d -> Sync e (ctx_of d) -> ctx_sane (ctx_of d) ->
  Forall field_sane hs -> fields_size hs <= d.(d_max_list) ->
  (raw = false -> Forall (fun f => utf8_valid (fst (fst f)) = true /\ utf8_valid (snd (fst f)) = true) hs) ->
  exists w e' hs' d',
    Encoder_encode e hs huff = (Ok w, e') /\ Decoder_decode d w raw = (Ok hs', d') /\
    map nv_of_header hs' = map nv_of_field hs /\
    d'.(d_tab).(entries) = e'.(e_tab).(entries) /\ d'.(d_tab).(maxsize) = e'.(e_tab).(maxsize) /\
    e'.(e_changes) = [] /\ e'.(e_tab).(resized) = false /\
    Sync e' (ctx_of d') /\ TInv e'.(e_tab) /\ dec_ok d' /\
    d'.(d_max_allowed) = d.(d_max_allowed) /\ d'.(d_max_list) = d.(d_max_list).
Proof. exact block_lockstep. Qed.

(** equal tables mean every index resolves identically on both sides *)
Theorem C10_same_indices : forall e d i,
  d.(d_tab).(entries) = e.(e_tab).(entries) ->
  lookup i d.(d_tab).(entries) = lookup i e.(e_tab).(entries).
Proof. intros e d i H; rewrite H; reflexivity. Qed.

(** Every history from fresh objects: any table-size settings between blocks (0, the same
    value twice, back to the previous value, above the default when the decoder permits it),
    any blocks; after EACH block the two tables are equal. *)
(** [in_lockstep], [pop_ok]: Model/Histories.v *)
Theorem C10_every_history : forall Lim LL ops, 4096 <= Lim < BIG -> Z.abs LL < 10 ^ 4300 ->
  Forall (pop_ok Lim LL) ops ->
  in_lockstep (set_d_max_allowed Lim (Decoder_init LL)) Encoder_init ops.
Proof. exact lockstep_history. Qed.

Example C10_same_size_twice :
  (* the D1 history: size 40 set twice, then a block; both sides end with maximum 40 *)
  let e := snd (estep (snd (estep Encoder_init (ESetSize 40))) (ESetSize 40)) in
  match estep e (EEncode [([Byte.x61], [Byte.x62], false)] false) with
  | (Ok w, e') => match Decoder_decode (Decoder_init 65536) w true with
                  | (Ok _, d') => (d'.(d_tab).(maxsize) =? 40) && (e'.(e_tab).(maxsize) =? 40)
                  | _ => false end
  | _ => false end = true.
Proof. vm_compute. reflexivity. Qed.

Print Assumptions C10_same_indices.
Print Assumptions C10_block_lockstep.
Print Assumptions C10_every_history.
