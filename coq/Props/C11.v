(** C11 -- Prefix-integer codec implements RFC 7541 section 5.1 exactly and inverts itself.

    Final statements only; every proof is [exact <lemma of Proofs/Int.v>].
    [encode_integer] / [decode_integer] are the frozen model of the Python
    functions (Model/Int.v), which Bridge/ proves equal to the regenerated
    translation of /repo's current source. *)
From Coq Require Import ZArith List Bool.
From HV Require Import Prelude.Py Spec.IntRep Model.Data Model.Int Proofs.Int.
Import ListNotations.
Open Scope Z_scope.

(** Encoding yields exactly the section 5.1 octets, for every n >= 0 and width 1..8. *)
Theorem C11_enc_exact : forall n N, 0 <= n -> 1 <= N <= 8 ->
  exists bs, encode_integer n N = Ok bs /\ map bz bs = int_enc N n.
Proof. exact enc_exact. Qed.

(** ... and the section 5.1 octets are what the property says they are: n alone if
    n < 2^N - 1, otherwise 2^N - 1 followed by the little-endian base-128 digits of the
    remainder, all but the last carrying the continuation bit, in minimal form. *)
Theorem C11_enc_shape : forall n N, 0 <= n -> 1 <= N <= 8 ->
  (n < pmax N -> int_enc N n = [n]) /\
  (pmax N <= n -> exists ds last,
      int_enc N n = pmax N :: map (fun d => d + 128) ds ++ [last] /\
      Forall (fun d => 0 <= d < 128) ds /\ 0 <= last < 128 /\
      fold_right (fun d acc => d + 128 * acc) last ds = n - pmax N /\
      (ds <> [] -> last <> 0)).
Proof. exact enc_shape. Qed.

(** Negative integers and prefix widths outside 1..8 are refused. *)
Theorem C11_enc_refuses : forall n N, n < 0 \/ N < 1 \/ 8 < N -> encode_integer n N = Err ValueError.
Proof. exact enc_refuses. Qed.
Theorem C11_dec_refuses : forall bs N, N < 1 \/ 8 < N -> decode_integer bs N = Err ValueError.
Proof. exact dec_refuses. Qed.

(** Decoding ANY byte string: the section 5.1 value of its leading integer and the exact
    number of octets used, or the decoding error -- always for truncated input, and only
    otherwise for encodings with more than 20 continuation octets (2^64 needs 10). *)
Theorem C11_dec_total : forall bs N, 1 <= N <= 8 ->
  decode_integer bs N =
    match int_dec N (map bz bs) with
    | Some (n, k) => if k - 1 <=? 20 then Ok (n, k) else Err HPACKDecodingError
    | None => Err HPACKDecodingError
    end.
Proof. exact dec_total. Qed.

(** The consumed count is within the input, the value is non-negative, and the spec has no
    value exactly when the input is truncated. *)
Theorem C11_dec_within : forall N l n k, 1 <= N <= 8 -> Forall octet l ->
  int_dec N l = Some (n, k) -> 1 <= k <= len l /\ 0 <= n.
Proof. exact dec_within. Qed.
Theorem C11_dec_none_iff_truncated : forall N l, 1 <= N <= 8 -> Forall octet l ->
  (int_dec N l = None <-> int_truncated N l).
Proof. exact dec_none_iff_truncated. Qed.

(** Round trip: decoding the encoding of n, whatever follows it and whatever the bits above
    the prefix are, returns n and the exact length -- for every n whose remainder fits in 20
    continuation octets, in particular every n < 2^64. *)
Theorem C11_round_trip : forall n N bs b0 rest b0' tl,
  0 <= n -> 1 <= N <= 8 -> n - pmax N < 128 ^ 20 ->
  encode_integer n N = Ok bs -> bs = b0 :: rest ->
  bz b0' mod 2 ^ N = bz b0 ->
  decode_integer (b0' :: rest ++ tl) N = Ok (n, len bs).
Proof. exact round_trip. Qed.
Corollary C11_round_trip_64 : forall n N bs b0 rest b0' tl,
  0 <= n < 2 ^ 64 -> 1 <= N <= 8 ->
  encode_integer n N = Ok bs -> bs = b0 :: rest ->
  bz b0' mod 2 ^ N = bz b0 ->
  decode_integer (b0' :: rest ++ tl) N = Ok (n, len bs).
Proof. exact round_trip_64. Qed.

(** The hypotheses are satisfiable by non-trivial instances (computed by the kernel). *)
Example C11_example_1337 :
  encode_integer 1337 5 = Ok [Byte.x1f; Byte.x9a; Byte.x0a] /\
  decode_integer [Byte.xff; Byte.x9a; Byte.x0a; Byte.x55] 5 = Ok (1337, 3).
Proof. split; vm_compute; reflexivity. Qed.

Print Assumptions C11_enc_exact.
Print Assumptions C11_enc_shape.
Print Assumptions C11_enc_refuses.
Print Assumptions C11_dec_refuses.
Print Assumptions C11_dec_total.
Print Assumptions C11_dec_within.
Print Assumptions C11_dec_none_iff_truncated.
Print Assumptions C11_round_trip.
Print Assumptions C11_round_trip_64.
