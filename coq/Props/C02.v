(** C02 -- Decoder returns the RFC 7541 meaning of every well-formed header block.
    C05's acceptance side is the same refinement theorem (Props/C05.v).

    Two layers: (1) REFINEMENT: the model of Decoder.decode computes exactly the sequential
    RFC decoder [Spec.SDecoder.decode] (result, tuple classes, table afterwards, error class);
    (2) MEANING: for every sequence of representations and EVERY wire form the RFC allows for
    them, that decoder returns the declarative meaning [sem] of the sequence. *)
From Coq Require Import ZArith List Bool.
From HV Require Import Prelude.Py Prelude.State Prelude.Utf8 Spec.DynTable Spec.SDecoder.
From HV Require Import Model.Data Model.Decoder Model.Rel.
From HV Require Import Proofs.Table Proofs.DecoderRefine Proofs.SpecDecoder Proofs.DecoderMeaning Proofs.DecoderMeaningText.
Import ListNotations.
Open Scope Z_scope.

(** the decoder states the theorems quantify over: the table invariant (which every reachable
    state has, C06) and a list-size limit CPython can format into the error message *)
Theorem C02_dec_ok_is : forall d, dec_ok d <-> (TInv d.(d_tab) /\ Z.abs d.(d_max_list) < 10 ^ 4300).
Proof. intros; reflexivity. Qed.

(** (1) refinement, for every byte string, both modes, every such state *)
Theorem C02_decode_refines : forall d data raw, dec_ok d ->
  match Decoder_decode d data raw with
  | (Ok hs, d') => decode KLIM (ctx_of d) data (negb raw) = SOk (map conv hs, ctx_of d') /\ dec_ok d'
  | (Err e, d') => exists c, decode KLIM (ctx_of d) data (negb raw) = SErr c /\ e = exn_of c
  end.
Proof. exact decode_refines. Qed.

(** (2) meaning: any wire form of a well-formed sequence decodes to its meaning *)
Theorem C02_wire_meaning : forall K c rs w fs c', 0 <= K ->
  wire_block K rs w -> sem c rs [] = Some (fs, c') ->
  decode K c w false = SOk (fs, c') /\
  (forallb (fun f => utf8_valid (snd (fst f)) && utf8_valid (snd f)) fs = true -> decode K c w true = SOk (fs, c')).
Proof. exact wire_meaning. Qed.

(** together: the Decoder on any wire form of a well-formed sequence of representations (at
    most 20 continuation octets per integer) returns exactly the RFC's header list, with the
    never-indexed class exactly for never-indexed literals, and its table afterwards is the
    RFC's *)
Theorem C02_wellformed_decodes : forall d rs w fs c', dec_ok d ->
  wire_block KLIM rs w -> sem (ctx_of d) rs [] = Some (fs, c') ->
  exists hs d', Decoder_decode d w true = (Ok hs, d') /\ map conv hs = fs /\ ctx_of d' = c' /\ dec_ok d'.
Proof. exact wellformed_decodes. Qed.

(** the same in text mode (the library's default), when the strings are text *)
Theorem C02_wellformed_decodes_text : forall d rs w fs c', dec_ok d ->
  wire_block KLIM rs w -> sem (ctx_of d) rs [] = Some (fs, c') ->
  forallb (fun f => utf8_valid (snd (fst f)) && utf8_valid (snd f)) fs = true ->
  exists hs d', Decoder_decode d w false = (Ok hs, d') /\ map conv hs = fs /\ ctx_of d' = c' /\ dec_ok d'.
Proof. exact wellformed_decodes_text. Qed.
(** and conversely: whatever the Decoder accepts is a wire form of a well-formed sequence of
    representations whose meaning is what it returned (so "malformed" blocks are refused) *)
Theorem C02_accepted_is_wellformed : forall d w hs d', dec_ok d ->
  Decoder_decode d w true = (Ok hs, d') ->
  exists rs, wire_block KLIM rs w /\ sem (ctx_of d) rs [] = Some (map conv hs, ctx_of d').
Proof. exact accepted_is_wellformed. Qed.

(** non-vacuity: a fresh decoder satisfies [dec_ok]; RFC 7541 C.3.1 decodes as the RFC says *)
Example C02_example :
  fst (Decoder_decode (Decoder_init 65536)
        [Byte.x82; Byte.x86; Byte.x84; Byte.x41; Byte.x0f; Byte.x77; Byte.x77; Byte.x77; Byte.x2e; Byte.x65; Byte.x78;
         Byte.x61; Byte.x6d; Byte.x70; Byte.x6c; Byte.x65; Byte.x2e; Byte.x63; Byte.x6f; Byte.x6d] true)
  = Ok [(HPlain, [Byte.x3a;Byte.x6d;Byte.x65;Byte.x74;Byte.x68;Byte.x6f;Byte.x64], [Byte.x47;Byte.x45;Byte.x54]);
        (HPlain, [Byte.x3a;Byte.x73;Byte.x63;Byte.x68;Byte.x65;Byte.x6d;Byte.x65], [Byte.x68;Byte.x74;Byte.x74;Byte.x70]);
        (HPlain, [Byte.x3a;Byte.x70;Byte.x61;Byte.x74;Byte.x68], [Byte.x2f]);
        (HPlain, [Byte.x3a;Byte.x61;Byte.x75;Byte.x74;Byte.x68;Byte.x6f;Byte.x72;Byte.x69;Byte.x74;Byte.x79],
                 [Byte.x77;Byte.x77;Byte.x77;Byte.x2e;Byte.x65;Byte.x78;Byte.x61;Byte.x6d;Byte.x70;Byte.x6c;Byte.x65;Byte.x2e;Byte.x63;Byte.x6f;Byte.x6d])].
Proof. vm_compute. reflexivity. Qed.

Print Assumptions C02_dec_ok_is.
Print Assumptions C02_wellformed_decodes_text.
Print Assumptions C02_accepted_is_wellformed.
Print Assumptions C02_decode_refines.
Print Assumptions C02_wire_meaning.
Print Assumptions C02_wellformed_decodes.
