(** C08 -- Decoder never accepts a table size above the limit its application permits. *)
From Coq Require Import ZArith List Bool.
From HV Require Import Prelude.Py Prelude.State Spec.DynTable Spec.SDecoder.
From HV Require Import Model.Data Model.Int Model.Table Model.Decoder Model.Rel.
From HV Require Import Proofs.Table Proofs.DecoderRefine Proofs.DecoderProps.
Import ListNotations.
Open Scope Z_scope.

(** an update above the permitted maximum: invalid-table-size error, and the decoder -- its
    table's maximum and entries included -- is exactly as before the update *)
Theorem C08_update_above_rejected : forall d data n k,
  decode_integer data 5 = Ok (n, k) -> d.(d_max_allowed) < n ->
  Decoder__update_encoding_context d data = (Err InvalidTableSizeError, d).
Proof. exact update_above_rejected. Qed.
(** an update at or below it (equality included) is applied at once, with its evictions *)
Theorem C08_update_within_applied : forall d data n k, TInv d.(d_tab) ->
  decode_integer data 5 = Ok (n, k) -> n <= d.(d_max_allowed) ->
  exists d', Decoder__update_encoding_context d data = (Ok k, d') /\
    d'.(d_tab).(maxsize) = n /\ d'.(d_tab).(entries) = resize n d.(d_tab).(entries) /\
    d'.(d_max_allowed) = d.(d_max_allowed) /\ d'.(d_max_list) = d.(d_max_list) /\ TInv d'.(d_tab).
Proof. exact update_within_applied. Qed.

(** whatever a block contains and however decode ends (return or raise), the table's maximum
    afterwards is at most max(its maximum before, the permitted maximum): no update ever
    enlarges it beyond what the application permits *)
Theorem C08_never_above : forall d data raw, dec_ok d ->
  let d' := snd (Decoder_decode d data raw) in
  d'.(d_tab).(maxsize) <= Z.max d.(d_tab).(maxsize) d.(d_max_allowed) /\
  d'.(d_max_allowed) = d.(d_max_allowed).
Proof. exact never_above. Qed.
(** and when decode RETURNS, the table size is within the permitted maximum: a block, even an
    empty one, that ends while it still exceeds a lowered maximum is rejected *)
Theorem C08_end_of_block : forall d data raw hs d', dec_ok d ->
  Decoder_decode d data raw = (Ok hs, d') -> d'.(d_tab).(maxsize) <= d'.(d_max_allowed).
Proof. exact end_of_block. Qed.
Theorem C08_empty_block_rejected : forall d raw, d.(d_max_allowed) < d.(d_tab).(maxsize) ->
  Decoder_decode d [] raw = (Err InvalidTableSizeError, d).
Proof. exact empty_block_rejected. Qed.
(** none is honoured after the first field: it is the general decoding error there, and the
    decoder is left exactly as it was at that point (any number may open a block: the loop and
    [decode_loop] simply iterate; see also C05_update_after_field) *)
Theorem C08_update_after_field : forall data d headers infl idx t,
  headers <> [] -> idx < len data -> index_Z data idx = Ok t -> 32 <= bz t < 64 ->
  decode_body data (len data) (d, headers, infl, idx) = Raise HPACKDecodingError (d, headers, infl, idx).
Proof. exact update_after_field_model. Qed.

Example C08_examples :
  (* permitted 4096: update to 4096 (3f e1 1f) accepted, to 4097 (3f e2 1f) rejected *)
  fst (Decoder_decode (Decoder_init 65536) [Byte.x3f; Byte.xe1; Byte.x1f] true) = Ok [] /\
  fst (Decoder_decode (Decoder_init 65536) [Byte.x3f; Byte.xe2; Byte.x1f] true) = Err InvalidTableSizeError /\
  (* two updates then a field; an update after the field *)
  fst (Decoder_decode (Decoder_init 65536) [Byte.x20; Byte.x3f; Byte.x01; Byte.x82] true) = Ok [(HPlain, [Byte.x3a;Byte.x6d;Byte.x65;Byte.x74;Byte.x68;Byte.x6f;Byte.x64], [Byte.x47;Byte.x45;Byte.x54])] /\
  fst (Decoder_decode (Decoder_init 65536) [Byte.x82; Byte.x20] true) = Err HPACKDecodingError /\
  (* lowered permitted maximum, empty block *)
  fst (Decoder_decode (set_d_max_allowed 100 (Decoder_init 65536)) [] true) = Err InvalidTableSizeError.
Proof. vm_compute. repeat split; reflexivity. Qed.

Print Assumptions C08_update_above_rejected.
Print Assumptions C08_update_within_applied.
Print Assumptions C08_never_above.
Print Assumptions C08_end_of_block.
Print Assumptions C08_empty_block_rejected.
Print Assumptions C08_update_after_field.
