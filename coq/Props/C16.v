(** C16 -- Decoder work grows at most linearly with the size of the block.
    (partial: a theorem about a cost MODEL -- Model/Cost.v -- of the code's control flow plus
    theorems about the model of the code that justify the cost model's unit costs; CPU time,
    memory allocator and big-integer arithmetic of CPython are run-time facts measured by the
    harness, see DESIGN.md) *)
From Coq Require Import ZArith List Bool.
From HV Require Import Prelude.Py Prelude.State Spec.IntRep Spec.DynTable Spec.SDecoder.
From HV Require Import Model.Data Model.Int Model.Table Model.Decoder Model.Rel Model.Cost.
From HV Require Import Proofs.Table Proofs.DecoderRefine Proofs.CostLinear.
Import ListNotations.
Open Scope Z_scope.

(** integer encodings too long to be legitimate are refused rather than accumulated: whatever
    follows, decode_integer looks at no more than 21 octets (the prefix and 20 continuation
    octets), and every value it returns is below 2^141 -- no run of continuation octets makes
    it build a large number *)
Theorem C16_integer_reads_21 : forall bs N, 1 <= N <= 8 ->
  decode_integer bs N = decode_integer (firstn 21 bs) N.
Proof. exact integer_reads_21. Qed.
Theorem C16_integer_bounded : forall bs N n k, 1 <= N <= 8 ->
  decode_integer bs N = Ok (n, k) -> 1 <= k <= 21 /\ 0 <= n < 2 ^ 141.
Proof. exact integer_bounded. Qed.

(** the block loop never re-reads: every iteration that continues advances by at least one
    octet and stays within the block, so there are at most |data| iterations and the octets
    consumed by all representations add up to at most |data| *)
Theorem C16_loop_advances : forall data d hs infl idx d' hs' infl' idx',
  0 <= idx ->
  decode_body data (len data) (d, hs, infl, idx) = Next (d', hs', infl', idx') ->
  idx < idx' <= len data.
Proof. exact loop_advances. Qed.

(** evictions are amortised: a table operation never evicts more than it found plus what it
    inserted *)
Theorem C16_evictions_amortised : forall m e l,
  0 <= len l + 1 - len (insert m e l) <= len l + 1 /\ 0 <= len l - len (resize m l) <= len l.
Proof. exact evictions_amortised. Qed.

(** the cost model is linear: for every context and every block (well-formed or not) *)
Theorem C16_cost_linear : forall K c bs,
  cost_decode K c bs <= 4 * len bs + len (dyn c) + 1.
Proof. exact cost_linear. Qed.
(** and for fixed limits the table term is a constant: at most maxsize/32 entries *)
Theorem C16_table_term_bounded : forall d, TInv d.(d_tab) ->
  32 * len (dyn (ctx_of d)) <= Z.max 0 d.(d_tab).(maxsize).
Proof. exact table_term_bounded. Qed.

Print Assumptions C16_integer_reads_21.
Print Assumptions C16_integer_bounded.
Print Assumptions C16_loop_advances.
Print Assumptions C16_evictions_amortised.
Print Assumptions C16_cost_linear.
Print Assumptions C16_table_term_bounded.
