(** C12 -- Huffman encoder emits the RFC 7541 Appendix B code and round-trips.

    [HuffmanEncoder_encode coder s] is the frozen model of huffman.HuffmanEncoder.encode
    (big-integer bit accumulator, hex-string conversion, bytes.fromhex), parametric in the
    two code lists the encoder object holds; [codes_cert] is a boolean certificate that the
    first 256 (code, length) pairs are those of Appendix B (evaluated by the kernel on the
    frozen lists here and on the lists regenerated from /repo in Bridge/HuffData.v). *)
From Coq Require Import ZArith List Bool.
From HV Require Import Prelude.Py Prelude.State Spec.HuffmanCode Model.Data Model.HuffEnc Model.Decoder Model.Encoder.
From HV Require Import Proofs.HuffSpec Proofs.HuffEnc Proofs.HuffDec Proofs.HuffRound.
Import ListNotations.
Open Scope Z_scope.

(** For every byte string: the concatenated Appendix B codes, MSB first, padded with 1-bits. *)
Theorem C12_encoder_exact : forall coder s, codes_cert coder = true ->
  exists bs, HuffmanEncoder_encode coder s = Ok bs /\ map bz bs = huff_enc s.
Proof. exact encoder_exact. Qed.
Theorem C12_frozen_codes_cert : codes_cert huffman_coder = true.
Proof. exact frozen_codes_cert. Qed.

(** ... where [huff_enc] is what the property says: the bits of the output are the codes of
    the bytes followed by fewer than eight 1-bits, and the empty string encodes to nothing. *)
Theorem C12_huff_enc_shape : forall s bs, map bz bs = huff_enc s ->
  exists p, (p < 8)%nat /\ bits bs = hbits s ++ repeat true p.
Proof. exact huff_enc_shape. Qed.
Theorem C12_huff_enc_octets : forall s, Forall (fun x => 0 <= x < 256) (huff_enc s).
Proof. exact huff_enc_octets. Qed.
Theorem C12_empty : huffman_encode_m [] = Ok [].
Proof. exact encode_empty. Qed.

(** Decoding that output returns the original byte string. *)
Theorem C12_round_trip : forall s bs, huffman_encode_m s = Ok bs -> decode_huffman_m bs = Ok s.
Proof. exact huffman_round_trip. Qed.
Theorem C12_encode_total : forall s, exists bs, huffman_encode_m s = Ok bs /\ HuffRep bs s.
Proof. exact encode_total. Qed.

Example C12_example_zero_bits :
  (* eight '0' characters: forty 0-bits, the big integer is 0 and every hex digit is padding *)
  huffman_encode_m (repeat Byte.x30 8) = Ok (repeat Byte.x00 5).
Proof. vm_compute. reflexivity. Qed.

Print Assumptions C12_encoder_exact.
Print Assumptions C12_frozen_codes_cert.
Print Assumptions C12_huff_enc_shape.
Print Assumptions C12_huff_enc_octets.
Print Assumptions C12_empty.
Print Assumptions C12_round_trip.
Print Assumptions C12_encode_total.
