(** C07 -- Decoded header list never exceeds max_header_list_size (HPACK bomb bound). *)
From Coq Require Import ZArith List Bool.
From HV Require Import Prelude.Py Prelude.State Spec.DynTable Spec.SDecoder.
From HV Require Import Model.Data Model.Table Model.Decoder Model.Rel.
From HV Require Import Proofs.Table Proofs.DecoderRefine Proofs.DecoderProps.
Import ListNotations.
Open Scope Z_scope.

(** whenever decode returns, the size of what it returns is within the limit *)
Theorem C07_list_bound : forall d data raw hs d', dec_ok d ->
  Decoder_decode d data raw = (Ok hs, d') -> list_size (map conv hs) <= Z.max 0 d.(d_max_list).
Proof. exact decode_list_bound. Qed.
(* (for a negative limit only the empty list is ever returned, whose size is 0) *)
Corollary C07_list_bound_nonneg : forall d data raw hs d', dec_ok d -> 0 <= d.(d_max_list) ->
  Decoder_decode d data raw = (Ok hs, d') -> list_size (map conv hs) <= d.(d_max_list).
Proof. intros d data raw hs d' H H0 H1. pose proof (decode_list_bound d data raw hs d' H H1) as H2.
  rewrite Z.max_r in H2 by exact H0. exact H2. Qed.

(** the running size is checked field by field: at every point of the block loop the fields
    held are, except possibly the last one, within the limit -- so at most limit/32 + 1 fields
    are ever materialised, whatever the block's length and however much indexed references
    expand; and an error other than the oversized one is never due to size *)
Theorem C07_loop_bound : forall d data fuel d' headers infl idx r,
  while_fuel fuel (decode_body data (len data)) (d, [], 0, 0) = r ->
  (r = Done (d', headers, infl, idx) \/ (exists e, r = Raised e (d', headers, infl, idx)) \/ r = Exhausted (d', headers, infl, idx)) ->
  infl = list_size (map conv headers) /\
  list_size (map conv (removelast headers)) <= Z.max 0 d.(d_max_list) /\
  32 * (len headers - 1) <= Z.max 0 d.(d_max_list).
Proof. exact decode_loop_bound. Qed.

(** the crossing field raises the oversized error (the RFC decoder's [Oversized] is by
    definition raised at the first field whose running size exceeds the limit) *)
Theorem C07_crossing_rejected : forall d data raw, dec_ok d ->
  (fst (Decoder_decode d data raw) = Err OversizedHeaderListError <->
   decode KLIM (ctx_of d) data (negb raw) = SErr Oversized).
Proof. exact oversized_iff. Qed.
Theorem C07_spec_crossing : forall K fuel c b tl acc run never ins name value rest,
  parse_rep K (dyn c) (bz b) (b :: tl) = SOk (Emit never ins name value, rest) ->
  ~ (32 <= bz b < 64) ->
  (list_limit c < run + esize (name, value) ->
     decode_loop K (S fuel) c (b :: tl) acc run = SErr Oversized) /\
  (run + esize (name, value) <= list_limit c ->
     decode_loop K (S fuel) c (b :: tl) acc run =
     decode_loop K fuel (if ins then {| dyn := insert (size c) (name, value) (dyn c); size := size c; limit := limit c; list_limit := list_limit c |} else c)
                 rest (acc ++ [(never, name, value)]) (run + esize (name, value))).
Proof. exact spec_crossing. Qed.

(** a list exactly at the limit is accepted, one octet less is not *)
Example C07_exactly_at_limit :
  let blk := [Byte.x82; Byte.x82] in    (* :method GET twice: 2 * (32 + 7 + 3) = 84 *)
  let get := (HPlain, [Byte.x3a;Byte.x6d;Byte.x65;Byte.x74;Byte.x68;Byte.x6f;Byte.x64], [Byte.x47;Byte.x45;Byte.x54]) in
  fst (Decoder_decode (Decoder_init 84) blk true) = Ok [get; get] /\
  fst (Decoder_decode (Decoder_init 83) blk true) = Err OversizedHeaderListError.
Proof. vm_compute. split; reflexivity. Qed.

Print Assumptions C07_list_bound.
Print Assumptions C07_list_bound_nonneg.
Print Assumptions C07_loop_bound.
Print Assumptions C07_crossing_rejected.
Print Assumptions C07_spec_crossing.
