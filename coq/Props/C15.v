(** C15 -- Sensitive headers are never indexed, on either side. *)
From Coq Require Import ZArith List Bool.
From HV Require Import Prelude.Py Prelude.State Spec.DynTable Spec.SDecoder.
From HV Require Import Model.Data Model.Table Model.Decoder Model.Encoder Model.Rel Model.RelEnc.
From HV Require Import Proofs.Table Proofs.EncoderMeaning Proofs.Sensitive.
Import ListNotations.
Open Scope Z_scope.

(** Encoder: a sensitive field never changes the encoder (so it is never inserted), and it
    travels as a never-indexed literal -- with a literal name (no name match) or an indexed
    name (name match): the two paths of Encoder.add -- or as a plain index when the identical
    field is already in the table. *)
Theorem C15_encoder_sensitive : forall e n v huff,
  TInv e.(e_tab) -> e.(e_tab).(maxsize) < BIG -> len n < BIG -> len v < BIG ->
  exists w, Encoder_add e n v true huff = (Ok w, e) /\
    ((exists i, lookup i e.(e_tab).(entries) = Some (n, v) /\ wire_rep KLIM (RIndexed i) w) \/
     ((forall i, lookup i e.(e_tab).(entries) <> Some (n, v)) /\
      exists nm, resolve e.(e_tab).(entries) nm = Some n /\ wire_rep KLIM (RLiteral NeverIndexed nm v) w)).
Proof. exact add_sensitive. Qed.
(** an ordinary field that is not in the table is sent as a literal WITH indexing and inserted *)
Theorem C15_encoder_ordinary : forall e n v huff,
  TInv e.(e_tab) -> e.(e_tab).(maxsize) < BIG -> len n < BIG -> len v < BIG ->
  (forall i, lookup i e.(e_tab).(entries) <> Some (n, v)) ->
  exists w e' nm, Encoder_add e n v false huff = (Ok w, e') /\
    resolve e.(e_tab).(entries) nm = Some n /\ wire_rep KLIM (RLiteral WithIndexing nm v) w /\
    e'.(e_tab).(entries) = insert e.(e_tab).(maxsize) (n, v) e.(e_tab).(entries) /\
    e'.(e_tab).(maxsize) = e.(e_tab).(maxsize) /\ e'.(e_changes) = e.(e_changes).
Proof. exact add_ordinary_absent. Qed.

(** Decoder: the never-indexed class exactly for the never-indexed literal pattern (0001xxxx),
    which -- like the literal without indexing -- leaves the decoder unchanged; insertion only
    for the incremental-indexing pattern; an indexed field is plain and inserts nothing. *)
Theorem C15_decoder_literal_no_index : forall d data h c d',
  Decoder__decode_literal d data false = (Ok (h, c), d') ->
  d' = d /\ exists b tl, data = b :: tl /\ (h_class h = HNever <-> 16 <= bz b mod 32).
Proof. exact decode_literal_no_index_class. Qed.
Theorem C15_decoder_literal_index : forall d data h c d',
  Decoder__decode_literal d data true = (Ok (h, c), d') -> h_class h = HPlain.
Proof. exact decode_literal_index_class. Qed.
Theorem C15_decoder_indexed : forall d data h c,
  Decoder__decode_indexed d data = Ok (h, c) -> h_class h = HPlain.
Proof. exact decode_indexed_class. Qed.
(** and in the RFC decoder (to which decode() is proved equal, C02): [never] only from the
    0001 pattern, [insert] only from the 01 pattern *)
Theorem C15_spec_patterns : forall K dynv first bs never ins n v rest,
  parse_rep K dynv first bs = SOk (Emit never ins n v, rest) ->
  (never = true -> 16 <= first < 32 /\ ins = false) /\ (ins = true -> 64 <= first < 128).
Proof. exact spec_patterns. Qed.

Print Assumptions C15_encoder_sensitive.
Print Assumptions C15_encoder_ordinary.
Print Assumptions C15_decoder_literal_no_index.
Print Assumptions C15_decoder_literal_index.
Print Assumptions C15_decoder_indexed.
Print Assumptions C15_spec_patterns.
