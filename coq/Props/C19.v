(** C19 -- A field already in the table is sent as a single index. *)
From Coq Require Import ZArith List Bool.
From HV Require Import Prelude.Py Prelude.State Spec.DynTable Spec.SDecoder.
From HV Require Import Model.Data Model.Table Model.Decoder Model.Encoder Model.Rel Model.RelEnc.
From HV Require Import Proofs.Table Proofs.EncoderMeaning.
Import ListNotations.
Open Scope Z_scope.

(** Whenever (name, value) is addressable -- static or dynamic, empty values included --
    [Encoder.add] emits exactly one indexed representation that resolves to it, and the
    encoder (its table in particular: no duplicate is inserted) is unchanged; this holds for
    sensitive and ordinary fields and both Huffman settings. *)
Theorem C19_present_is_indexed : forall e n v s huff i,
  TInv e.(e_tab) -> e.(e_tab).(maxsize) < BIG ->
  lookup i e.(e_tab).(entries) = Some (n, v) ->
  exists w i', Encoder_add e n v s huff = (Ok w, e) /\
    lookup i' e.(e_tab).(entries) = Some (n, v) /\ wire_rep KLIM (RIndexed i') w.
Proof. exact add_present. Qed.

(** a block repeated while all its fields are still in the table is encoded entirely as
    indexed fields, and leaves the encoder unchanged *)
Theorem C19_repeated_block : forall e hs huff,
  TInv e.(e_tab) -> e.(e_tab).(maxsize) < BIG -> e.(e_tab).(resized) = false ->
  Forall (fun f => exists i, lookup i e.(e_tab).(entries) = Some (nv_of_field f)) hs ->
  exists w rs, Encoder_encode e hs huff = (Ok w, e) /\ wire_block KLIM rs w /\
    Forall2 (fun f r => exists i, r = RIndexed i /\ lookup i e.(e_tab).(entries) = Some (nv_of_field f)) hs rs.
Proof. exact repeated_block_indexed. Qed.

Example C19_empty_value :
  (* (:authority, "") is static entry 1; ("x", "") twice: the second time it is index 62 *)
  fst (Encoder_add Encoder_init [Byte.x3a;Byte.x61;Byte.x75;Byte.x74;Byte.x68;Byte.x6f;Byte.x72;Byte.x69;Byte.x74;Byte.x79] [] false false) = Ok [Byte.x81] /\
  (let e1 := snd (Encoder_add Encoder_init [Byte.x78] [] false false) in
   Encoder_add e1 [Byte.x78] [] false false = (Ok [Byte.xbe], e1)).
Proof. vm_compute. split; reflexivity. Qed.

Print Assumptions C19_present_is_indexed.
Print Assumptions C19_repeated_block.
