(** C17 -- Decoder keeps nothing of the caller's input buffer after decode returns.
    (partial: the theorem is about the provenance abstraction Model/Prov.v; that a value
    tagged Owned really is a fresh object, and that nothing else of the interpreter keeps the
    buffer alive, are run-time facts of CPython checked by the correspondence harness:
    types of retained objects, reference count of the buffer before/after, resizability of a
    bytearray input, behaviour of later blocks after the buffer was overwritten) *)
From Coq Require Import ZArith List Bool.
From HV Require Import Prelude.Py Prelude.State Spec.DynTable.
From HV Require Import Model.Data Model.Table Model.Decoder Model.Prov.
From HV Require Import Proofs.Table Proofs.Prov.
Import ListNotations.
Open Scope Z_scope.

(** the annotated decoder IS the decoder: erasing the tags gives the model's results and state *)
Theorem C17_erase : forall copy s o,
  fst (p_dstep copy s o) = match fst (dstep s.(pd) o) with Ok hs => fst (p_dstep copy s o) | Err e => Err e end /\
  (forall hs, fst (p_dstep copy s o) = Ok hs -> fst (dstep s.(pd) o) = Ok (map fst hs)) /\
  (forall e, fst (p_dstep copy s o) = Err e -> fst (dstep s.(pd) o) = Err e) /\
  (snd (p_dstep copy s o)).(pd) = snd (dstep s.(pd) o).
Proof. exact erase_step. Qed.

(** tags stay parallel to the table *)
Theorem C17_tags_parallel : forall copy ops L,
  length (p_drun copy ops (p_init L)).(ptags) = length (p_drun copy ops (p_init L)).(pd).(d_tab).(entries).
Proof. exact tags_parallel. Qed.

(** MAIN: with the copies in place (the code as it is), after every history -- blocks that
    return and blocks that raise, from any kind of buffer -- every entry the decoder retains
    is an owned object, and so is every field it returns *)
Theorem C17_entries_owned : forall ops L, all_owned (p_drun true ops (p_init L)).(ptags).
Proof. exact entries_owned. Qed.
Theorem C17_returned_owned : forall ops L data raw hs,
  fst (p_decode true (p_drun true ops (p_init L)) data raw) = Ok hs ->
  Forall (fun h => snd h = (Owned, Owned)) hs.
Proof. exact returned_owned. Qed.

(** what is retained between blocks is bounded by the table size: at most
    maxsize - 32 * (number of entries) octets of names and values *)
Theorem C17_retained_bounded : forall ops L,
  let t := (drun ops (Decoder_init L)).(d_tab) in
  fold_right (fun e a => len (fst e) + len (snd e) + a) 0 t.(entries) <= Z.max 0 t.(maxsize) - 32 * len t.(entries).
Proof. exact retained_bounded. Qed.

(** the pinned tree BEFORE the repair (fix: commit 6d9945a, defect D5) violated this: without
    the copies a plain literal with incremental indexing stores views of the caller's buffer *)
Theorem C17_without_copies_refuted :
  exists data, ~ all_owned (snd (p_decode false (p_init 65536) data true)).(ptags).
Proof. exact without_copies_refuted. Qed.

Print Assumptions C17_erase.
Print Assumptions C17_tags_parallel.
Print Assumptions C17_entries_owned.
Print Assumptions C17_returned_owned.
Print Assumptions C17_retained_bounded.
Print Assumptions C17_without_copies_refuted.
