(** C13 -- Huffman decoder is the exact inverse of the Appendix B code, with strict padding.

    Final statements only.  [decode_huffman tbl C E F] is the frozen model of
    huffman_table.decode_huffman, parametric in the 4096-entry transition table and the
    three flag constants; [fsm_cert] is a boolean certificate evaluated by the kernel on
    a concrete table (here on the frozen copy; Bridge/HuffData.v evaluates it on the table
    regenerated from /repo's current source, which decides every one of the 4096 entries). *)
From Coq Require Import ZArith List Bool.
From HV Require Import Prelude.Py Spec.HuffmanCode Model.Data Model.HuffDec Model.Decoder.
From HV Require Import Proofs.HuffSpec Proofs.HuffDec.
Import ListNotations.
Open Scope Z_scope.

(** Sanity of the specification itself (Appendix B as transcribed): prefix-free including EOS,
    EOS is thirty 1-bits, and the code is complete (Kraft equality). *)
Theorem C13_code_prefix_free : forall a b, 0 <= a <= 256 -> 0 <= b <= 256 -> a <> b ->
  strip_prefix (hcode_Z a) (hcode_Z b) = None.
Proof. exact code_prefix_free. Qed.
Theorem C13_eos_is_30_ones : eos_bits = repeat true 30.
Proof. exact eos_is_30_ones. Qed.
Theorem C13_code_complete :
  fold_right Z.add 0 (map (fun cl => 2 ^ (30 - snd cl)) appendix_b) = 2 ^ 30.
Proof. exact code_complete. Qed.

(** Hence the relational definition of section 5.2 is functional and injective, and the
    executable reference decoder decides it. *)
Theorem C13_HuffRep_functional : forall bs s s', HuffRep bs s -> HuffRep bs s' -> s = s'.
Proof. exact HuffRep_functional. Qed.
Theorem C13_HuffRep_injective : forall bs bs' s, HuffRep bs s -> HuffRep bs' s -> bs = bs'.
Proof. exact HuffRep_injective. Qed.
Theorem C13_huff_dec_spec : forall bs s, huff_dec bs = Some s <-> HuffRep bs s.
Proof. exact huff_dec_spec. Qed.

(** The main theorem: for ANY table that passes the certificate and EVERY byte string, the
    nibble-driven state machine computes exactly the reference decoder; no other outcome
    (in particular no IndexError from the table lookups, no ValueError from the output). *)
Theorem C13_decoder_exact : forall tbl C E F, fsm_cert tbl C E F = true -> forall bs,
  decode_huffman tbl C E F bs =
    match huff_dec bs with Some s => Ok s | None => Err HPACKDecodingError end.
Proof. exact decoder_exact. Qed.
Theorem C13_frozen_table_cert :
  fsm_cert HUFFMAN_TABLE HUFFMAN_COMPLETE HUFFMAN_EMIT_SYMBOL HUFFMAN_FAIL = true.
Proof. exact frozen_table_cert. Qed.

(** In the property's words. *)
Theorem C13_accepts_iff : forall bs s, decode_huffman_m bs = Ok s <-> HuffRep bs s.
Proof. exact accepts_iff. Qed.
Theorem C13_rejects_iff : forall bs,
  decode_huffman_m bs = Err HPACKDecodingError <-> ~ exists s, HuffRep bs s.
Proof. exact rejects_iff. Qed.
Theorem C13_no_other_outcome : forall bs,
  (exists s, decode_huffman_m bs = Ok s) \/ decode_huffman_m bs = Err HPACKDecodingError.
Proof. exact no_other_outcome. Qed.
(** every accepted input re-encodes to itself; no two inputs decode to the same output *)
Theorem C13_reencodes : forall bs s, decode_huffman_m bs = Ok s -> map bz bs = huff_enc s.
Proof. exact reencodes. Qed.
Theorem C13_injective : forall bs bs' s,
  decode_huffman_m bs = Ok s -> decode_huffman_m bs' = Ok s -> bs = bs'.
Proof. exact decode_injective. Qed.
(** the three named defect classes are rejected *)
Theorem C13_rejects_eos : forall bs s rest,
  bits bs = hbits s ++ eos_bits ++ rest -> decode_huffman_m bs = Err HPACKDecodingError.
Proof. exact rejects_eos. Qed.
Theorem C13_rejects_long_padding : forall bs s pad,
  bits bs = hbits s ++ pad -> (8 <= length pad)%nat -> forallb (fun b => b) pad = true ->
  decode_huffman_m bs = Err HPACKDecodingError.
Proof. exact rejects_long_padding. Qed.
(** a zero bit in what can only be padding (fewer than 8 bits, not the start of a code) *)
Theorem C13_rejects_zero_in_padding : forall bs s pad,
  bits bs = hbits s ++ pad -> (length pad < 8)%nat -> existsb negb pad = true ->
  match_sym pad = None -> decode_huffman_m bs = Err HPACKDecodingError.
Proof. exact rejects_zero_in_padding. Qed.

Example C13_example :
  decode_huffman_m [Byte.xf1; Byte.xe3; Byte.xc2; Byte.xe5; Byte.xf2; Byte.x3a; Byte.x6b; Byte.xa0; Byte.xab; Byte.x90; Byte.xf4; Byte.xff]
  = Ok [Byte.x77; Byte.x77; Byte.x77; Byte.x2e; Byte.x65; Byte.x78; Byte.x61; Byte.x6d; Byte.x70; Byte.x6c; Byte.x65; Byte.x2e; Byte.x63; Byte.x6f; Byte.x6d].
Proof. vm_compute. reflexivity. Qed.

Print Assumptions C13_code_prefix_free.
Print Assumptions C13_eos_is_30_ones.
Print Assumptions C13_code_complete.
Print Assumptions C13_HuffRep_functional.
Print Assumptions C13_HuffRep_injective.
Print Assumptions C13_huff_dec_spec.
Print Assumptions C13_decoder_exact.
Print Assumptions C13_frozen_table_cert.
Print Assumptions C13_accepts_iff.
Print Assumptions C13_rejects_iff.
Print Assumptions C13_no_other_outcome.
Print Assumptions C13_reencodes.
Print Assumptions C13_injective.
Print Assumptions C13_rejects_eos.
Print Assumptions C13_rejects_long_padding.
Print Assumptions C13_rejects_zero_in_padding.
