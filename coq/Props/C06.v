(** C06 -- Dynamic table never exceeds its maximum size and evicts strictly oldest-first.

    Final statements only.  The table functions are the frozen model of hpack/table.py
    (Model/Table.v); Encoder/Decoder are the models of Model/Encoder.v, Model/Decoder.v. *)
From Coq Require Import ZArith List Bool.
From HV Require Import Prelude.Py Prelude.State Spec.DynTable.
From HV Require Import Model.Data Model.Table Model.Decoder Model.Encoder.
From HV Require Import Proofs.Table Proofs.TableLift.
Import ListNotations.
Open Scope Z_scope.

(** The invariant: the table's own accounting equals the RFC size of its entries, and that
    size is at most the current maximum (a non-positive maximum means an empty table). *)
Theorem C06_TInv_is : forall t,
  TInv t <-> (t.(cursize) = tsize t.(entries) /\ tsize t.(entries) <= Z.max 0 t.(maxsize)).
Proof. intros; reflexivity. Qed.

Theorem C06_init : TInv HeaderTable_init.
Proof. exact TInv_init. Qed.

(** Insertion: never fails, keeps the maximum, and leaves exactly the longest prefix of
    (new entry :: old entries) that fits -- [Spec.DynTable.fit]. *)
Theorem C06_add : forall t n v, TInv t ->
  exists t', HeaderTable_add t n v = (Ok tt, t') /\
    t'.(entries) = insert t.(maxsize) (n, v) t.(entries) /\
    t'.(maxsize) = t.(maxsize) /\ t'.(resized) = t.(resized) /\ TInv t'.
Proof. exact add_spec. Qed.

(** Changing the maximum: never fails, evicts immediately down to the new maximum. *)
Theorem C06_set_maxsize : forall t m, TInv t ->
  exists t', HeaderTable_set_maxsize t m = (Ok tt, t') /\
    t'.(entries) = resize m t.(entries) /\ t'.(maxsize) = m /\
    t'.(resized) = (t.(resized) || negb (m =? t.(maxsize))) /\ TInv t'.
Proof. exact set_maxsize_spec. Qed.

(** What [fit] means, in the property's words. *)
(* it keeps a prefix: only the OLDEST entries go *)
Theorem C06_fit_prefix : forall m l, exists gone, l = fit m l ++ gone.
Proof. exact fit_prefix. Qed.
(* what is kept fits *)
Theorem C06_fit_bound : forall m l, 0 <= m -> tsize (fit m l) <= m.
Proof. exact fit_bound. Qed.
(* only as many as needed: keeping one more entry would exceed the maximum *)
Theorem C06_fit_maximal : forall m l e gone, l = fit m l ++ e :: gone -> m < tsize (fit m l) + esize e.
Proof. exact fit_maximal. Qed.
(* an entry that exactly fits (or fits with room) is kept, with everything before it *)
Theorem C06_fit_keeps : forall m l, tsize l <= m -> fit m l = l.
Proof. exact fit_keeps. Qed.
(* an entry larger than the maximum empties the table and is not stored *)
Theorem C06_insert_too_big : forall m e l, m < esize e -> insert m e l = [].
Proof. exact insert_too_big. Qed.
(* an entry that fits is stored, at the front *)
Theorem C06_insert_fits : forall m e l, esize e <= m -> insert m e l = e :: fit (m - esize e) l.
Proof. exact insert_fits. Qed.
(* raising the maximum evicts nothing *)
Theorem C06_raise_keeps : forall t m, TInv t -> t.(maxsize) <= m -> 0 <= t.(maxsize) -> resize m t.(entries) = t.(entries).
Proof. exact raise_keeps. Qed.

(** At every moment, in both Encoder and Decoder: after any history of operations from a
    fresh object (including operations that raise), the invariant holds. *)
Theorem C06_encoder_always : forall ops, TInv (erun ops Encoder_init).(e_tab).
Proof. exact encoder_TInv. Qed.
Theorem C06_decoder_always : forall ops L, TInv (drun ops (Decoder_init L)).(d_tab).
Proof. exact decoder_TInv. Qed.

Example C06_exact_fit_kept :
  (* three entries of sizes 34, 34, 35 in a table then resized to exactly 69: the two newest stay *)
  let a := ([Byte.x61], [Byte.x62]) in let c := ([Byte.x63], [Byte.x64; Byte.x64]) in
  resize 69 [c; a; a] = [c; a] /\ resize 68 [c; a; a] = [c].
Proof. vm_compute. split; reflexivity. Qed.

Print Assumptions C06_TInv_is.
Print Assumptions C06_init.
Print Assumptions C06_add.
Print Assumptions C06_set_maxsize.
Print Assumptions C06_fit_prefix.
Print Assumptions C06_fit_bound.
Print Assumptions C06_fit_maximal.
Print Assumptions C06_fit_keeps.
Print Assumptions C06_insert_too_big.
Print Assumptions C06_insert_fits.
Print Assumptions C06_raise_keeps.
Print Assumptions C06_encoder_always.
Print Assumptions C06_decoder_always.
