(** C09 -- Encoder signals every table-size change at the start of its next block. *)
From Coq Require Import ZArith List Bool.
From HV Require Import Prelude.Py Prelude.State Spec.DynTable Spec.SDecoder.
From HV Require Import Model.Data Model.Table Model.Decoder Model.Encoder Model.Rel Model.RelEnc.
From HV Require Import Model.Histories.
From HV Require Import Proofs.Table Proofs.EncoderMeaning Proofs.Lockstep Proofs.SizeSignal.
Import ListNotations.
Open Scope Z_scope.

(** From a flushed encoder in step with the peer (nothing pending), apply ANY sequence of
    size settings [vs] (values twice, back to the previous value, 0, ... all within the peer's
    limit), then encode a block.  [recorded old vs] is what the encoder records: the settings
    from the first one that differs from the size then in force (a setting equal to the size
    in force while nothing is pending changes nothing and needs no signal). *)
(** [recorded], [set_all]: Model/Histories.v *)

Theorem C09_settings_recorded : forall e c vs, TInv e.(e_tab) -> Sync e c -> e.(e_changes) = [] ->
  Forall (fun v => 0 <= v <= limit c) vs ->
  let e1 := set_all e vs in
  e1.(e_changes) = recorded (size c) vs /\ Sync e1 c /\ TInv e1.(e_tab) /\
  e1.(e_tab).(maxsize) = last vs (size c) /\
  (* the encoder's own table is what results from applying EVERY setting, recorded or not *)
  e1.(e_tab).(entries) = apply_sizes vs (dyn c).
Proof. exact settings_recorded. Qed.

(** the next block begins with exactly those updates, has no update anywhere else, and leaves
    a decoder's table size equal to the encoder's *)
Theorem C09_signalled_at_start : forall e c vs hs huff, TInv e.(e_tab) -> Sync e c -> e.(e_changes) = [] ->
  ctx_sane c -> Forall (fun v => 0 <= v <= limit c) vs -> Forall field_sane hs -> fields_size hs <= list_limit c ->
  let e1 := set_all e vs in
  exists w e2 rf fs c',
    Encoder_encode e1 hs huff = (Ok w, e2) /\
    wire_block KLIM (map RSizeUpdate (recorded (size c) vs) ++ rf) w /\
    Forall (fun r => match r with RSizeUpdate _ => False | _ => True end) rf /\
    sem c (map RSizeUpdate (recorded (size c) vs) ++ rf) [] = Some (fs, c') /\
    size c' = e2.(e_tab).(maxsize) /\ size c' = last vs (size c) /\ dyn c' = e2.(e_tab).(entries) /\
    e2.(e_changes) = [] /\ e2.(e_tab).(resized) = false.
Proof. exact signalled_at_start. Qed.

(** the smallest size set since the previous block is among the updates, or it is the size
    that was already in force (then it implies no eviction and needs no signal) *)
Theorem C09_smallest_signalled : forall old vs m, In m vs -> (forall v, In v vs -> m <= v) ->
  In m (recorded old vs) \/ m = old.
Proof. exact smallest_signalled. Qed.
(** later blocks start with no update *)
Theorem C09_nothing_pending_nothing_sent : forall e c hs huff, TInv e.(e_tab) -> Sync e c -> e.(e_changes) = [] ->
  ctx_sane c -> Forall field_sane hs -> fields_size hs <= list_limit c ->
  exists w e2 rf fs c', Encoder_encode e hs huff = (Ok w, e2) /\ wire_block KLIM rf w /\
    Forall (fun r => match r with RSizeUpdate _ => False | _ => True end) rf /\ sem c rf [] = Some (fs, c').
Proof. exact nothing_pending_nothing_sent. Qed.

(** KNOWN FINDING (D2, pinned by tests/test_hpack.py::test_resizing_header_table_sends_multiple_updates):
    the last clause of C09 -- "none exceeds the size currently in force" -- is FALSE of the
    code: every recorded setting is emitted verbatim, so after the settings 40, 100, 40 the
    block carries an update to 100 although the size in force is 40.  Because the emitted
    updates are EXACTLY [recorded ...] (theorem above), an update exceeds the final size iff
    the application itself set that larger value since the previous block: that is the
    signature under which the finding is listed in /verif/known_findings.json. *)
Theorem C09_no_update_exceeds_final_refuted :
  exists vs hs, let e1 := set_all Encoder_init vs in
    e1.(e_tab).(maxsize) = 40 /\
    fst (Encoder_encode e1 hs false) = Ok [Byte.x3f; Byte.x09; Byte.x3f; Byte.x45; Byte.x3f; Byte.x09; Byte.x82] /\
    In 100 (recorded 4096 vs) /\ 100 > e1.(e_tab).(maxsize).
Proof.
  exists [40; 100; 40], [([Byte.x3a;Byte.x6d;Byte.x65;Byte.x74;Byte.x68;Byte.x6f;Byte.x64], [Byte.x47;Byte.x45;Byte.x54], false)].
  vm_compute. repeat split; try reflexivity. right; left; reflexivity.
Qed.

Print Assumptions C09_settings_recorded.
Print Assumptions C09_signalled_at_start.
Print Assumptions C09_smallest_signalled.
Print Assumptions C09_nothing_pending_nothing_sent.
Print Assumptions C09_no_update_exceeds_final_refuted.
