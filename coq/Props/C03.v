(** C03 -- Everything the Encoder emits is well-formed HPACK that decodes to its input. *)
From Coq Require Import ZArith List Bool.
From HV Require Import Prelude.Py Prelude.State Spec.DynTable Spec.SDecoder.
From HV Require Import Model.Data Model.Table Model.Decoder Model.Encoder Model.Rel Model.RelEnc.
From HV Require Import Model.Histories.
From HV Require Import Proofs.Table Proofs.EncoderMeaning Proofs.Lockstep.
Import ListNotations.
Open Scope Z_scope.

(** One block, from ANY encoder state in step with a peer context [c]: the output is the
    concatenation of wire forms of a sequence of representations that is well-formed for [c]
    (so: every index in range for a decoder that has processed the earlier blocks, every
    string correctly length-prefixed and validly padded -- that is what [wire_block] and [sem]
    say), size updates occur only at the very start and are exactly the recorded changes, and
    the meaning of the sequence is the header list that was passed in. *)
Theorem C03_block_meaning : forall e c hs huff,
  TInv e.(e_tab) -> Sync e c -> ctx_sane c -> Forall field_sane hs -> fields_size hs <= list_limit c ->
  exists w e' rs fs c',
    Encoder_encode e hs huff = (Ok w, e') /\
    wire_block KLIM rs w /\ sem c rs [] = Some (fs, c') /\
    map nv_of_sfield fs = map nv_of_field hs /\
    Sync e' c' /\ e'.(e_changes) = [] /\ TInv e'.(e_tab) /\
    limit c' = limit c /\ list_limit c' = list_limit c /\
    exists rf, rs = map RSizeUpdate e.(e_changes) ++ rf /\
               Forall (fun r => match r with RSizeUpdate _ => False | _ => True end) rf.
Proof. exact encode_meaning. Qed.

(** ... hence an independent RFC 7541 decoder recovers exactly the header list *)
Theorem C03_block_decodes : forall e c hs huff,
  TInv e.(e_tab) -> Sync e c -> ctx_sane c -> Forall field_sane hs -> fields_size hs <= list_limit c ->
  exists w e' fs c',
    Encoder_encode e hs huff = (Ok w, e') /\
    decode KLIM c w false = SOk (fs, c') /\ map nv_of_sfield fs = map nv_of_field hs /\
    Sync e' c' /\ e'.(e_changes) = [] /\ TInv e'.(e_tab).
Proof. exact encode_decodes_spec. Qed.

(** Every history: a fresh Encoder, any sequence of table-size settings and blocks; an RFC
    decoder with permitted maximum [Lim] (admitting every size set) that processes the blocks
    in order recovers every header list. *)
(** [spec_consumes], [op_ok]: Model/Histories.v *)
Theorem C03_every_history : forall Lim LL ops, 4096 <= Lim < BIG -> Forall (op_ok Lim LL) ops ->
  spec_consumes {| dyn := []; size := 4096; limit := Lim; list_limit := LL |} Encoder_init ops.
Proof. exact spec_consumes_history. Qed.

Print Assumptions C03_block_meaning.
Print Assumptions C03_block_decodes.
Print Assumptions C03_every_history.
