(** C14 -- Index space: 1-61 are the RFC static table, 62+k the k-th newest dynamic entry.

    Final statements only.  [HeaderTable_get_by_index], [HeaderTable_search] are the frozen
    model of hpack/table.py; [lookup] and [static_table] are the specification. *)
From Coq Require Import ZArith List Bool.
From HV Require Import Prelude.Py Prelude.State Spec.StaticTable Spec.DynTable.
From HV Require Import Model.Data Model.Table Model.Decoder.
From HV Require Import Proofs.Table.
Import ListNotations.
Open Scope Z_scope.

(** the data: the table the code indexes is Appendix A *)
Theorem C14_static_data : STATIC_TABLE = static_table /\ STATIC_TABLE_LENGTH = 61 /\ length static_table = 61%nat.
Proof. exact static_data. Qed.

(** get_by_index is the RFC lookup, for EVERY integer (0, negatives, past the end included).
    (The bound on |i| is CPython's: formatting a larger integer into the error message would
    itself fail; decoded indices are below 2^141, see C04.) *)
Theorem C14_get_by_index : forall t i, Z.abs i < 10 ^ 4300 ->
  HeaderTable_get_by_index t i =
    match lookup i t.(entries) with Some e => Ok e | None => Err InvalidTableIndex end.
Proof. exact get_by_index_spec. Qed.

(** 1..61 resolve to Appendix A identically in every instance, whatever its history *)
Theorem C14_static_everywhere : forall t i, 1 <= i <= 61 ->
  HeaderTable_get_by_index t i = match nth_error static_table (Z.to_nat (i - 1)) with Some e => Ok e | None => Err InvalidTableIndex end
  /\ nth_error static_table (Z.to_nat (i - 1)) <> None.
Proof. exact static_everywhere. Qed.
(** 62 + k is the k-th newest entry; 0 and everything past the last entry are invalid *)
Theorem C14_dynamic : forall t k, 0 <= k -> lookup (62 + k) t.(entries) = nth_error t.(entries) (Z.to_nat k).
Proof. exact lookup_dynamic. Qed.
Theorem C14_invalid : forall t i, i <= 0 \/ 62 + len t.(entries) <= i -> lookup i t.(entries) = None.
Proof. exact lookup_invalid. Qed.

(** search never fails; whatever it reports resolves to that name, and to that value too for
    an exact match *)
Theorem C14_search_total : forall t n v, exists r, HeaderTable_search t n v = Ok r.
Proof. exact search_total. Qed.
Theorem C14_search_sound : forall t n v i n' p, HeaderTable_search t n v = Ok (Some (i, n', p)) ->
  n' = n /\ exists e, lookup i t.(entries) = Some e /\ fst e = n /\
  match p with Some v' => v' = v /\ snd e = v | None => True end.
Proof. exact search_sound. Qed.
(** ... and it is complete: an addressable (name, value) is reported as an exact match, and
    a name that occurs somewhere is at least reported as a name match *)
Theorem C14_search_complete : forall t n v i, lookup i t.(entries) = Some (n, v) ->
  exists i', HeaderTable_search t n v = Ok (Some (i', n, Some v)).
Proof. exact search_complete. Qed.
Theorem C14_search_name_complete : forall t n v v0 i, lookup i t.(entries) = Some (n, v0) ->
  exists i' p, HeaderTable_search t n v = Ok (Some (i', n, p)).
Proof. exact search_name_complete. Qed.
Theorem C14_search_none : forall t n v, HeaderTable_search t n v = Ok None ->
  forall i e, lookup i t.(entries) = Some e -> fst e <> n.
Proof. exact search_none. Qed.

Example C14_example :
  let t := {| maxsize := 4096; cursize := 68; resized := false;
              entries := [([Byte.x61], [Byte.x62]); ([Byte.x63], [Byte.x64])] |} in
  HeaderTable_get_by_index t 2 = Ok ([Byte.x3a; Byte.x6d; Byte.x65; Byte.x74; Byte.x68; Byte.x6f; Byte.x64], [Byte.x47; Byte.x45; Byte.x54]) /\
  HeaderTable_get_by_index t 63 = Ok ([Byte.x63], [Byte.x64]) /\
  HeaderTable_get_by_index t 64 = Err InvalidTableIndex /\
  HeaderTable_get_by_index t 0 = Err InvalidTableIndex.
Proof. vm_compute. repeat split; reflexivity. Qed.

Print Assumptions C14_static_data.
Print Assumptions C14_get_by_index.
Print Assumptions C14_static_everywhere.
Print Assumptions C14_dynamic.
Print Assumptions C14_invalid.
Print Assumptions C14_search_total.
Print Assumptions C14_search_sound.
Print Assumptions C14_search_complete.
Print Assumptions C14_search_name_complete.
Print Assumptions C14_search_none.
