(** C10 / C01 / C03 (histories): the simulation between the Encoder model and the peer
    decoder (the Decoder model, resp. the RFC decoder) over histories of operations.

    Built on [encode_decodes_spec] (Proofs/EncoderMeaning.v: one block from an encoder in step
    with a context decodes, under the RFC decoder, to the list that was encoded, leaving both
    in step with nothing pending) and [decode_refines] (Proofs/DecoderRefine.v: the Decoder
    model computes the RFC decoder). *)
From Coq Require Import ZArith List Bool Lia ZifyBool.
From HV Require Import Prelude.Py Prelude.State Prelude.Utf8 Spec.DynTable Spec.SDecoder.
From HV Require Import Model.Data Model.Table Model.Decoder Model.Encoder Model.Rel Model.RelEnc.
From HV Require Import Model.Histories.
From HV Require Import Proofs.Table Proofs.DecoderRefine Proofs.EncoderMeaning.
Import ListNotations.
Open Scope Z_scope.

(** * Lists *)
Lemma last_cons {A} : forall (r : list A) v d, last (v :: r) d = last r v.
Proof.
  induction r as [|x r IH]; intros v d; [reflexivity|].
  change (last (v :: x :: r) d) with (last (x :: r) d).
  rewrite (IH x d), (IH x v). reflexivity.
Qed.

Lemma last_snoc {A} : forall (l : list A) v d, last (l ++ [v]) d = v.
Proof. intros l v d. apply last_last. Qed.

Lemma apply_sizes_nil l : apply_sizes [] l = l.
Proof. reflexivity. Qed.

Lemma apply_sizes_cons v r l : apply_sizes (v :: r) l = apply_sizes r (resize v l).
Proof. reflexivity. Qed.

Lemma apply_sizes_snoc ms v l : apply_sizes (ms ++ [v]) l = resize v (apply_sizes ms l).
Proof. unfold apply_sizes. rewrite fold_left_app. reflexivity. Qed.

Lemma apply_sizes_app ms ns l : apply_sizes (ms ++ ns) l = apply_sizes ns (apply_sizes ms l).
Proof. unfold apply_sizes. apply fold_left_app. Qed.

(** * The RFC decoder never changes the limits of its context *)
Lemma decode_loop_limits K : forall fuel c bs acc run fs c',
  decode_loop K fuel c bs acc run = SOk (fs, c') ->
  limit c' = limit c /\ list_limit c' = list_limit c.
Proof.
  induction fuel as [|fuel IH]; intros c bs acc run fs c' H.
  - destruct bs as [|b bs]; cbn [decode_loop] in H.
    + destruct (size c >? limit c); [discriminate H|].
      injection H as _ H. subst c'. split; reflexivity.
    + discriminate H.
  - destruct bs as [|b bs]; cbn [decode_loop] in H.
    + destruct (size c >? limit c); [discriminate H|].
      injection H as _ H. subst c'. split; reflexivity.
    + cbv zeta in H.
      destruct ((bz b <? 64) && (32 <=? bz b) && negb (len acc =? 0)); [discriminate H|].
      destruct (parse_rep K (dyn c) (bz b) (b :: bs)) as [[a rest]|err]; cbn [sbnd] in H;
        [|discriminate H].
      destruct a as [never ins name value|n].
      * destruct (run + esize (name, value) >? list_limit c); [discriminate H|].
        apply IH in H. destruct ins; cbn [limit list_limit] in H; exact H.
      * destruct (n >? limit c); [discriminate H|].
        apply IH in H. cbn [limit list_limit] in H. exact H.
Qed.

Lemma decode_limits K c w text fs c' : decode K c w text = SOk (fs, c') ->
  limit c' = limit c /\ list_limit c' = list_limit c.
Proof.
  unfold decode. intros H.
  destruct (decode_loop K (S (length w)) c w [] 0) as [[fs0 c0]|err] eqn:L; cbn [sbnd] in H;
    [|discriminate H].
  destruct (text && negb (forallb (fun f => utf8_valid (snd (fst f)) && utf8_valid (snd f)) fs0));
    [discriminate H|].
  injection H as _ H. subst c0. exact (decode_loop_limits _ _ _ _ _ _ _ _ L).
Qed.

(** a block that decodes in raw mode decodes to the same thing in text mode when its strings
    are text *)
Lemma decode_text K c w fs c' : decode K c w false = SOk (fs, c') ->
  forallb (fun f => utf8_valid (snd (fst f)) && utf8_valid (snd f)) fs = true ->
  decode K c w true = SOk (fs, c').
Proof.
  unfold decode. intros H V.
  destruct (decode_loop K (S (length w)) c w [] 0) as [[fs0 c0]|err]; cbn [sbnd] in *;
    [|discriminate H].
  cbn [andb] in H. injection H as H1 H2. subst fs0 c0.
  rewrite V. reflexivity.
Qed.

Lemma valid_transfer : forall (fs : list sfield) (hs : list field),
  map nv_of_sfield fs = map nv_of_field hs ->
  Forall (fun f => utf8_valid (fst (fst f)) = true /\ utf8_valid (snd (fst f)) = true) hs ->
  forallb (fun f => utf8_valid (snd (fst f)) && utf8_valid (snd f)) fs = true.
Proof.
  induction fs as [|f fs IH]; intros hs M V; [reflexivity|].
  destruct hs as [|h hs]; [discriminate M|].
  cbn [map] in M. unfold nv_of_sfield at 1, nv_of_field at 1 in M. injection M as N1 N2 M2.
  pose proof (Forall_inv V) as [V1 V2]. pose proof (Forall_inv_tail V) as V3.
  cbn [forallb]. rewrite (IH hs M2 V3).
  rewrite N1, N2, V1, V2. reflexivity.
Qed.

Lemma nv_conv hs : map nv_of_sfield (map conv hs) = map nv_of_header hs.
Proof. rewrite map_map. apply map_ext. intros h. reflexivity. Qed.

(** * [Sync] with nothing pending is equality of tables *)
Lemma Sync_flushed e c : Sync e c -> e.(e_changes) = [] ->
  e.(e_tab).(entries) = dyn c /\ e.(e_tab).(maxsize) = size c /\ e.(e_tab).(resized) = false.
Proof.
  intros (S1 & S2 & S3 & _ & _) E. rewrite E in *. cbn in S1, S2, S3.
  repeat split; assumption.
Qed.

(** * One block: C10_block_lockstep *)
Theorem block_lockstep : forall e d hs huff raw,
  TInv e.(e_tab) -> dec_ok d -> Sync e (ctx_of d) -> ctx_sane (ctx_of d) ->
  Forall field_sane hs -> fields_size hs <= d.(d_max_list) ->
  (raw = false -> Forall (fun f => utf8_valid (fst (fst f)) = true /\ utf8_valid (snd (fst f)) = true) hs) ->
  exists w e' hs' d',
    Encoder_encode e hs huff = (Ok w, e') /\ Decoder_decode d w raw = (Ok hs', d') /\
    map nv_of_header hs' = map nv_of_field hs /\
    d'.(d_tab).(entries) = e'.(e_tab).(entries) /\ d'.(d_tab).(maxsize) = e'.(e_tab).(maxsize) /\
    e'.(e_changes) = [] /\ e'.(e_tab).(resized) = false /\
    Sync e' (ctx_of d') /\ TInv e'.(e_tab) /\ dec_ok d' /\
    d'.(d_max_allowed) = d.(d_max_allowed) /\ d'.(d_max_list) = d.(d_max_list).
Proof.
  intros e d hs huff raw HT HD HS HC HF HL HU.
  destruct (encode_decodes_spec e (ctx_of d) hs huff HT HS HC HF HL)
    as (w & e' & fs & c' & EE & DD & NV & S' & CH & T').
  assert (DT : decode KLIM (ctx_of d) w (negb raw) = SOk (fs, c')).
  { destruct raw; cbn [negb]; [exact DD|].
    apply decode_text; [exact DD|].
    apply (valid_transfer fs hs NV). apply HU. reflexivity. }
  pose proof (decode_refines d w raw HD) as R.
  destruct (Decoder_decode d w raw) as [[hs'|ex] d'] eqn:DE.
  2:{ destruct R as (cl & R & _). rewrite DT in R. discriminate R. }
  destruct R as [R HD']. rewrite DT in R. injection R as R1 R2.
  destruct (decode_limits _ _ _ _ _ _ DT) as [L1 L2].
  subst c'. subst fs.
  destruct (Sync_flushed _ _ S' CH) as (F1 & F2 & F3).
  exists w, e', hs', d'.
  split; [exact EE|]. split; [exact DE|].
  split; [rewrite <- NV; symmetry; apply nv_conv|].
  split; [symmetry; exact F1|]. split; [symmetry; exact F2|].
  split; [exact CH|]. split; [exact F3|].
  split; [exact S'|]. split; [exact T'|]. split; [exact HD'|].
  split; [exact L1|exact L2].
Qed.

Theorem block_round_trip : forall e d hs huff raw,
  TInv e.(e_tab) -> dec_ok d -> Sync e (ctx_of d) -> ctx_sane (ctx_of d) ->
  Forall field_sane hs -> fields_size hs <= d.(d_max_list) ->
  (raw = false -> Forall (fun f => utf8_valid (fst (fst f)) = true /\ utf8_valid (snd (fst f)) = true) hs) ->
  exists w e' hs' d',
    Encoder_encode e hs huff = (Ok w, e') /\ Decoder_decode d w raw = (Ok hs', d') /\
    map nv_of_header hs' = map nv_of_field hs.
Proof.
  intros e d hs huff raw HT HD HS HC HF HL HU.
  destruct (block_lockstep e d hs huff raw HT HD HS HC HF HL HU)
    as (w & e' & hs' & d' & EE & DE & NV & _).
  exists w, e', hs', d'. repeat split; assumption.
Qed.

(** * A size setting keeps the encoder in step with the (unchanged) peer context *)
Lemma set_size_sync : forall e c v, TInv e.(e_tab) -> Sync e c -> 0 <= v <= limit c ->
  exists e', Encoder_set_header_table_size e v = (Ok tt, e') /\
    TInv e'.(e_tab) /\ Sync e' c /\
    e'.(e_tab).(maxsize) = v /\ e'.(e_tab).(entries) = resize v e.(e_tab).(entries) /\
    e'.(e_changes) = (if e.(e_tab).(resized) || negb (v =? e.(e_tab).(maxsize))
                      then e.(e_changes) ++ [v] else e.(e_changes)).
Proof.
  intros e c v HT HS Hv.
  destruct (set_maxsize_spec e.(e_tab) v HT) as (t' & ES & TE & TM & TR & TT).
  destruct HS as (S1 & S2 & S3 & S4 & S5).
  unfold Encoder_set_header_table_size. rewrite ES.
  cbn [set_e_tab e_tab e_changes]. rewrite TR.
  destruct (resized (e_tab e) || negb (v =? maxsize (e_tab e))) eqn:RZ.
  - eexists. split; [reflexivity|].
    cbn [set_e_changes set_e_tab e_tab e_changes].
    split; [exact TT|]. split.
    + unfold Sync. cbn [set_e_changes set_e_tab e_tab e_changes].
      split; [rewrite TE, S1, apply_sizes_snoc; reflexivity|].
      split; [rewrite TM, last_snoc; reflexivity|].
      split; [rewrite TR; destruct (e_changes e); reflexivity|].
      split; [apply Forall_app; split; [exact S4|constructor; [exact Hv|constructor]]|exact S5].
    + split; [exact TM|]. split; [exact TE|reflexivity].
  - eexists. split; [reflexivity|].
    cbn [set_e_tab e_tab e_changes].
    split; [exact TT|].
    apply orb_false_iff in RZ. destruct RZ as [RZ1 RZ2].
    assert (CH : e_changes e = []).
    { rewrite RZ1 in S3. destruct (e_changes e); [reflexivity|discriminate S3]. }
    assert (Ev : v = maxsize (e_tab e)) by lia.
    assert (K : resize v (entries (e_tab e)) = entries (e_tab e)).
    { unfold resize. apply fit_keeps. destruct HT as [_ HT]. lia. }
    split.
    + unfold Sync. cbn [set_e_changes set_e_tab e_tab e_changes].
      split; [rewrite TE, K; exact S1|].
      split; [rewrite TM, Ev; exact S2|].
      split; [rewrite TR, CH; reflexivity|].
      split; [exact S4|exact S5].
    + split; [exact TM|]. split; [exact TE|reflexivity].
Qed.

Lemma estep_set_size e v e' : Encoder_set_header_table_size e v = (Ok tt, e') ->
  snd (estep e (ESetSize v)) = e'.
Proof. intros H. cbn [estep]. rewrite H. reflexivity. Qed.

(** * Histories against the Decoder model: C10_every_history, C01_round_trip *)
Lemma lockstep_from : forall Lim LL ops e d, Lim < BIG ->
  Forall (pop_ok Lim LL) ops ->
  TInv e.(e_tab) -> dec_ok d -> Sync e (ctx_of d) ->
  d.(d_max_allowed) = Lim -> d.(d_max_list) = LL ->
  in_lockstep d e ops.
Proof.
  intros Lim LL ops. induction ops as [|[o raw] r IH]; intros e d HB HO HT HD HS HLim HLL;
    [exact I|].
  pose proof (Forall_inv HO) as HO1. pose proof (Forall_inv_tail HO) as HO2.
  destruct o as [v|hs h]; cbn [in_lockstep].
  - cbn [pop_ok] in HO1.
    assert (HO1' : 0 <= v <= limit (ctx_of d)) by (cbn [ctx_of limit]; rewrite HLim; exact HO1).
    destruct (set_size_sync e (ctx_of d) v HT HS HO1') as (e' & ES & T' & S' & _).
    rewrite (estep_set_size _ _ _ ES).
    apply IH; try assumption; reflexivity.
  - cbn [pop_ok] in HO1. destruct HO1 as (HF & HL & HU).
    assert (HC : ctx_sane (ctx_of d)) by (unfold ctx_sane; cbn [ctx_of limit]; rewrite HLim; exact HB).
    rewrite <- HLL in HL.
    destruct (block_lockstep e d hs h raw HT HD HS HC HF HL HU)
      as (w & e' & hs' & d' & EE & DE & NV & EN & MS & _ & _ & S' & T' & D' & A' & L').
    cbn [estep]. rewrite EE, DE.
    split; [exact NV|]. split; [exact EN|]. split; [exact MS|].
    apply IH; try assumption.
    + rewrite A'. exact HLim.
    + rewrite L'. exact HLL.
Qed.

Lemma init_state Lim LL : 4096 <= Lim -> Z.abs LL < 10 ^ 4300 ->
  let d := set_d_max_allowed Lim (Decoder_init LL) in
  TInv Encoder_init.(e_tab) /\ dec_ok d /\ Sync Encoder_init (ctx_of d) /\
  d.(d_max_allowed) = Lim /\ d.(d_max_list) = LL.
Proof.
  intros HL HA. cbv zeta.
  split; [exact TInv_init|].
  split; [split; [exact TInv_init|exact HA]|].
  split; [|split; reflexivity].
  unfold Sync, Encoder_init, Decoder_init, set_d_max_allowed, ctx_of, HeaderTable_init.
  cbn [e_tab e_changes d_tab d_max_list d_max_allowed entries maxsize resized dyn size limit
       apply_sizes fold_left last negb].
  split; [reflexivity|]. split; [reflexivity|]. split; [reflexivity|].
  split; [constructor|]. unfold DEFAULT_SIZE. exact HL.
Qed.

Theorem lockstep_history : forall Lim LL ops, 4096 <= Lim < BIG -> Z.abs LL < 10 ^ 4300 ->
  Forall (pop_ok Lim LL) ops ->
  in_lockstep (set_d_max_allowed Lim (Decoder_init LL)) Encoder_init ops.
Proof.
  intros Lim LL ops [HL HB] HA HO.
  destruct (init_state Lim LL HL HA) as (T0 & D0 & S0 & A0 & L0).
  exact (lockstep_from Lim LL ops _ _ HB HO T0 D0 S0 A0 L0).
Qed.

Lemma lockstep_round_trips : forall ops d e, in_lockstep d e ops -> round_trips d e ops.
Proof.
  induction ops as [|[o raw] r IH]; intros d e H; [exact I|].
  destruct o as [v|hs h]; cbn [in_lockstep round_trips] in *.
  - apply IH. exact H.
  - destruct (estep e (EEncode hs h)) as [[w|ex] e']; [|exact H].
    destruct (Decoder_decode d w raw) as [[hs'|ex] d']; [|exact H].
    destruct H as (NV & _ & _ & H). split; [exact NV|apply IH; exact H].
Qed.

Theorem round_trip_history : forall Lim LL ops, 4096 <= Lim < BIG -> Z.abs LL < 10 ^ 4300 ->
  Forall (pop_ok Lim LL) ops ->
  round_trips (set_d_max_allowed Lim (Decoder_init LL)) Encoder_init ops.
Proof.
  intros Lim LL ops H1 H2 H3. apply lockstep_round_trips. apply lockstep_history; assumption.
Qed.

(** * Histories against the RFC decoder: C03_every_history *)
Lemma spec_consumes_from : forall Lim LL ops e c, Lim < BIG ->
  Forall (op_ok Lim LL) ops ->
  TInv e.(e_tab) -> Sync e c -> limit c = Lim -> list_limit c = LL ->
  spec_consumes c e ops.
Proof.
  intros Lim LL ops. induction ops as [|o r IH]; intros e c HB HO HT HS HLim HLL; [exact I|].
  pose proof (Forall_inv HO) as HO1. pose proof (Forall_inv_tail HO) as HO2.
  destruct o as [v|hs h]; cbn [spec_consumes].
  - cbn [op_ok] in HO1. rewrite <- HLim in HO1.
    destruct (set_size_sync e c v HT HS HO1) as (e' & ES & T' & S' & _).
    rewrite (estep_set_size _ _ _ ES).
    apply IH; try assumption; reflexivity.
  - cbn [op_ok] in HO1. destruct HO1 as (HF & HL).
    assert (HC : ctx_sane c) by (unfold ctx_sane; rewrite HLim; exact HB).
    rewrite <- HLL in HL.
    destruct (encode_decodes_spec e c hs h HT HS HC HF HL)
      as (w & e' & fs & c' & EE & DD & NV & S' & CH & T').
    destruct (decode_limits _ _ _ _ _ _ DD) as [L1 L2].
    cbn [estep]. rewrite EE.
    exists fs, c'. split; [exact DD|]. split; [exact NV|].
    apply IH; try assumption.
    + rewrite L1. exact HLim.
    + rewrite L2. exact HLL.
Qed.

Theorem spec_consumes_history : forall Lim LL ops, 4096 <= Lim < BIG -> Forall (op_ok Lim LL) ops ->
  spec_consumes {| dyn := []; size := 4096; limit := Lim; list_limit := LL |} Encoder_init ops.
Proof.
  intros Lim LL ops [HL HB] HO.
  apply (spec_consumes_from Lim LL); try assumption; try reflexivity.
  - exact TInv_init.
  - unfold Sync, Encoder_init, HeaderTable_init.
    cbn [e_tab e_changes entries maxsize resized dyn size limit apply_sizes fold_left last negb].
    split; [reflexivity|]. split; [reflexivity|]. split; [reflexivity|].
    split; [constructor|exact HL].
Qed.
