(** C15, decoder side: which representations carry the never-indexed class and which insert,
    in the model of hpack.hpack.Decoder and in the RFC decoder of Spec/SDecoder.v. *)
From Coq Require Import ZArith List Bool Lia ZifyBool.
From Coq Require Import Init.Byte.
From HV Require Import Prelude.Py Prelude.State Spec.DynTable Spec.SDecoder.
From HV Require Import Model.Data Model.Int Model.Table Model.Decoder.
Import ListNotations.
Open Scope Z_scope.

(** bit 4 of an octet *)
Lemma bit16 b : truthy (Z.land (bz b) 16) = (16 <=? bz b mod 32).
Proof. destruct b; reflexivity. Qed.

Lemma index0_nil {A} : index_Z (@nil A) 0 = Err IndexError.
Proof. reflexivity. Qed.
Lemma index0_cons {A} (x : A) l : index_Z (x :: l) 0 = Ok x.
Proof. reflexivity. Qed.

Ltac step_mbind H :=
  match type of H with
  | mbind ?m _ _ = _ => destruct m; cbn [mbind] in H; [|discriminate H]
  end.

(** the class of the header returned by [_decode_literal], and the decoder it leaves *)
Lemma decode_literal_shape : forall d data si h c d',
  Decoder__decode_literal d data si = (Ok (h, c), d') ->
  exists b tl, data = b :: tl /\
    h_class h = (if si then HPlain else if truthy (Z.land (bz b) 16) then HNever else HPlain) /\
    (si = false -> d' = d).
Proof.
  intros d data si h c d' H. unfold Decoder__decode_literal in H.
  destruct data as [|b tl].
  { rewrite index0_nil in H. cbn [mbind] in H. discriminate H. }
  exists b, tl. split; [reflexivity|].
  rewrite index0_cons in H. cbn [mbind] in H.
  destruct si; cbv beta iota zeta in H.
  - step_mbind H. repeat match type of H with context [let '(_, _) := ?p in _] => destruct p end.
    step_mbind H. repeat match type of H with context [let '(_, _) := ?p in _] => destruct p end.
    match type of H with match ?o with Ok _ => _ | Err _ => _ end = _ => destruct o; [|discriminate H] end.
    injection H as <- _ _. split; [reflexivity|discriminate].
  - step_mbind H. repeat match type of H with context [let '(_, _) := ?p in _] => destruct p end.
    step_mbind H. repeat match type of H with context [let '(_, _) := ?p in _] => destruct p end.
    injection H as <- _ <-. split; [|reflexivity].
    destruct (truthy (Z.land (bz b) 16)); reflexivity.
Qed.

Theorem decode_literal_no_index_class : forall d data h c d',
  Decoder__decode_literal d data false = (Ok (h, c), d') ->
  d' = d /\ exists b tl, data = b :: tl /\ (h_class h = HNever <-> 16 <= bz b mod 32).
Proof.
  intros d data h c d' H.
  destruct (decode_literal_shape d data false h c d' H) as (b & tl & -> & Hc & Hd).
  split; [apply Hd; reflexivity|]. exists b, tl. split; [reflexivity|].
  rewrite Hc, bit16. destruct (16 <=? bz b mod 32) eqn:E; split; intros H'; try lia; try reflexivity; discriminate H'.
Qed.

Theorem decode_literal_index_class : forall d data h c d',
  Decoder__decode_literal d data true = (Ok (h, c), d') -> h_class h = HPlain.
Proof.
  intros d data h c d' H.
  destruct (decode_literal_shape d data true h c d' H) as (b & tl & _ & Hc & _). exact Hc.
Qed.

Theorem decode_indexed_class : forall d data h c,
  Decoder__decode_indexed d data = Ok (h, c) -> h_class h = HPlain.
Proof.
  intros d data h c H. unfold Decoder__decode_indexed in H.
  destruct (decode_integer data 7) as [[i k]|e]; cbn [bind] in H; [|discriminate H].
  destruct (HeaderTable_get_by_index (d_tab d) i) as [t1|e]; cbn [bind] in H; [|discriminate H].
  injection H as <- _. reflexivity.
Qed.

(** the RFC decoder *)
Lemma literal_flags K N never ins d bs nv is n v rest :
  literal K N never ins d bs = SOk (Emit nv is n v, rest) -> nv = never /\ is = ins.
Proof.
  unfold literal. intros H.
  destruct (int_k K N bs) as [[i r]|e]; cbn [sbnd] in H; [|discriminate H].
  match type of H with sbnd ?m _ = _ => destruct m as [[name r2]|e] end; cbn [sbnd] in H; [|discriminate H].
  destruct (str_k K r2) as [[value r3]|e]; cbn [sbnd] in H; [|discriminate H].
  inversion H. split; reflexivity.
Qed.

Theorem spec_patterns : forall K dynv first bs never ins n v rest,
  parse_rep K dynv first bs = SOk (Emit never ins n v, rest) ->
  (never = true -> 16 <= first < 32 /\ ins = false) /\ (ins = true -> 64 <= first < 128).
Proof.
  intros K dynv first bs never ins n v rest H. unfold parse_rep in H.
  destruct (128 <=? first) eqn:E1.
  { destruct (int_k K 7 bs) as [[i r]|e]; cbn [sbnd] in H; [|discriminate H].
    destruct (lookup i dynv); [|discriminate H]. inversion H; subst. split; discriminate. }
  destruct (64 <=? first) eqn:E2.
  { apply literal_flags in H. destruct H as [-> ->]. split; [discriminate|lia]. }
  destruct (32 <=? first) eqn:E3.
  { destruct (int_k K 5 bs) as [[m r]|e]; cbn [sbnd] in H; discriminate H. }
  destruct (16 <=? first) eqn:E4.
  { apply literal_flags in H. destruct H as [-> ->]. split; [intros _; split; [lia|reflexivity]|discriminate]. }
  apply literal_flags in H. destruct H as [-> ->]. split; discriminate.
Qed.
