(** Frame / isolation lemmas for the multi-instance world (C20). *)
From Coq Require Import ZArith List Bool Arith Lia.
From HV Require Import Prelude.Py Prelude.State Model.Decoder Model.Encoder Model.World.
Import ListNotations.
Open Scope Z_scope.

(* estep / dstep are treated as black boxes throughout *)
Local Opaque estep dstep.

(** ** list lemmas *)

Lemma nth_error_set_nth_eq : forall {A} (l : list A) (i : nat) (x : A),
  (i < length l)%nat -> nth_error (set_nth i x l) i = Some x.
Proof.
  intros A l; induction l as [|y r IH]; intros i x Hlt.
  - cbn [length] in Hlt. lia.
  - destruct i as [|k]; cbn [set_nth nth_error].
    + reflexivity.
    + apply IH. cbn [length] in Hlt. lia.
Qed.

Lemma nth_error_set_nth_neq : forall {A} (l : list A) (i j : nat) (x : A),
  i <> j -> nth_error (set_nth i x l) j = nth_error l j.
Proof.
  intros A l; induction l as [|y r IH]; intros i j x Hne.
  - destruct i; cbn [set_nth]; reflexivity.
  - destruct i as [|k]; destruct j as [|m]; cbn [set_nth nth_error].
    + congruence.
    + reflexivity.
    + reflexivity.
    + apply IH. congruence.
Qed.

Lemma nth_error_app_some : forall {A} (l : list A) (i : nat) (x y : A),
  nth_error l i = Some y -> nth_error (l ++ [x]) i = nth_error l i.
Proof.
  intros A l i x y H.
  apply nth_error_app1. apply nth_error_Some. congruence.
Qed.

Lemma nth_error_some_lt : forall {A} (l : list A) (i : nat) (y : A),
  nth_error l i = Some y -> (i < length l)%nat.
Proof. intros A l i y H. apply nth_error_Some. congruence. Qed.

(** ** one step *)

(** the addressed instance steps exactly as it would alone *)
Lemma wstep_addressed : forall w o i x,
  nth_error w i = Some x -> addresses i o = true ->
  nth_error (fst (wstep w o)) i = Some (fst (istep x o)) /\
  snd (wstep w o) = snd (istep x o).
Proof.
  intros w o i x Hx Ha.
  destruct o as [|ml|j eo|j d_o]; cbn [addresses] in Ha; try discriminate Ha.
  - apply Nat.eqb_eq in Ha. subst j.
    unfold wstep. rewrite Hx.
    destruct x as [e|d]; cbn [istep].
    + destruct (estep e eo) as [r e'] eqn:E. cbn [fst snd].
      split; [|reflexivity].
      apply nth_error_set_nth_eq. eapply nth_error_some_lt; eassumption.
    + cbn [fst snd]. split; [assumption|reflexivity].
  - apply Nat.eqb_eq in Ha. subst j.
    unfold wstep. rewrite Hx.
    destruct x as [e|d]; cbn [istep].
    + cbn [fst snd]. split; [assumption|reflexivity].
    + destruct (dstep d d_o) as [r d'] eqn:E. cbn [fst snd].
      split; [|reflexivity].
      apply nth_error_set_nth_eq. eapply nth_error_some_lt; eassumption.
Qed.

(** an existing instance that is not addressed is unchanged *)
Lemma wstep_not_addressed : forall w o i x,
  nth_error w i = Some x -> addresses i o = false ->
  nth_error (fst (wstep w o)) i = Some x.
Proof.
  intros w o i x Hx Ha.
  destruct o as [|ml|j eo|j d_o]; cbn [addresses] in Ha.
  - cbn [wstep fst]. rewrite (nth_error_app_some _ _ _ _ Hx). exact Hx.
  - cbn [wstep fst]. rewrite (nth_error_app_some _ _ _ _ Hx). exact Hx.
  - apply Nat.eqb_neq in Ha.
    unfold wstep.
    destruct (nth_error w j) as [[e|d]|] eqn:Ej; cbn [fst]; try exact Hx.
    destruct (estep e eo) as [r e'] eqn:E. cbn [fst].
    rewrite nth_error_set_nth_neq by congruence. exact Hx.
  - apply Nat.eqb_neq in Ha.
    unfold wstep.
    destruct (nth_error w j) as [[e|d]|] eqn:Ej; cbn [fst]; try exact Hx.
    destruct (dstep d d_o) as [r d'] eqn:E. cbn [fst].
    rewrite nth_error_set_nth_neq by congruence. exact Hx.
Qed.

(** operations on one instance never change another (no hypothesis that i exists) *)
Lemma others_untouched : forall w o i j, i <> j -> addresses j o = true ->
  nth_error (fst (wstep w o)) i = nth_error w i.
Proof.
  intros w o i j Hne Ha.
  destruct o as [|ml|k eo|k d_o]; cbn [addresses] in Ha; try discriminate Ha.
  - apply Nat.eqb_eq in Ha. subst k.
    unfold wstep.
    destruct (nth_error w j) as [[e|d]|] eqn:Ej; cbn [fst]; try reflexivity.
    destruct (estep e eo) as [r e'] eqn:E. cbn [fst].
    apply nth_error_set_nth_neq. congruence.
  - apply Nat.eqb_eq in Ha. subst k.
    unfold wstep.
    destruct (nth_error w j) as [[e|d]|] eqn:Ej; cbn [fst]; try reflexivity.
    destruct (dstep d d_o) as [r d'] eqn:E. cbn [fst].
    apply nth_error_set_nth_neq. congruence.
Qed.

(** ** histories *)

(** projection form of the frame property *)
Lemma frame_proj : forall ops w i x,
  nth_error w i = Some x ->
  nth_error (fst (wrun w ops)) i = Some (fst (irun x (filter (addresses i) ops))) /\
  outputs_of i ops (snd (wrun w ops)) = snd (irun x (filter (addresses i) ops)).
Proof.
  induction ops as [|o r IH]; intros w i x Hx.
  - cbn [wrun filter irun fst snd outputs_of]. split; [exact Hx|reflexivity].
  - cbn [wrun filter].
    destruct (wstep w o) as [w1 out] eqn:Ew.
    destruct (wrun w1 r) as [w2 outs] eqn:Er.
    cbn [fst snd outputs_of].
    destruct (addresses i o) eqn:Ea.
    + cbn [irun].
      destruct (istep x o) as [x1 out'] eqn:Ei.
      destruct (irun x1 (filter (addresses i) r)) as [x2 outs'] eqn:Eir.
      cbn [fst snd].
      destruct (wstep_addressed w o i x Hx Ea) as [H1 H2].
      rewrite Ew, Ei in H1, H2. cbn [fst snd] in H1, H2.
      destruct (IH w1 i x1 H1) as [H3 H4].
      rewrite Er, Eir in H3, H4. cbn [fst snd] in H3, H4.
      split; [exact H3|]. rewrite H2, H4. reflexivity.
    + pose proof (wstep_not_addressed w o i x Hx Ea) as H1.
      rewrite Ew in H1. cbn [fst] in H1.
      destruct (IH w1 i x H1) as [H3 H4].
      rewrite Er in H3, H4. cbn [fst snd] in H3, H4.
      split; assumption.
Qed.

Lemma frame : forall w ops i x,
  nth_error w i = Some x ->
  let '(w', outs) := wrun w ops in
  let '(x', outs_i) := irun x (filter (addresses i) ops) in
  nth_error w' i = Some x' /\ outputs_of i ops outs = outs_i.
Proof.
  intros w ops i x Hx.
  pose proof (frame_proj ops w i x Hx) as H.
  destruct (wrun w ops) as [w' outs].
  destruct (irun x (filter (addresses i) ops)) as [x' outs_i].
  exact H.
Qed.

Lemma independent_of_others : forall w1 w2 ops1 ops2 i x,
  nth_error w1 i = Some x -> nth_error w2 i = Some x ->
  filter (addresses i) ops1 = filter (addresses i) ops2 ->
  outputs_of i ops1 (snd (wrun w1 ops1)) = outputs_of i ops2 (snd (wrun w2 ops2)) /\
  nth_error (fst (wrun w1 ops1)) i = nth_error (fst (wrun w2 ops2)) i.
Proof.
  intros w1 w2 ops1 ops2 i x H1 H2 Hf.
  destruct (frame_proj ops1 w1 i x H1) as [A1 B1].
  destruct (frame_proj ops2 w2 i x H2) as [A2 B2].
  rewrite A1, A2, B1, B2, Hf. split; reflexivity.
Qed.
