(** C03 / C15 / C19: what the model of hpack.hpack.Encoder writes, in terms of the declarative
    RFC layer of Spec/SDecoder.v ([rep], [sem], [wire_rep], [wire_block]). *)
From Coq Require Import ZArith List Bool Lia ZifyBool Arith.
From Coq Require Import Init.Byte.
From HV Require Import Prelude.Py Prelude.State Prelude.Utf8.
From HV Require Import Spec.IntRep Spec.HuffmanCode Spec.StaticTable Spec.DynTable Spec.SDecoder.
From HV Require Import Model.Data Model.Int Model.Table Model.HuffEnc Model.Decoder Model.Encoder Model.Rel Model.RelEnc.
From HV Require Import Proofs.IntSpec Proofs.Int Proofs.Table Proofs.HuffEnc Proofs.HuffRound Proofs.SpecDecoder.
Import ListNotations.
Open Scope Z_scope.

Local Ltac Zify.zify_post_hook ::= Z.to_euclidean_division_equations.

(** * Numbers *)
Lemma BIG_lit : BIG = 1361129467683753853853498429727072845824.
Proof. reflexivity. Qed.
Lemma pow128_20_lit : 128 ^ 20 = 1393796574908163946345982392040522594123776.
Proof. reflexivity. Qed.

Lemma pow2_width N : 1 <= N <= 8 ->
  2 ^ N = 2 \/ 2 ^ N = 4 \/ 2 ^ N = 8 \/ 2 ^ N = 16 \/ 2 ^ N = 32 \/ 2 ^ N = 64 \/ 2 ^ N = 128 \/ 2 ^ N = 256.
Proof. intros H. width_cases N H; vm_compute; tauto. Qed.

(** [x | hi] when [hi] has no bit inside the N-bit prefix and [x] is inside it *)
Lemma lor_prefix N x hi : 0 <= N -> 0 <= x < 2 ^ N -> hi mod 2 ^ N = 0 -> Z.lor x hi = x + hi.
Proof.
  intros HN Hx Hh. rewrite Z.lor_comm.
  pose proof (Z.pow_pos_nonneg 2 N ltac:(lia) HN) as HP.
  assert (E : hi = Z.shiftl (hi / 2 ^ N) N).
  { rewrite Z.shiftl_mul_pow2 by exact HN. revert Hh. generalize dependent (2 ^ N). intros; lia. }
  rewrite E at 1. rewrite (lor_shift (hi / 2 ^ N) x N HN Hx).
  revert Hh. generalize dependent (2 ^ N). intros; lia.
Qed.

(** * 1. Integers as the encoder writes them: [encode_integer n N], then [or_first _ hi] *)
Lemma int_enc_first N n b0 rest : 1 <= N <= 8 -> 0 <= n -> int_enc N n = b0 :: rest -> 0 <= b0 < 2 ^ N.
Proof.
  intros HN Hn E. unfold int_enc, pmax in E.
  destruct (n <? 2 ^ N - 1) eqn:L; injection E as E1 _; subst b0; lia.
Qed.

Lemma enc_or_wire n N hi : 0 <= n -> 1 <= N <= 8 -> n - pmax N < 128 ^ 20 ->
  0 <= hi < 256 -> hi mod 2 ^ N = 0 ->
  exists bs b r, encode_integer n N = Ok bs /\ or_first bs hi = Ok (b :: r) /\
    wire_int KLIM N n (map bz (b :: r)) /\ hi <= bz b < hi + 2 ^ N.
Proof.
  intros Hn HN Hb Hhi Hm.
  destruct (encode_integer_ok n N Hn HN) as (bs & Hbs & Hmap & Hne).
  destruct bs as [|b0 rest]; [congruence|]. cbn [map] in Hmap. symmetry in Hmap.
  pose proof (int_enc_first N n _ _ HN Hn Hmap) as Hb0.
  pose proof (lor_prefix N (bz b0) hi ltac:(lia) Hb0 Hm) as HL.
  assert (Hlt : bz b0 + hi < 256).
  { destruct (pow2_width N HN) as [E|[E|[E|[E|[E|[E|[E|E]]]]]]]; rewrite E in *; clear - Hhi Hm Hb0; lia. }
  destruct (zb_octet (bz b0 + hi) ltac:(lia)) as (b & Hzb & Hbz).
  exists (b0 :: rest), b, rest. split; [exact Hbs|]. split.
  { cbn [or_first]. rewrite HL, Hzb. reflexivity. }
  split.
  - assert (Hmod : bz b mod 2 ^ N = bz b0).
    { rewrite Hbz. pose proof (Z.pow_pos_nonneg 2 N ltac:(lia) ltac:(lia)) as HP.
      apply Z.mod_divide in Hm; [|lia]. destruct Hm as [q ->].
      rewrite Z_mod_plus_full. apply Z.mod_small. exact Hb0. }
    pose proof (int_dec_enc_app_gen N n (bz b0) (map bz rest) (bz b) [] HN Hn Hmap Hmod) as D.
    rewrite app_nil_r in D.
    pose proof (int_enc_length_20 N n HN Hn Hb) as HL20.
    assert (EL : len (int_enc N n) = len (map bz (b :: rest))).
    { rewrite Hmap. cbn [map]. rewrite !len_cons. reflexivity. }
    split; [cbn [map]; rewrite D, EL; reflexivity|]. unfold KLIM. lia.
  - lia.
Qed.

(** the same with no bits added: [encode_integer] alone *)
Lemma enc_plain_wire n N : 0 <= n -> 1 <= N <= 8 -> n - pmax N < 128 ^ 20 ->
  exists b r, encode_integer n N = Ok (b :: r) /\ wire_int KLIM N n (map bz (b :: r)) /\ 0 <= bz b < 2 ^ N.
Proof.
  intros Hn HN Hb.
  assert (H0 : 0 mod 2 ^ N = 0) by apply Zmod_0_l.
  destruct (enc_or_wire n N 0 Hn HN Hb ltac:(lia) H0) as (bs & b & r & Hbs & Hor & W & F).
  destruct bs as [|b0 rest]; [discriminate|]. cbn [or_first] in Hor.
  rewrite Z.lor_0_r, Proofs.Int.zb_bz in Hor. injection Hor as <- <-.
  exists b0, rest. split; [exact Hbs|]. split; [exact W|lia].
Qed.

(** * 2. Strings *)
Lemma bits_length bs : length (bits bs) = (8 * length bs)%nat.
Proof.
  unfold bits. induction bs as [|b r IH]; [reflexivity|].
  cbn [flat_map length]. rewrite app_length, IH. unfold byte_bits. rewrite bits_msb_length. lia.
Qed.

Lemma hbits_length s : (length (hbits s) <= 30 * length s)%nat.
Proof.
  unfold hbits. induction s as [|b r IH]; [cbn; lia|].
  cbn [flat_map length]. rewrite app_length. pose proof (hcode_len b) as H. unfold len in H. lia.
Qed.

(** the Huffman form of a string is at most 30/8 of its length, plus the padding *)
Lemma huffrep_len (p s : bytes) : HuffRep p s -> 8 * len p <= 30 * len s + 7.
Proof.
  intros (pad & E & L & _). apply (f_equal (@length bool)) in E.
  rewrite app_length, bits_length in E. pose proof (hbits_length s) as H. unfold len. lia.
Qed.

Lemma str_wire (s : bytes) (huff : bool) : len s < BIG ->
  exists p l0 lw, (if huff then huffman_encode_m s else Ok s) = Ok p /\
    encode_integer (len p) 7 = Ok l0 /\ (if huff then or_first l0 128 else Ok l0) = Ok lw /\
    wire_str KLIM s (lw ++ p).
Proof.
  intros Hs. rewrite BIG_lit in Hs. pose proof (len_nonneg s) as Hs0. destruct huff.
  - destruct (encode_total s) as (p & E & R). pose proof (huffrep_len p s R) as HL.
    pose proof (len_nonneg p) as Hp0.
    destruct (enc_or_wire (len p) 7 128 Hp0 ltac:(lia)
                ltac:(change (pmax 7) with 127; rewrite pow128_20_lit; lia) ltac:(lia) eq_refl)
      as (bs & b & r & Hbs & Hor & W & F).
    exists p, bs, (b :: r). repeat split; try assumption.
    exists (b :: r), p. split; [reflexivity|]. split; [exact W|].
    cbn [hbit]. destruct (128 <=? bz b) eqn:E1; [exact R|lia].
  - destruct (enc_plain_wire (len s) 7 Hs0 ltac:(lia)
                ltac:(change (pmax 7) with 127; rewrite pow128_20_lit; lia)) as (b & r & Hbs & W & F).
    change (2 ^ 7) with 128 in F.
    exists s, (b :: r), (b :: r). repeat split; try assumption.
    exists (b :: r), s. split; [reflexivity|]. split; [exact W|].
    cbn [hbit]. destruct (128 <=? bz b) eqn:E1; [lia|reflexivity].
Qed.

(** * 3. The three emitters *)
Definition ibit (s : bool) : bytes := if negb s then INDEX_INCREMENTAL else INDEX_NEVER.
Definition imode (s : bool) : lmode := if s then NeverIndexed else WithIndexing.

Lemma encode_indexed_wire i : 0 <= i < 128 ^ 20 ->
  exists w, Encoder__encode_indexed i = Ok w /\ wire_rep KLIM (RIndexed i) w.
Proof.
  intros Hi. rewrite pow128_20_lit in Hi.
  destruct (enc_or_wire i 7 128 ltac:(lia) ltac:(lia)
              ltac:(change (pmax 7) with 127; rewrite pow128_20_lit; lia) ltac:(lia) eq_refl)
    as (bs & b & r & Hbs & Hor & W & F).
  change (2 ^ 7) with 128 in F.
  exists (b :: r). unfold Encoder__encode_indexed. rewrite Hbs. cbn [bind]. rewrite Hor. cbn [bind].
  split; [reflexivity|]. split; [cbn [first_in]; lia|exact W].
Qed.

Lemma encode_literal_wire (n v : bytes) (s huff : bool) : len n < BIG -> len v < BIG ->
  exists w, Encoder__encode_literal n v (ibit s) huff = Ok w /\
    wire_rep KLIM (RLiteral (imode s) (NameLit n) v) w.
Proof.
  intros Hn Hv.
  destruct (str_wire n huff Hn) as (pn & ln0 & lwn & En & Eln & Eon & Wn).
  destruct (str_wire v huff Hv) as (pv & lv0 & lwv & Ev & Elv & Eov & Wv).
  exists (ibit s ++ lwn ++ pn ++ lwv ++ pv). unfold Encoder__encode_literal.
  rewrite En. cbn [bind]. rewrite Ev. cbn [bind]. rewrite Eln. cbn [bind]. rewrite Elv. cbn [bind].
  rewrite Eon. cbn [bind]. rewrite Eov. cbn [bind]. split; [reflexivity|].
  assert (G : forall lo hi N, first_in lo hi (ibit s) -> wire_int KLIM N 0 (map bz (ibit s)) ->
    exists wi wn wv, ibit s ++ lwn ++ pn ++ lwv ++ pv = wi ++ wn ++ wv /\ first_in lo hi wi /\
      (wire_int KLIM N 0 (map bz wi) /\ wire_str KLIM n wn) /\ wire_str KLIM v wv).
  { intros lo hi N F W. exists (ibit s), (lwn ++ pn), (lwv ++ pv).
    split; [rewrite <- app_assoc; reflexivity|]. split; [exact F|].
    split; [split; [exact W|exact Wn]|exact Wv]. }
  destruct s; cbn [imode wire_rep]; apply G.
  - vm_compute. split; [discriminate|reflexivity].
  - split; [reflexivity|vm_compute; discriminate].
  - vm_compute. split; [discriminate|reflexivity].
  - split; [reflexivity|vm_compute; discriminate].
Qed.

Lemma indexed_literal_gen i (v : bytes) (huff : bool) N o : 0 < i < 128 ^ 20 -> len v < BIG ->
  1 <= N <= 8 -> 0 <= o < 256 -> o mod 2 ^ N = 0 -> pmax N >= 0 ->
  exists (b : byte) (r wv : bytes),
    (prefix <- encode_integer i N ;; o' <- Ok o ;; prefix <- or_first prefix o' ;;
     value <- (if huff then huffman_encode_m v else Ok v) ;;
     value_len <- encode_integer (len value) 7 ;;
     value_len <- (if huff then or_first value_len 128 else Ok value_len) ;;
     Ok (prefix ++ value_len ++ value)) = Ok ((b :: r) ++ wv) /\
    wire_int KLIM N i (map bz (b :: r)) /\ o <= bz b < o + 2 ^ N /\ wire_str KLIM v wv.
Proof.
  intros Hi Hv HN Ho Hm HP.
  destruct (str_wire v huff Hv) as (pv & lv0 & lwv & Ev & Elv & Eov & Wv).
  destruct (enc_or_wire i N o ltac:(lia) HN ltac:(lia) Ho Hm) as (bs & b & r & Hbs & Hor & W & F).
  exists b, r, (lwv ++ pv). rewrite Hbs. cbn [bind]. rewrite Hor. cbn [bind].
  rewrite Ev. cbn [bind]. rewrite Elv. cbn [bind]. rewrite Eov. cbn [bind].
  split; [reflexivity|]. split; [exact W|]. split; [exact F|exact Wv].
Qed.

Lemma encode_indexed_literal_wire i (v : bytes) (s huff : bool) : 0 < i < 128 ^ 20 -> len v < BIG ->
  exists w, Encoder__encode_indexed_literal i v (ibit s) huff = Ok w /\
    wire_rep KLIM (RLiteral (imode s) (NameIdx i) v) w.
Proof.
  intros Hi Hv. unfold Encoder__encode_indexed_literal.
  destruct s; cbn [ibit imode negb].
  - change (bytes_eqb INDEX_NEVER INDEX_INCREMENTAL) with false. cbn [negb].
    change (ord_bytes INDEX_NEVER) with (Ok (A := Z) 16).
    destruct (indexed_literal_gen i v huff 4 16 Hi Hv ltac:(lia) ltac:(lia) eq_refl ltac:(vm_compute; discriminate))
      as (b & r & wv & E & W & F & Wv).
    change (2 ^ 4) with 16 in F.
    exists ((b :: r) ++ wv). split; [exact E|]. cbn [wire_rep].
    exists (b :: r), [], wv. split; [reflexivity|]. split; [cbn [first_in]; lia|].
    split; [|exact Wv]. split; [lia|]. split; [exact W|reflexivity].
  - change (bytes_eqb INDEX_INCREMENTAL INDEX_INCREMENTAL) with true. cbn [negb].
    change (ord_bytes INDEX_INCREMENTAL) with (Ok (A := Z) 64).
    destruct (indexed_literal_gen i v huff 6 64 Hi Hv ltac:(lia) ltac:(lia) eq_refl ltac:(vm_compute; discriminate))
      as (b & r & wv & E & W & F & Wv).
    change (2 ^ 6) with 64 in F.
    exists ((b :: r) ++ wv). split; [exact E|]. cbn [wire_rep].
    exists (b :: r), [], wv. split; [reflexivity|]. split; [cbn [first_in]; lia|].
    split; [|exact Wv]. split; [lia|]. split; [exact W|reflexivity].
Qed.

(** * 4. [Encoder.add] *)
Lemma tsize_len (l : list (bytes * bytes)) : 32 * len l <= tsize l.
Proof.
  induction l as [|x l IH]; [cbn; lia|].
  rewrite tsize_cons, len_cons. pose proof (esize_ge x). lia.
Qed.

(** every index that resolves is positive and small enough for the 20-octet limit *)
Lemma lookup_index_bound (t : table) i x : TInv t -> maxsize t < BIG ->
  lookup i (entries t) = Some x -> 0 < i < 128 ^ 20.
Proof.
  intros [_ HT] HB HL. rewrite BIG_lit in HB. rewrite pow128_20_lit.
  pose proof (tsize_len (entries t)) as H32. pose proof (len_nonneg (entries t)) as H0.
  destruct (Z_le_gt_dec i 0) as [L|G].
  { rewrite (lookup_invalid t i (or_introl L)) in HL. discriminate. }
  destruct (Z_le_gt_dec (62 + len (entries t)) i) as [L|G'].
  { rewrite (lookup_invalid t i (or_intror L)) in HL. discriminate. }
  lia.
Qed.

Lemma pair_eta {A B} (x : A * B) a b : fst x = a -> snd x = b -> x = (a, b).
Proof. destruct x; cbn; intros; subst; reflexivity. Qed.

(** C19: a field that is in the table goes out as one index, and nothing changes *)
Theorem add_present : forall e n v s huff i,
  TInv e.(e_tab) -> e.(e_tab).(maxsize) < BIG ->
  lookup i e.(e_tab).(entries) = Some (n, v) ->
  exists w i', Encoder_add e n v s huff = (Ok w, e) /\
    lookup i' e.(e_tab).(entries) = Some (n, v) /\ wire_rep KLIM (RIndexed i') w.
Proof.
  intros e n v s huff i HT HB HL.
  destruct (search_complete (e_tab e) n v i HL) as (i' & Hs).
  destruct (search_sound (e_tab e) n v i' n (Some v) Hs) as (_ & x & Hx & Hf & _ & Hsn).
  rewrite (pair_eta x n v Hf Hsn) in Hx.
  pose proof (lookup_index_bound (e_tab e) i' _ HT HB Hx) as Hi.
  destruct (encode_indexed_wire i' ltac:(lia)) as (w & Hw & W).
  exists w, i'. unfold Encoder_add. rewrite Hs. cbn [mbind]. rewrite Hw.
  split; [reflexivity|]. split; [exact Hx|exact W].
Qed.

(** what a literal leaves behind: nothing when sensitive, the insertion otherwise *)
Definition add_effect (s : bool) (e e' : encoder) (n v : bytes) : Prop :=
  if s then e' = e
  else e'.(e_tab).(entries) = insert e.(e_tab).(maxsize) (n, v) e.(e_tab).(entries) /\
       e'.(e_tab).(maxsize) = e.(e_tab).(maxsize) /\ e'.(e_tab).(resized) = e.(e_tab).(resized) /\
       e'.(e_changes) = e.(e_changes) /\ TInv e'.(e_tab).

Lemma add_tail e (n v : bytes) (s : bool) (w : bytes) : TInv e.(e_tab) ->
  exists e',
    (if negb s
     then sbind (lift_tab e (HeaderTable_add e.(e_tab) n v)) (fun _ self => (Ok w, self))
     else (Ok w, e)) = (Ok w, e') /\ add_effect s e e' n v.
Proof.
  intros HT. destruct s; cbn [negb add_effect].
  - exists e. split; reflexivity.
  - destruct (add_spec (e_tab e) n v HT) as (t' & E & H1 & H2 & H3 & H4).
    exists (set_e_tab t' e). unfold lift_tab. rewrite E. cbn [fst snd sbind].
    split; [reflexivity|]. cbn [set_e_tab e_tab e_changes]. split; [exact H1|]. split; [exact H2|]. split; [exact H3|]. split; [reflexivity|exact H4].
Qed.

(** a field that is not in the table goes out as a literal, with the name by index when some
    entry has it; mode and effect by sensitivity *)
Lemma add_absent : forall e n v s huff,
  TInv e.(e_tab) -> e.(e_tab).(maxsize) < BIG -> len n < BIG -> len v < BIG ->
  (forall i, lookup i e.(e_tab).(entries) <> Some (n, v)) ->
  exists w e' nm, Encoder_add e n v s huff = (Ok w, e') /\
    resolve e.(e_tab).(entries) nm = Some n /\ wire_rep KLIM (RLiteral (imode s) nm v) w /\
    add_effect s e e' n v.
Proof.
  intros e n v s huff HT HB Hn Hv Habs.
  destruct (search_total (e_tab e) n v) as (r & Hs).
  unfold Encoder_add. rewrite Hs. cbn [mbind]. fold (ibit s).
  destruct r as [[[i n'] [v'|]]|].
  - exfalso. destruct (search_sound _ _ _ _ _ _ Hs) as (_ & x & Hx & Hf & _ & Hsn).
    rewrite (pair_eta x n v Hf Hsn) in Hx. exact (Habs i Hx).
  - destruct (search_sound _ _ _ _ _ _ Hs) as (-> & x & Hx & Hf & _).
    pose proof (lookup_index_bound (e_tab e) i _ HT HB Hx) as Hi.
    destruct (encode_indexed_literal_wire i v s huff Hi Hv) as (w & Hw & W).
    rewrite Hw. cbn [mbind].
    destruct (add_tail e n v s w HT) as (e' & Ht & Heff). rewrite Ht.
    exists w, e', (NameIdx i). split; [reflexivity|]. split; [|split; [exact W|exact Heff]].
    cbn [resolve]. destruct (i =? 0) eqn:E0; [lia|]. rewrite Hx. cbn [option_map]. rewrite Hf. reflexivity.
  - destruct (encode_literal_wire n v s huff Hn Hv) as (w & Hw & W).
    rewrite Hw. cbn [mbind].
    destruct (add_tail e n v s w HT) as (e' & Ht & Heff). rewrite Ht.
    exists w, e', (NameLit n). split; [reflexivity|]. split; [reflexivity|]. split; [exact W|exact Heff].
Qed.

(** both cases together: one representation per field *)
Lemma add_cases : forall e n v s huff,
  TInv e.(e_tab) -> e.(e_tab).(maxsize) < BIG -> len n < BIG -> len v < BIG ->
  (exists w i, Encoder_add e n v s huff = (Ok w, e) /\
     lookup i e.(e_tab).(entries) = Some (n, v) /\ wire_rep KLIM (RIndexed i) w) \/
  ((forall i, lookup i e.(e_tab).(entries) <> Some (n, v)) /\
   exists w e' nm, Encoder_add e n v s huff = (Ok w, e') /\
     resolve e.(e_tab).(entries) nm = Some n /\ wire_rep KLIM (RLiteral (imode s) nm v) w /\
     add_effect s e e' n v).
Proof.
  intros e n v s huff HT HB Hn Hv.
  destruct (search_total (e_tab e) n v) as (r & Hs).
  assert (D : (exists i, lookup i (entries (e_tab e)) = Some (n, v)) \/
              (forall i, lookup i (entries (e_tab e)) <> Some (n, v))).
  { destruct r as [[[i n'] [v'|]]|].
    - left. destruct (search_sound _ _ _ _ _ _ Hs) as (_ & x & Hx & Hf & _ & Hsn).
      rewrite (pair_eta x n v Hf Hsn) in Hx. exists i. exact Hx.
    - right. intros j Hj. destruct (search_complete _ _ _ _ Hj) as (j' & Hs'). congruence.
    - right. intros j Hj. destruct (search_complete _ _ _ _ Hj) as (j' & Hs'). congruence. }
  destruct D as [(i & Hi)|Habs].
  - left. destruct (add_present e n v s huff i HT HB Hi) as (w & i' & H). exists w, i'. exact H.
  - right. split; [exact Habs|]. apply add_absent; assumption.
Qed.

(** C15, encoder side *)
Theorem add_sensitive : forall e n v huff,
  TInv e.(e_tab) -> e.(e_tab).(maxsize) < BIG -> len n < BIG -> len v < BIG ->
  exists w, Encoder_add e n v true huff = (Ok w, e) /\
    ((exists i, lookup i e.(e_tab).(entries) = Some (n, v) /\ wire_rep KLIM (RIndexed i) w) \/
     ((forall i, lookup i e.(e_tab).(entries) <> Some (n, v)) /\
      exists nm, resolve e.(e_tab).(entries) nm = Some n /\ wire_rep KLIM (RLiteral NeverIndexed nm v) w)).
Proof.
  intros e n v huff HT HB Hn Hv.
  destruct (add_cases e n v true huff HT HB Hn Hv) as [(w & i & Ha & Hl & W)|(Habs & w & e' & nm & Ha & Hr & W & Heff)].
  - exists w. split; [exact Ha|]. left. exists i. split; assumption.
  - cbn [add_effect] in Heff. subst e'. exists w. split; [exact Ha|]. right.
    split; [exact Habs|]. exists nm. split; assumption.
Qed.

Theorem add_ordinary_absent : forall e n v huff,
  TInv e.(e_tab) -> e.(e_tab).(maxsize) < BIG -> len n < BIG -> len v < BIG ->
  (forall i, lookup i e.(e_tab).(entries) <> Some (n, v)) ->
  exists w e' nm, Encoder_add e n v false huff = (Ok w, e') /\
    resolve e.(e_tab).(entries) nm = Some n /\ wire_rep KLIM (RLiteral WithIndexing nm v) w /\
    e'.(e_tab).(entries) = insert e.(e_tab).(maxsize) (n, v) e.(e_tab).(entries) /\
    e'.(e_tab).(maxsize) = e.(e_tab).(maxsize) /\ e'.(e_changes) = e.(e_changes).
Proof.
  intros e n v huff HT HB Hn Hv Habs.
  destruct (add_absent e n v false huff HT HB Hn Hv Habs) as (w & e' & nm & Ha & Hr & W & H1 & H2 & H3 & H4 & H5).
  exists w, e', nm. repeat split; assumption.
Qed.

(** * 5. One block *)
Definition notupd (r : rep) : Prop := match r with RSizeUpdate _ => False | _ => True end.

Lemma wire_block_app K rs1 w1 rs2 w2 :
  wire_block K rs1 w1 -> wire_block K rs2 w2 -> wire_block K (rs1 ++ rs2) (w1 ++ w2).
Proof.
  induction 1 as [|r w rs ws Hr Hb IH]; intros H2; [exact H2|].
  rewrite <- app_comm_cons, <- app_assoc. apply wb_cons; [exact Hr|apply IH; exact H2].
Qed.

Lemma last_nonempty {A} : forall (l : list A) a d d', last (a :: l) d = last (a :: l) d'.
Proof. induction l as [|b l IH]; intros a d d'; [reflexivity|]. cbn [last] in *. apply IH. Qed.
Lemma last_cons_d {A} (l : list A) a d : last (a :: l) d = last l a.
Proof.
  destruct l as [|b l]; [reflexivity|]. change (last (a :: b :: l) d) with (last (b :: l) d).
  apply last_nonempty.
Qed.
Lemma last_Forall {A} (P : A -> Prop) l d : Forall P l -> P d -> P (last l d).
Proof.
  intros H. revert d. induction H as [|a l Ha Hl IH]; intros d Hd; [exact Hd|].
  rewrite last_cons_d. apply IH. exact Ha.
Qed.

(** ** the pending size changes *)
Lemma size_changes_wire L : L < BIG -> forall ms block, Forall (fun m => 0 <= m <= L) ms ->
  exists w, encode_size_changes ms block = Ok (block ++ w) /\ wire_block KLIM (map RSizeUpdate ms) w.
Proof.
  intros HL. rewrite BIG_lit in HL.
  induction ms as [|m ms IH]; intros block HF.
  - exists []. split; [cbn [encode_size_changes]; rewrite app_nil_r; reflexivity|constructor].
  - inversion HF as [|? ? Hm Hms]; subst.
    destruct (enc_or_wire m 5 32 ltac:(lia) ltac:(lia)
                ltac:(change (pmax 5) with 31; rewrite pow128_20_lit; lia) ltac:(lia) eq_refl)
      as (bs & b & r & Hbs & Hor & W & F).
    change (2 ^ 5) with 32 in F.
    destruct (IH (block ++ b :: r) Hms) as (w' & Hw' & B').
    exists ((b :: r) ++ w'). cbn [encode_size_changes]. rewrite Hbs. cbn [bind]. rewrite Hor. cbn [bind].
    rewrite Hw', <- app_assoc. split; [reflexivity|].
    cbn [map]. apply wb_cons; [|exact B']. cbn [wire_rep]. split; [cbn [first_in]; lia|exact W].
Qed.

Lemma sem_sizes : forall ms c rest, Forall (fun m => 0 <= m <= limit c) ms ->
  sem c (map RSizeUpdate ms ++ rest) [] =
  sem {| dyn := apply_sizes ms (dyn c); size := last ms (size c);
         limit := limit c; list_limit := list_limit c |} rest [].
Proof.
  induction ms as [|m ms IH]; intros c rest HF.
  - destruct c; reflexivity.
  - inversion HF as [|? ? Hm Hms]; subst. cbn [map app sem].
    destruct (m >? limit c) eqn:E; [lia|].
    rewrite IH by exact Hms. cbn [dyn size limit list_limit]. rewrite last_cons_d. reflexivity.
Qed.

(** ** the fields *)
Lemma encode_fields_cons e n v s hs huff blk :
  encode_fields e ((n, v, s) :: hs) huff blk =
  match Encoder_add e n v s huff with
  | (Ok b, e') => encode_fields e' hs huff (blk ++ [b])
  | (Err x, e') => Raised x (e', blk)
  end.
Proof.
  unfold encode_fields. cbn [for_each].
  destruct (Encoder_add e n v s huff) as [[b|x] e']; reflexivity.
Qed.

Lemma fields_size_cons f hs : fields_size (f :: hs) = esize (nv_of_field f) + fields_size hs.
Proof. reflexivity. Qed.

Lemma fields_size_nonneg hs : 0 <= fields_size hs.
Proof.
  induction hs as [|f hs IH]; [cbn; lia|]. rewrite fields_size_cons.
  pose proof (esize_ge (nv_of_field f)). lia.
Qed.

(** [sem], one representation at a time *)
Lemma sem_indexed c i x rs acc : lookup i (dyn c) = Some x ->
  list_size acc + esize x <= list_limit c ->
  sem c (RIndexed i :: rs) acc = sem c rs (acc ++ [(false, fst x, snd x)]).
Proof.
  intros H HL. cbn [sem]. rewrite H.
  match goal with |- (if ?b then _ else _) = _ => destruct b eqn:E1 end; [|reflexivity].
  rewrite list_size_snoc in E1. unfold fsize, esize in *. cbn [fst snd] in *. lia.
Qed.

Definition after_literal (c : ctx) (m : lmode) (name v : bytes) : ctx :=
  match m with
  | WithIndexing => {| dyn := insert (size c) (name, v) (dyn c); size := size c;
                       limit := limit c; list_limit := list_limit c |}
  | _ => c
  end.
Definition never_flag (m : lmode) : bool := match m with NeverIndexed => true | _ => false end.

Lemma sem_literal c m nm v name rs acc : resolve (dyn c) nm = Some name ->
  list_size acc + esize (name, v) <= list_limit c ->
  sem c (RLiteral m nm v :: rs) acc = sem (after_literal c m name v) rs (acc ++ [(never_flag m, name, v)]).
Proof.
  intros H HL. cbn [sem]. rewrite H.
  match goal with |- (if ?b then _ else _) = _ => destruct b eqn:E1 end; [|reflexivity].
  rewrite list_size_snoc in E1. unfold fsize, esize in *. cbn [fst snd] in *. lia.
Qed.

Ltac conjs := repeat match goal with |- _ /\ _ => split end.

Lemma fields_wire huff : forall hs e c blk acc,
  TInv e.(e_tab) -> dyn c = e.(e_tab).(entries) -> size c = e.(e_tab).(maxsize) ->
  e.(e_tab).(maxsize) < BIG ->
  Forall field_sane hs -> list_size acc + fields_size hs <= list_limit c ->
  exists ws e' rs fs c',
    encode_fields e hs huff blk = Done (e', blk ++ ws) /\
    wire_block KLIM rs (concat ws) /\
    (forall rest, sem c (rs ++ rest) acc = sem c' rest (acc ++ fs)) /\
    map nv_of_sfield fs = map nv_of_field hs /\
    dyn c' = e'.(e_tab).(entries) /\ size c' = e'.(e_tab).(maxsize) /\
    e'.(e_tab).(maxsize) = e.(e_tab).(maxsize) /\ e'.(e_tab).(resized) = e.(e_tab).(resized) /\
    e'.(e_changes) = e.(e_changes) /\ TInv e'.(e_tab) /\
    limit c' = limit c /\ list_limit c' = list_limit c /\ Forall notupd rs.
Proof.
  induction hs as [|[[n v] s] hs IH]; intros e c blk acc HT Hd Hsz HB HF HL.
  - exists [], e, [], [], c. rewrite !app_nil_r. cbn [concat].
    split; [reflexivity|]. split; [constructor|]. split; [intros rest; reflexivity|].
    conjs; try assumption; try reflexivity. constructor.
  - inversion HF as [|? ? Hf Hfs]; subst. destruct Hf as [Hn Hv]. cbn [fst snd] in Hn, Hv.
    rewrite fields_size_cons in HL. unfold nv_of_field in HL. cbn [fst snd] in HL.
    pose proof (fields_size_nonneg hs) as Hfs0. pose proof (esize_ge (n, v)) as He.
    rewrite encode_fields_cons.
    destruct (add_cases e n v s huff HT HB Hn Hv)
      as [(w & i & Ha & Hlk & W)|(Habs & w & e1 & nm & Ha & Hr & W & Heff)]; rewrite Ha.
    + (* one index *)
      assert (HL' : list_size (acc ++ [(false, n, v)]) + fields_size hs <= list_limit c).
      { rewrite list_size_snoc. unfold fsize. cbn [fst snd]. lia. }
      destruct (IH e c (blk ++ [w]) (acc ++ [(false, n, v)]) HT Hd Hsz HB Hfs HL')
        as (ws & e' & rs & fs & c' & E & B & S & M & R).
      exists (w :: ws), e', (RIndexed i :: rs), ((false, n, v) :: fs), c'.
      split; [rewrite E, <- app_assoc; reflexivity|].
      split; [cbn [concat]; apply wb_cons; assumption|].
      split.
      { intros rest. rewrite <- app_comm_cons. rewrite <- Hd in Hlk.
        etransitivity; [apply (sem_indexed c i (n, v)); [exact Hlk|lia]|].
        etransitivity; [exact (S rest)|]. rewrite <- app_assoc. reflexivity. }
      split; [cbn [map]; rewrite M; reflexivity|].
      destruct R as (R1 & R2 & R3 & R4 & R5 & R6 & R7 & R8 & R9).
      conjs; try assumption. constructor; [exact I|exact R9].
    + (* one literal *)
      rewrite <- Hd in Hr.
      set (f := (never_flag (imode s), n, v) : sfield).
      assert (HL' : list_size (acc ++ [f]) + fields_size hs <= list_limit c).
      { rewrite list_size_snoc. unfold fsize, f. cbn [fst snd]. lia. }
      set (c1 := after_literal c (imode s) n v).
      assert (C1 : TInv (e_tab e1) /\ dyn c1 = entries (e_tab e1) /\ size c1 = maxsize (e_tab e1) /\
                   maxsize (e_tab e1) = maxsize (e_tab e) /\ resized (e_tab e1) = resized (e_tab e) /\
                   e_changes e1 = e_changes e /\ limit c1 = limit c /\ list_limit c1 = list_limit c).
      { unfold c1. destruct s; cbn [imode add_effect after_literal] in *.
        - subst e1. conjs; first [assumption | reflexivity].
        - destruct Heff as (H1 & H2 & H3 & H4 & H5). cbn [dyn size limit list_limit].
          rewrite H1, H2, Hd, Hsz. conjs; first [assumption | reflexivity | congruence]. }
      destruct C1 as (HT1 & Hd1 & Hsz1 & Hm1 & Hrz1 & Hch1 & Hl1 & Hll1).
      destruct (IH e1 c1 (blk ++ [w]) (acc ++ [f]) HT1 Hd1 Hsz1 ltac:(lia) Hfs ltac:(lia))
        as (ws & e' & rs & fs & c' & E & B & S & M & R).
      exists (w :: ws), e', (RLiteral (imode s) nm v :: rs), (f :: fs), c'.
      split; [rewrite E, <- app_assoc; reflexivity|].
      split; [cbn [concat]; apply wb_cons; assumption|].
      split.
      { intros rest. rewrite <- app_comm_cons.
        etransitivity; [apply (sem_literal c (imode s) nm v n); [exact Hr|lia]|].
        etransitivity; [exact (S rest)|]. rewrite <- app_assoc. reflexivity. }
      split; [cbn [map]; rewrite M; reflexivity|].
      destruct R as (R1 & R2 & R3 & R4 & R5 & R6 & R7 & R8 & R9).
      conjs; try assumption; try congruence.
      constructor; [exact I|exact R9].
Qed.

(** ** the flush of pending size changes at the start of [encode] *)
Lemma flush_spec e c : TInv e.(e_tab) -> Sync e c -> limit c < BIG ->
  exists blk e1,
    (if e.(e_tab).(resized)
     then sbind (Encoder__encode_table_size_change e) (fun b self =>
            (Ok ([] ++ [b]), set_e_tab (set_resized false self.(e_tab)) self))
     else (Ok [], e)) = (Ok blk, e1) /\
    wire_block KLIM (map RSizeUpdate e.(e_changes)) (concat blk) /\
    e1.(e_tab).(entries) = e.(e_tab).(entries) /\ e1.(e_tab).(maxsize) = e.(e_tab).(maxsize) /\
    TInv e1.(e_tab) /\ e1.(e_tab).(resized) = false /\ e1.(e_changes) = [].
Proof.
  intros HT (S1 & S2 & S3 & S4 & S5) HC.
  destruct (e_changes e) as [|m ms] eqn:EC.
  - cbn [negb] in S3. rewrite S3. exists [], e. split; [reflexivity|]. split; [constructor|].
    conjs; first [assumption | reflexivity].
  - cbn [negb] in S3. rewrite S3.
    destruct (size_changes_wire (limit c) HC (m :: ms) [] S4) as (w & Hw & B).
    unfold Encoder__encode_table_size_change. rewrite EC, Hw. cbn [mbind sbind app].
    eexists. eexists. split; [reflexivity|]. cbn [concat]. rewrite app_nil_r.
    split; [exact B|]. cbn [set_e_tab set_e_changes set_resized e_tab e_changes entries maxsize resized].
    conjs; first [reflexivity | exact HT].
Qed.

(** C03: the meaning of one block *)
Theorem encode_meaning : forall e c hs huff,
  TInv e.(e_tab) -> Sync e c -> ctx_sane c -> Forall field_sane hs -> fields_size hs <= list_limit c ->
  exists w e' rs fs c',
    Encoder_encode e hs huff = (Ok w, e') /\
    wire_block KLIM rs w /\ sem c rs [] = Some (fs, c') /\
    map nv_of_sfield fs = map nv_of_field hs /\
    Sync e' c' /\ e'.(e_changes) = [] /\ TInv e'.(e_tab) /\
    limit c' = limit c /\ list_limit c' = list_limit c /\
    exists rf, rs = map RSizeUpdate e.(e_changes) ++ rf /\
               Forall (fun r => match r with RSizeUpdate _ => False | _ => True end) rf.
Proof.
  intros e c hs huff HT HS HC HF HL. unfold ctx_sane in HC.
  destruct (flush_spec e c HT HS HC) as (blk & e1 & Hfl & B1 & F1 & F2 & F3 & F4 & F5).
  destruct HS as (S1 & S2 & S3 & S4 & S5).
  set (c1 := {| dyn := apply_sizes (e_changes e) (dyn c); size := last (e_changes e) (size c);
                limit := limit c; list_limit := list_limit c |}).
  assert (Hlast : last (e_changes e) (size c) <= limit c).
  { apply (last_Forall (fun m => m <= limit c)); [|exact S5].
    eapply Forall_impl; [|exact S4]. cbv beta. intros a Ha. lia. }
  destruct (fields_wire huff hs e1 c1 blk [] F3
              ltac:(cbn [c1 dyn]; congruence) ltac:(cbn [c1 size]; congruence)
              ltac:(rewrite F2, S2; lia) HF ltac:(cbn [c1 list_limit list_size fold_right]; lia))
    as (ws & e' & rs & fs & c' & E & B & S & M & R1 & R2 & R3 & R4 & R5 & R6 & R7 & R8 & R9).
  cbn [c1 limit list_limit] in R7, R8.
  exists (concat (blk ++ ws)), e', (map RSizeUpdate (e_changes e) ++ rs), fs, c'.
  split.
  { unfold Encoder_encode. cbv zeta. rewrite Hfl. cbn [sbind]. rewrite E. reflexivity. }
  split; [rewrite concat_app; apply wire_block_app; assumption|].
  assert (Hsz : size c' <= limit c') by (rewrite R2, R3, F2, S2, R7; exact Hlast).
  split.
  { rewrite (sem_sizes (e_changes e) c rs S4). fold c1.
    rewrite <- (app_nil_r rs), (S []). cbn [app sem].
    destruct (size c' >? limit c') eqn:E1; [lia|reflexivity]. }
  split; [exact M|].
  split.
  { unfold Sync. rewrite R5, F5. cbn [apply_sizes fold_left last negb].
    conjs; try assumption; try congruence. constructor. }
  split; [congruence|]. split; [exact R6|]. split; [exact R7|]. split; [exact R8|].
  exists rs. split; [reflexivity|]. exact R9.
Qed.

Theorem encode_decodes_spec : forall e c hs huff,
  TInv e.(e_tab) -> Sync e c -> ctx_sane c -> Forall field_sane hs -> fields_size hs <= list_limit c ->
  exists w e' fs c',
    Encoder_encode e hs huff = (Ok w, e') /\
    decode KLIM c w false = SOk (fs, c') /\ map nv_of_sfield fs = map nv_of_field hs /\
    Sync e' c' /\ e'.(e_changes) = [] /\ TInv e'.(e_tab).
Proof.
  intros e c hs huff HT HS HC HF HL.
  destruct (encode_meaning e c hs huff HT HS HC HF HL)
    as (w & e' & rs & fs & c' & E & B & S & M & Y & Ch & T & _).
  exists w, e', fs, c'. split; [exact E|].
  destruct (wire_meaning KLIM c rs w fs c' ltac:(unfold KLIM; lia) B S) as [D _].
  conjs; assumption.
Qed.

(** C19: a block whose fields are all in the table *)
Lemma repeated_fields huff : forall hs e blk,
  TInv e.(e_tab) -> e.(e_tab).(maxsize) < BIG ->
  Forall (fun f => exists i, lookup i e.(e_tab).(entries) = Some (nv_of_field f)) hs ->
  exists ws rs, encode_fields e hs huff blk = Done (e, blk ++ ws) /\ wire_block KLIM rs (concat ws) /\
    Forall2 (fun f r => exists i, r = RIndexed i /\ lookup i e.(e_tab).(entries) = Some (nv_of_field f)) hs rs.
Proof.
  induction hs as [|[[n v] s] hs IH]; intros e blk HT HB HF.
  - exists [], []. rewrite app_nil_r. split; [reflexivity|]. split; constructor.
  - inversion HF as [|? ? (i & Hi) Hfs]; subst. unfold nv_of_field in Hi. cbn [fst snd] in Hi.
    destruct (add_present e n v s huff i HT HB Hi) as (w & i' & Ha & Hl & W).
    destruct (IH e (blk ++ [w]) HT HB Hfs) as (ws & rs & E & B & F2).
    exists (w :: ws), (RIndexed i' :: rs). rewrite encode_fields_cons, Ha, E, <- app_assoc.
    split; [reflexivity|]. split; [cbn [concat]; apply wb_cons; assumption|].
    constructor; [|exact F2]. exists i'. split; [reflexivity|exact Hl].
Qed.

Theorem repeated_block_indexed : forall e hs huff,
  TInv e.(e_tab) -> e.(e_tab).(maxsize) < BIG -> e.(e_tab).(resized) = false ->
  Forall (fun f => exists i, lookup i e.(e_tab).(entries) = Some (nv_of_field f)) hs ->
  exists w rs, Encoder_encode e hs huff = (Ok w, e) /\ wire_block KLIM rs w /\
    Forall2 (fun f r => exists i, r = RIndexed i /\ lookup i e.(e_tab).(entries) = Some (nv_of_field f)) hs rs.
Proof.
  intros e hs huff HT HB HR HF.
  destruct (repeated_fields huff hs e [] HT HB HF) as (ws & rs & E & B & F2).
  exists (concat ws), rs. unfold Encoder_encode. cbv zeta. rewrite HR. cbn [sbind]. rewrite E.
  cbn [app]. split; [reflexivity|]. split; assumption.
Qed.
