(** Spec-level lemmas about the RFC 7541 section 5.1 integer representation
    (Spec/IntRep.v): [cont_enc], [int_enc], [cont_dec], [int_dec], [int_truncated].
    Nothing here mentions the model. *)
From Coq Require Import ZArith List Bool Lia ZifyBool Arith.
From HV Require Import Prelude.Py Spec.IntRep.
Import ListNotations.
Open Scope Z_scope.

Local Ltac Zify.zify_post_hook ::= Z.to_euclidean_division_equations.

Lemma Some_pair_inj {A B} (a c : A) (b d : B) : Some (a, b) = Some (c, d) -> a = c /\ b = d.
Proof. intros H. inversion H. split; reflexivity. Qed.

(** * [len] *)
Lemma len_nil {A} : len (@nil A) = 0.
Proof. reflexivity. Qed.
Lemma len_cons {A} (x : A) l : len (x :: l) = len l + 1.
Proof. unfold len. cbn [length]. lia. Qed.
Lemma len_app {A} (l1 l2 : list A) : len (l1 ++ l2) = len l1 + len l2.
Proof. unfold len. rewrite app_length. lia. Qed.
Lemma len_map {A B} (f : A -> B) l : len (map f l) = len l.
Proof. unfold len. rewrite map_length. reflexivity. Qed.
Lemma len_nonneg {A} (l : list A) : 0 <= len l.
Proof. unfold len. lia. Qed.

(** * powers of 128 *)
Lemma pow128_S f : 128 ^ Z.of_nat (S f) = 128 * 128 ^ Z.of_nat f.
Proof. rewrite Nat2Z.inj_succ, Z.pow_succ_r by lia. reflexivity. Qed.
Lemma pow128_pos f : 0 < 128 ^ Z.of_nat f.
Proof. apply Z.pow_pos_nonneg; lia. Qed.
Lemma pow128_mono f g : (f <= g)%nat -> 128 ^ Z.of_nat f <= 128 ^ Z.of_nat g.
Proof. intros H. apply Z.pow_le_mono_r; lia. Qed.

Lemma pmax_range N : 1 <= N <= 8 -> 1 <= pmax N <= 255.
Proof.
  intros H. assert (C : N = 1 \/ N = 2 \/ N = 3 \/ N = 4 \/ N = 5 \/ N = 6 \/ N = 7 \/ N = 8) by lia.
  unfold pmax.
  destruct C as [->|[->|[->|[->|[->|[->|[->| ->]]]]]]]; vm_compute; split; discriminate.
Qed.
Lemma pmax_nonneg N : 0 <= N -> 0 <= pmax N.
Proof. intros H. unfold pmax. pose proof (Z.pow_pos_nonneg 2 N). lia. Qed.

(** * [cont_enc]: the fuel is irrelevant once it is large enough *)
Lemma cont_enc_fuel_step f m :
  cont_enc_fuel (S f) m = if m <? 128 then [m] else (m mod 128 + 128) :: cont_enc_fuel f (m / 128).
Proof. reflexivity. Qed.

Lemma cont_enc_fuel_S f : forall m, 0 <= m < 128 ^ Z.of_nat (S f) ->
  cont_enc_fuel (S f) m = cont_enc_fuel f m.
Proof.
  induction f as [|f IH]; intros m H.
  - change (128 ^ Z.of_nat 1) with 128 in H. rewrite cont_enc_fuel_step.
    destruct (m <? 128) eqn:E; [reflexivity | lia].
  - rewrite pow128_S in H.
    rewrite (cont_enc_fuel_step (S f) m), (cont_enc_fuel_step f m).
    destruct (m <? 128) eqn:E; [reflexivity|].
    rewrite IH; [reflexivity|]. lia.
Qed.

Lemma cont_enc_fuel_stable d : forall f m, 0 <= m < 128 ^ Z.of_nat (S f) ->
  cont_enc_fuel (d + f) m = cont_enc_fuel f m.
Proof.
  induction d as [|d IH]; intros f m H; [reflexivity|].
  change (S d + f)%nat with (S (d + f)).
  rewrite cont_enc_fuel_S; [apply IH; exact H|].
  pose proof (pow128_mono (S f) (S (d + f)) ltac:(lia)). lia.
Qed.

Lemma log2_bound m : 0 <= m -> m < 128 ^ Z.of_nat (S (Z.to_nat (Z.log2 m))).
Proof.
  intros H. destruct (Z.eq_dec m 0) as [->|Hne]; [reflexivity|].
  pose proof (Z.log2_nonneg m) as HL.
  pose proof (Z.log2_spec m ltac:(lia)) as [_ HS].
  replace (Z.of_nat (S (Z.to_nat (Z.log2 m)))) with (Z.succ (Z.log2 m)) by lia.
  pose proof (Z.pow_le_mono_l 2 128 (Z.succ (Z.log2 m)) ltac:(lia)). lia.
Qed.

Lemma cont_enc_fuel_eq f m : 0 <= m < 128 ^ Z.of_nat (S f) -> cont_enc_fuel f m = cont_enc m.
Proof.
  intros H. unfold cont_enc. set (g := Z.to_nat (Z.log2 m)).
  pose proof (log2_bound m ltac:(lia)) as HG. fold g in HG.
  destruct (le_lt_dec f g) as [L|L].
  - replace g with ((g - f) + f)%nat by lia. symmetry. apply cont_enc_fuel_stable. exact H.
  - replace f with ((f - g) + g)%nat at 1 by lia. apply cont_enc_fuel_stable. lia.
Qed.

(** the recursion equation of the RFC pseudo-code *)
Lemma cont_enc_eq m : 0 <= m ->
  cont_enc m = if m <? 128 then [m] else (m mod 128 + 128) :: cont_enc (m / 128).
Proof.
  intros H. set (f := Z.to_nat (Z.log2 m)).
  pose proof (log2_bound m H) as HB. fold f in HB.
  rewrite <- (cont_enc_fuel_eq (S f) m).
  2:{ pose proof (pow128_mono (S f) (S (S f)) ltac:(lia)). lia. }
  rewrite cont_enc_fuel_step. destruct (m <? 128) eqn:E; [reflexivity|].
  rewrite cont_enc_fuel_eq; [reflexivity|]. lia.
Qed.

(** * properties of the continuation octets *)
Lemma cont_enc_fuel_octets f : forall m, 0 <= m < 128 ^ Z.of_nat (S f) ->
  Forall octet (cont_enc_fuel f m).
Proof.
  unfold octet.
  induction f as [|f IH]; intros m H.
  - change (128 ^ Z.of_nat 1) with 128 in H. cbn [cont_enc_fuel]. constructor; [lia|constructor].
  - rewrite pow128_S in H. rewrite cont_enc_fuel_step.
    destruct (m <? 128) eqn:E.
    + constructor; [lia|constructor].
    + constructor; [lia|]. apply IH. lia.
Qed.

Lemma cont_enc_fuel_length f : forall m, (length (cont_enc_fuel f m) <= S f)%nat.
Proof.
  induction f as [|f IH]; intros m; [cbn; lia|].
  rewrite cont_enc_fuel_step. destruct (m <? 128); cbn [length]; [lia|].
  specialize (IH (m / 128)). lia.
Qed.

Lemma cont_enc_fuel_nonempty f m : cont_enc_fuel f m <> [].
Proof. destruct f; [discriminate|]. rewrite cont_enc_fuel_step. destruct (m <? 128); discriminate. Qed.

Lemma cont_enc_fuel_shape f : forall m, 0 <= m < 128 ^ Z.of_nat (S f) ->
  exists ds last,
    cont_enc_fuel f m = map (fun d => d + 128) ds ++ [last] /\
    Forall (fun d => 0 <= d < 128) ds /\ 0 <= last < 128 /\
    fold_right (fun d acc => d + 128 * acc) last ds = m /\
    (ds <> [] -> last <> 0) /\ (0 < m -> last <> 0).
Proof.
  induction f as [|f IH]; intros m H.
  - change (128 ^ Z.of_nat 1) with 128 in H. exists [], m. cbn [cont_enc_fuel map app fold_right].
    repeat split; try lia; try constructor. intros C; congruence.
  - rewrite pow128_S in H. rewrite cont_enc_fuel_step.
    destruct (m <? 128) eqn:E.
    + exists [], m. cbn [map app fold_right].
      repeat split; try lia; try constructor. intros C; congruence.
    + destruct (IH (m / 128) ltac:(lia)) as (ds & last & He & Hd & Hl & Hf & _ & Hn).
      exists (m mod 128 :: ds), last. cbn [map app fold_right]. rewrite He, Hf.
      split; [reflexivity|]. split; [constructor; [lia|exact Hd]|].
      split; [lia|]. split; [lia|].
      split; intros _; apply Hn; lia.
Qed.

Lemma cont_enc_octets m : 0 <= m -> Forall octet (cont_enc m).
Proof. intros H. apply cont_enc_fuel_octets. pose proof (log2_bound m H). lia. Qed.

Lemma cont_enc_nonempty m : cont_enc m <> [].
Proof. apply cont_enc_fuel_nonempty. Qed.

Lemma cont_enc_length_le f m : 0 <= m < 128 ^ Z.of_nat (S f) -> len (cont_enc m) <= Z.of_nat (S f).
Proof.
  intros H. rewrite <- (cont_enc_fuel_eq f m H). unfold len.
  pose proof (cont_enc_fuel_length f m). lia.
Qed.

Lemma cont_enc_length_20 m : 0 <= m < 128 ^ 20 -> 1 <= len (cont_enc m) <= 20.
Proof.
  intros H. split.
  - pose proof (cont_enc_nonempty m). destruct (cont_enc m); [congruence|].
    rewrite len_cons. pose proof (len_nonneg l). lia.
  - apply (cont_enc_length_le 19 m). exact H.
Qed.

Lemma cont_enc_shape m : 0 <= m ->
  exists ds last,
    cont_enc m = map (fun d => d + 128) ds ++ [last] /\
    Forall (fun d => 0 <= d < 128) ds /\ 0 <= last < 128 /\
    fold_right (fun d acc => d + 128 * acc) last ds = m /\
    (ds <> [] -> last <> 0).
Proof.
  intros H. pose proof (log2_bound m H) as HB.
  destruct (cont_enc_fuel_shape _ m (conj H HB)) as (ds & last & He & Hd & Hl & Hf & Hn & _).
  exists ds, last. repeat split; try assumption; lia.
Qed.

(** * [int_enc] *)
Lemma int_enc_octets N n : 1 <= N <= 8 -> 0 <= n -> Forall octet (int_enc N n).
Proof.
  intros HN Hn. pose proof (pmax_range N HN) as HP. unfold int_enc.
  destruct (n <? pmax N) eqn:E.
  - constructor; [unfold octet; lia|constructor].
  - constructor; [unfold octet; lia|]. apply cont_enc_octets. lia.
Qed.

Lemma int_enc_nonempty N n : int_enc N n <> [].
Proof. unfold int_enc. destruct (n <? pmax N); discriminate. Qed.

Lemma enc_shape : forall n N, 0 <= n -> 1 <= N <= 8 ->
  (n < pmax N -> int_enc N n = [n]) /\
  (pmax N <= n -> exists ds last,
      int_enc N n = pmax N :: map (fun d => d + 128) ds ++ [last] /\
      Forall (fun d => 0 <= d < 128) ds /\ 0 <= last < 128 /\
      fold_right (fun d acc => d + 128 * acc) last ds = n - pmax N /\
      (ds <> [] -> last <> 0)).
Proof.
  intros n N Hn HN. unfold int_enc. split; intros H.
  - destruct (n <? pmax N) eqn:E; [reflexivity|lia].
  - destruct (n <? pmax N) eqn:E; [lia|].
    destruct (cont_enc_shape (n - pmax N) ltac:(lia)) as (ds & last & He & R).
    exists ds, last. rewrite He. split; [reflexivity|exact R].
Qed.

(** * [cont_dec] *)
Lemma cont_dec_within : forall l v k, Forall octet l -> cont_dec l = Some (v, k) ->
  1 <= k <= len l /\ 0 <= v < 128 ^ k.
Proof.
  unfold octet.
  induction l as [|b r IH]; intros v k HF H; [discriminate|].
  inversion HF as [|? ? Hb Hr]; subst. cbn [cont_dec] in H. rewrite len_cons.
  pose proof (len_nonneg r) as HL.
  destruct (b <? 128) eqn:E.
  - apply Some_pair_inj in H; destruct H as [<- <-]. change (128 ^ 1) with 128. lia.
  - destruct (cont_dec r) as [[v' k']|] eqn:D; [|discriminate].
    apply Some_pair_inj in H; destruct H as [<- <-]. destruct (IH v' k' Hr eq_refl) as [Hk Hv].
    rewrite Z.pow_add_r by lia. change (128 ^ 1) with 128. lia.
Qed.

Lemma cont_dec_none_iff : forall l, cont_dec l = None <-> Forall (fun x => 128 <= x) l.
Proof.
  induction l as [|b r IH]; [split; [constructor|reflexivity]|].
  cbn [cont_dec]. destruct (b <? 128) eqn:E.
  - split; [discriminate|]. intros HF. inversion HF; subst. lia.
  - destruct (cont_dec r) as [[v k]|] eqn:D.
    + split; [discriminate|]. intros HF. inversion HF as [|? ? _ Hr]; subst.
      apply IH in Hr. discriminate.
    + split; [|reflexivity]. intros _. constructor; [lia|]. apply IH. reflexivity.
Qed.

Lemma cont_dec_app : forall l tl v k, cont_dec l = Some (v, k) -> cont_dec (l ++ tl) = Some (v, k).
Proof.
  induction l as [|b r IH]; intros tl v k H; [discriminate|].
  cbn [cont_dec app] in *. destruct (b <? 128); [exact H|].
  destruct (cont_dec r) as [[v' k']|] eqn:D; [|discriminate].
  rewrite (IH tl v' k' eq_refl). exact H.
Qed.

Lemma cont_dec_enc_fuel_app f : forall m tl, 0 <= m < 128 ^ Z.of_nat (S f) ->
  cont_dec (cont_enc_fuel f m ++ tl) = Some (m, len (cont_enc_fuel f m)).
Proof.
  induction f as [|f IH]; intros m tl H.
  - change (128 ^ Z.of_nat 1) with 128 in H. cbn [cont_enc_fuel app cont_dec].
    destruct (m <? 128) eqn:E; [reflexivity|lia].
  - rewrite pow128_S in H. rewrite cont_enc_fuel_step.
    destruct (m <? 128) eqn:E.
    + cbn [app cont_dec]. rewrite E. reflexivity.
    + cbn [app cont_dec]. destruct (m mod 128 + 128 <? 128) eqn:E2; [lia|].
      rewrite IH by lia. rewrite len_cons. f_equal. f_equal. lia.
Qed.

Lemma cont_dec_enc_app m tl : 0 <= m -> cont_dec (cont_enc m ++ tl) = Some (m, len (cont_enc m)).
Proof.
  intros H. apply cont_dec_enc_fuel_app. pose proof (log2_bound m H). lia.
Qed.

(** * [int_dec] *)
Lemma prefix_mod_range b N : 0 <= N -> 0 <= b mod 2 ^ N <= pmax N.
Proof.
  intros HN. unfold pmax. pose proof (Z.pow_pos_nonneg 2 N ltac:(lia) HN) as HP.
  pose proof (Z.mod_pos_bound b (2 ^ N) HP) as HM.
  revert HM. generalize (b mod 2 ^ N). generalize dependent (2 ^ N). intros; lia.
Qed.

Lemma dec_within : forall N l n k, 1 <= N <= 8 -> Forall octet l ->
  int_dec N l = Some (n, k) -> 1 <= k <= len l /\ 0 <= n.
Proof.
  intros N l n k HN HF H. destruct l as [|b r]; [discriminate|].
  inversion HF as [|? ? Hb Hr]; subst. cbn [int_dec] in H. rewrite len_cons.
  pose proof (len_nonneg r) as HL.
  pose proof (prefix_mod_range b N ltac:(lia)) as HM.
  revert H HM. generalize (b mod 2 ^ N). intros v H HM. cbv zeta in H.
  destruct (v <? pmax N) eqn:E.
  - apply Some_pair_inj in H; destruct H as [<- <-]. lia.
  - destruct (cont_dec r) as [[m k']|] eqn:D; [|discriminate].
    apply Some_pair_inj in H; destruct H as [<- <-]. destruct (cont_dec_within r m k' Hr D) as [Hk Hv].
    lia.
Qed.

(** value bound: [k - 1] continuation octets carry less than [128 ^ (k - 1)] *)
Lemma dec_bound : forall N l n k, 1 <= N <= 8 -> Forall octet l ->
  int_dec N l = Some (n, k) -> n < pmax N + 128 ^ (k - 1).
Proof.
  intros N l n k HN HF H. destruct l as [|b r]; [discriminate|].
  inversion HF as [|? ? Hb Hr]; subst. cbn [int_dec] in H.
  revert H. generalize (b mod 2 ^ N). intros v H. cbv zeta in H.
  destruct (v <? pmax N) eqn:E.
  - apply Some_pair_inj in H; destruct H as [<- <-]. change (128 ^ (1 - 1)) with 1. lia.
  - destruct (cont_dec r) as [[m k']|] eqn:D; [|discriminate].
    apply Some_pair_inj in H; destruct H as [<- <-]. destruct (cont_dec_within r m k' Hr D) as [Hk Hv].
    replace (k' + 1 - 1) with k' by lia. lia.
Qed.

Lemma dec_none_iff_truncated : forall N l, 1 <= N <= 8 -> Forall octet l ->
  (int_dec N l = None <-> int_truncated N l).
Proof.
  intros N l HN _. destruct l as [|b r]; [split; [constructor|reflexivity]|].
  cbn [int_dec int_truncated].
  pose proof (prefix_mod_range b N ltac:(lia)) as HM.
  revert HM. generalize (b mod 2 ^ N). intros v HM. cbv zeta.
  destruct (v <? pmax N) eqn:E.
  - split; [discriminate|]. intros [H _]. lia.
  - destruct (cont_dec r) as [[m k]|] eqn:D.
    + split; [discriminate|]. intros [_ H]. apply cont_dec_none_iff in H. congruence.
    + split; [|reflexivity]. intros _. split; [lia|]. apply cont_dec_none_iff. exact D.
Qed.

(** decoding an encoding, whatever follows it and whatever the bits above the prefix are *)
Lemma int_dec_enc_app_gen N n b0 rest b0' tl : 1 <= N <= 8 -> 0 <= n ->
  int_enc N n = b0 :: rest -> b0' mod 2 ^ N = b0 ->
  int_dec N (b0' :: rest ++ tl) = Some (n, len (int_enc N n)).
Proof.
  intros HN Hn He Hb. rewrite He. cbn [int_dec]. rewrite Hb. cbv zeta.
  unfold int_enc in He. destruct (n <? pmax N) eqn:E.
  - inversion He; subst. rewrite E. reflexivity.
  - inversion He; subst. rewrite Z.ltb_irrefl.
    rewrite cont_dec_enc_app by lia. rewrite len_cons. f_equal. f_equal. lia.
Qed.

Lemma int_dec_enc_app N n tl : 1 <= N <= 8 -> 0 <= n ->
  int_dec N (int_enc N n ++ tl) = Some (n, len (int_enc N n)).
Proof.
  intros HN Hn. pose proof (int_enc_octets N n HN Hn) as HO.
  destruct (int_enc N n) as [|b0 rest] eqn:He; [exfalso; exact (int_enc_nonempty N n He)|].
  pose proof (int_dec_enc_app_gen N n b0 rest b0 tl HN Hn He) as G. rewrite He in G.
  change ((b0 :: rest) ++ tl) with (b0 :: rest ++ tl). apply G. clear G.
  inversion HO as [|? ? Hb _]; subst. unfold octet in Hb.
  pose proof (pmax_range N HN) as HP. unfold pmax in HP.
  apply Z.mod_small. unfold int_enc in He.
  destruct (n <? pmax N) eqn:E; inversion He; subst; unfold pmax in *; lia.
Qed.

Lemma int_enc_length_20 N n : 1 <= N <= 8 -> 0 <= n -> n - pmax N < 128 ^ 20 ->
  1 <= len (int_enc N n) <= 21.
Proof.
  intros HN Hn H. unfold int_enc. destruct (n <? pmax N) eqn:E.
  - change (len [n]) with 1. lia.
  - rewrite len_cons. pose proof (cont_enc_length_20 (n - pmax N) ltac:(lia)). lia.
Qed.
