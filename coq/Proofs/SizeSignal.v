(** C09: what the Encoder records of a sequence of table-size settings, and that its next
    block starts with exactly those updates.  Built on [set_size_sync] (Proofs/Lockstep.v) and
    [encode_meaning] (Proofs/EncoderMeaning.v). *)
From Coq Require Import ZArith List Bool Lia ZifyBool.
From HV Require Import Prelude.Py Prelude.State Spec.DynTable Spec.SDecoder.
From HV Require Import Model.Data Model.Table Model.Decoder Model.Encoder Model.Rel Model.RelEnc.
From HV Require Import Model.Histories.
From HV Require Import Proofs.Table Proofs.EncoderMeaning Proofs.Lockstep.
Import ListNotations.
Open Scope Z_scope.

Lemma set_all_cons e v r : set_all e (v :: r) = set_all (snd (estep e (ESetSize v))) r.
Proof. reflexivity. Qed.

(** * Settings made while something is already pending are all recorded *)
Lemma settings_pending : forall vs e c, TInv e.(e_tab) -> Sync e c -> e.(e_changes) <> [] ->
  Forall (fun v => 0 <= v <= limit c) vs ->
  let e1 := set_all e vs in
  e1.(e_changes) = e.(e_changes) ++ vs /\ Sync e1 c /\ TInv e1.(e_tab) /\
  e1.(e_tab).(maxsize) = last vs e.(e_tab).(maxsize) /\
  e1.(e_tab).(entries) = apply_sizes vs e.(e_tab).(entries).
Proof.
  induction vs as [|v r IH]; intros e c HT HS HN HV; cbv zeta.
  - cbn [set_all fold_left last]. rewrite app_nil_r, apply_sizes_nil.
    split; [reflexivity|]. split; [exact HS|]. split; [exact HT|]. split; reflexivity.
  - pose proof (Forall_inv HV) as Hv. pose proof (Forall_inv_tail HV) as HV'.
    destruct (set_size_sync e c v HT HS Hv) as (e' & ES & T' & S' & M' & E' & C').
    assert (RZ : resized (e_tab e) = true).
    { destruct HS as (_ & _ & S3 & _). rewrite S3. destruct (e_changes e); [congruence|reflexivity]. }
    rewrite RZ in C'. cbn [orb] in C'.
    rewrite set_all_cons, (estep_set_size _ _ _ ES).
    assert (HN' : e_changes e' <> []).
    { rewrite C'. intros X. apply app_eq_nil in X. destruct X as [_ X]. discriminate X. }
    destruct (IH e' c T' S' HN' HV') as (I1 & I2 & I3 & I4 & I5).
    split; [rewrite I1, C', <- app_assoc; reflexivity|].
    split; [exact I2|]. split; [exact I3|].
    split; [rewrite I4, M', last_cons; reflexivity|].
    rewrite I5, E', apply_sizes_cons. reflexivity.
Qed.

(** * C09_settings_recorded *)
Theorem settings_recorded : forall e c vs, TInv e.(e_tab) -> Sync e c -> e.(e_changes) = [] ->
  Forall (fun v => 0 <= v <= limit c) vs ->
  let e1 := set_all e vs in
  e1.(e_changes) = recorded (size c) vs /\ Sync e1 c /\ TInv e1.(e_tab) /\
  e1.(e_tab).(maxsize) = last vs (size c) /\
  e1.(e_tab).(entries) = apply_sizes vs (dyn c).
Proof.
  intros e c vs; revert e.
  induction vs as [|v r IH]; intros e HT HS HE HV; cbv zeta.
  - destruct (Sync_flushed e c HS HE) as (F1 & F2 & _).
    cbn [set_all fold_left last recorded]. rewrite apply_sizes_nil.
    split; [exact HE|]. split; [exact HS|]. split; [exact HT|]. split; [exact F2|exact F1].
  - pose proof (Forall_inv HV) as Hv. pose proof (Forall_inv_tail HV) as HV'.
    destruct (Sync_flushed e c HS HE) as (F1 & F2 & F3).
    destruct (set_size_sync e c v HT HS Hv) as (e' & ES & T' & S' & M' & E' & C').
    rewrite F3, F2, HE in C'. cbn [orb app] in C'.
    rewrite set_all_cons, (estep_set_size _ _ _ ES).
    cbn [recorded]. rewrite last_cons, apply_sizes_cons.
    destruct (v =? size c) eqn:EQ; cbn [negb] in C'.
    + assert (Ev : v = size c) by lia.
      destruct (Sync_flushed e' c S' C') as (G1 & _ & _).
      destruct (IH e' T' S' C' HV') as (I1 & I2 & I3 & I4 & I5).
      split; [exact I1|]. split; [exact I2|]. split; [exact I3|].
      split; [rewrite I4, Ev; reflexivity|].
      rewrite I5. f_equal. rewrite <- F1, <- E'. rewrite F1. symmetry. exact G1.
    + assert (HN' : e_changes e' <> []) by (rewrite C'; discriminate).
      destruct (settings_pending r e' c T' S' HN' HV') as (I1 & I2 & I3 & I4 & I5).
      split; [rewrite I1, C'; reflexivity|]. split; [exact I2|]. split; [exact I3|].
      split; [rewrite I4, M'; reflexivity|].
      rewrite I5, E', F1. reflexivity.
Qed.

(** * The table size after a well-formed sequence of representations *)
Definition not_update (r : rep) : Prop := match r with RSizeUpdate _ => False | _ => True end.

Lemma sem_no_update : forall rf c acc fs c', Forall not_update rf ->
  sem c rf acc = Some (fs, c') -> size c' = size c.
Proof.
  induction rf as [|r rf IH]; intros c acc fs c' HF H; cbn [sem] in H.
  - destruct (size c >? limit c); [discriminate H|]. injection H as _ H. subst c'. reflexivity.
  - pose proof (Forall_inv HF) as Hr. pose proof (Forall_inv_tail HF) as HF'.
    destruct r as [i|m nm v|n]; cbn [not_update] in Hr; [| |contradiction].
    + destruct (lookup i (dyn c)) as [en|]; [|discriminate H].
      cbv zeta in H.
      destruct (list_size (acc ++ [(false, fst en, snd en)]) >? list_limit c); [discriminate H|].
      exact (IH _ _ _ _ HF' H).
    + destruct (resolve (dyn c) nm) as [name|]; [|discriminate H].
      cbv zeta in H.
      match type of H with (if ?b then _ else _) = _ => destruct b; [discriminate H|] end.
      apply (IH _ _ _ _ HF') in H. destruct m; cbn [size] in H; exact H.
Qed.

Lemma sem_updates_first : forall ch c rf fs c', Forall not_update rf ->
  sem c (map RSizeUpdate ch ++ rf) [] = Some (fs, c') -> size c' = last ch (size c).
Proof.
  induction ch as [|n ch IH]; intros c rf fs c' HF H.
  - cbn [map app] in H. cbn [last]. exact (sem_no_update _ _ _ _ _ HF H).
  - cbn [map app sem] in H.
    destruct (n >? limit c); [discriminate H|].
    apply (IH _ _ _ _ HF) in H. cbn [size] in H. rewrite last_cons. exact H.
Qed.

Lemma last_recorded : forall vs old, last (recorded old vs) old = last vs old.
Proof.
  induction vs as [|v r IH]; intros old; [reflexivity|].
  cbn [recorded]. destruct (v =? old) eqn:E; [|reflexivity].
  assert (v = old) by lia. subst v.
  rewrite IH, last_cons. reflexivity.
Qed.

(** * C09_signalled_at_start *)
Theorem signalled_at_start : forall e c vs hs huff, TInv e.(e_tab) -> Sync e c -> e.(e_changes) = [] ->
  ctx_sane c -> Forall (fun v => 0 <= v <= limit c) vs -> Forall field_sane hs -> fields_size hs <= list_limit c ->
  let e1 := set_all e vs in
  exists w e2 rf fs c',
    Encoder_encode e1 hs huff = (Ok w, e2) /\
    wire_block KLIM (map RSizeUpdate (recorded (size c) vs) ++ rf) w /\
    Forall (fun r => match r with RSizeUpdate _ => False | _ => True end) rf /\
    sem c (map RSizeUpdate (recorded (size c) vs) ++ rf) [] = Some (fs, c') /\
    size c' = e2.(e_tab).(maxsize) /\ size c' = last vs (size c) /\ dyn c' = e2.(e_tab).(entries) /\
    e2.(e_changes) = [] /\ e2.(e_tab).(resized) = false.
Proof.
  intros e c vs hs huff HT HS HE HC HV HF HL. cbv zeta.
  destruct (settings_recorded e c vs HT HS HE HV) as (R1 & S1 & T1 & _ & _).
  destruct (encode_meaning (set_all e vs) c hs huff T1 S1 HC HF HL)
    as (w & e2 & rs & fs & c' & EE & WB & SM & _ & S2 & C2 & _ & _ & _ & rf & RS & NU).
  rewrite R1 in RS. subst rs.
  destruct (Sync_flushed e2 c' S2 C2) as (G1 & G2 & G3).
  exists w, e2, rf, fs, c'.
  split; [exact EE|]. split; [exact WB|]. split; [exact NU|]. split; [exact SM|].
  split; [symmetry; exact G2|].
  split; [rewrite (sem_updates_first _ _ _ _ _ NU SM); apply last_recorded|].
  split; [symmetry; exact G1|]. split; [exact C2|exact G3].
Qed.

(** * C09_smallest_signalled *)
Theorem smallest_signalled : forall old vs m, In m vs -> (forall v, In v vs -> m <= v) ->
  In m (recorded old vs) \/ m = old.
Proof.
  intros old vs m; induction vs as [|v r IH]; intros HI HM; [destruct HI|].
  cbn [recorded]. destruct (v =? old) eqn:E.
  - assert (v = old) by lia. subst v.
    destruct HI as [HI|HI]; [right; symmetry; exact HI|].
    apply IH; [exact HI|]. intros x Hx. apply HM. right. exact Hx.
  - left. exact HI.
Qed.

(** * C09_nothing_pending_nothing_sent *)
Theorem nothing_pending_nothing_sent : forall e c hs huff, TInv e.(e_tab) -> Sync e c -> e.(e_changes) = [] ->
  ctx_sane c -> Forall field_sane hs -> fields_size hs <= list_limit c ->
  exists w e2 rf fs c', Encoder_encode e hs huff = (Ok w, e2) /\ wire_block KLIM rf w /\
    Forall (fun r => match r with RSizeUpdate _ => False | _ => True end) rf /\ sem c rf [] = Some (fs, c').
Proof.
  intros e c hs huff HT HS HE HC HF HL.
  destruct (encode_meaning e c hs huff HT HS HC HF HL)
    as (w & e2 & rs & fs & c' & EE & WB & SM & _ & _ & _ & _ & _ & _ & rf & RS & NU).
  rewrite HE in RS. cbn [map app] in RS. subst rs.
  exists w, e2, rf, fs, c'. repeat split; assumption.
Qed.
