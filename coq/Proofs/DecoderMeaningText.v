(** The text-mode (library default) version of [wellformed_decodes], and the converse for the
    Decoder: what it accepts is well-formed in the declarative sense. *)
From Coq Require Import ZArith List Bool Lia.
From HV Require Import Prelude.Py Prelude.State Prelude.Utf8 Spec.DynTable Spec.SDecoder.
From HV Require Import Model.Data Model.Decoder Model.Rel.
From HV Require Import Proofs.SpecDecoder Proofs.SpecDecoderConv Proofs.DecoderRefine Proofs.DecoderMeaning.
Import ListNotations.
Open Scope Z_scope.

Theorem wellformed_decodes_text : forall d rs w fs c', dec_ok d ->
  wire_block KLIM rs w -> sem (ctx_of d) rs [] = Some (fs, c') ->
  forallb (fun f => utf8_valid (snd (fst f)) && utf8_valid (snd f)) fs = true ->
  exists hs d', Decoder_decode d w false = (Ok hs, d') /\ map conv hs = fs /\ ctx_of d' = c' /\ dec_ok d'.
Proof.
  intros d rs w fs c' Hd Hw Hs Hu.
  destruct (wire_meaning KLIM (ctx_of d) rs w fs c' KLIM_nonneg Hw Hs) as [_ M]. specialize (M Hu).
  pose proof (decode_refines d w false Hd) as R. change (negb false) with true in R.
  destruct (Decoder_decode d w false) as [[hs|e] d'].
  - destruct R as [R Hd']. rewrite M in R. inversion R as [[E1 E2]].
    exists hs, d'. split; [reflexivity|]. split; [reflexivity|]. split; [reflexivity|exact Hd'].
  - destruct R as (cl & R & _). rewrite M in R. discriminate.
Qed.

(** whatever the Decoder accepts (raw mode) is a wire form of a well-formed sequence of
    representations whose meaning is what it returned *)
Theorem accepted_is_wellformed : forall d w hs d', dec_ok d ->
  Decoder_decode d w true = (Ok hs, d') ->
  exists rs, wire_block KLIM rs w /\ sem (ctx_of d) rs [] = Some (map conv hs, ctx_of d').
Proof.
  intros d w hs d' Hd H.
  pose proof (decode_refines d w true Hd) as R. rewrite H in R. change (negb true) with false in R.
  destruct R as [R _].
  exact (decode_wire_sound KLIM (ctx_of d) w (map conv hs) (ctx_of d') KLIM_nonneg R).
Qed.
