(** Refinement: the hand model of hpack.hpack.Decoder.decode computes exactly the sequential
    RFC 7541 decoder [Spec.SDecoder.decode] (C02 layer 1, C04, C05 acceptance/error class). *)
From Coq Require Import ZArith List Bool Lia ZifyBool Arith.
From Coq Require Import Init.Byte.
From HV Require Import Prelude.Py Prelude.State Prelude.Utf8.
From HV Require Import Spec.IntRep Spec.HuffmanCode Spec.StaticTable Spec.DynTable Spec.SDecoder.
From HV Require Import Model.Data Model.Int Model.Table Model.HuffDec Model.Decoder Model.Rel.
From HV Require Import Proofs.Int Proofs.HuffSpec Proofs.HuffDec Proofs.Table Proofs.TableLift.
Import ListNotations.
Open Scope Z_scope.

(** the decoder states the theorems quantify over *)
Definition dec_ok (d : decoder) : Prop := TInv d.(d_tab) /\ Z.abs d.(d_max_list) < 10 ^ 4300.

Ltac splits := repeat match goal with |- _ /\ _ => split end.

(** * Lists, slices, subscripts *)
Lemma len_skipn {A} (l : list A) n : len (skipn n l) = Z.max 0 (len l - Z.of_nat n).
Proof. unfold len. rewrite skipn_length. lia. Qed.
Lemma len_firstn {A} (l : list A) n : len (firstn n l) = Z.min (Z.of_nat n) (len l).
Proof. unfold len. rewrite firstn_length. lia. Qed.

Lemma slice_from_skipn {A} (l : list A) k : 0 <= k -> slice_from l k = skipn (Z.to_nat k) l.
Proof.
  intros H. unfold slice_from, clamp_idx. cbv zeta.
  destruct (k <? 0) eqn:E; [lia|]. rewrite E.
  destruct (k >? len l) eqn:G; [|reflexivity].
  unfold len in *. rewrite !skipn_all2; [reflexivity| |]; lia.
Qed.

Lemma slice_Z_firstn {A} (l : list A) c n : 0 <= c <= len l -> 0 <= n ->
  slice_Z l c (c + n) = firstn (Z.to_nat n) (skipn (Z.to_nat c) l).
Proof.
  intros Hc Hn. unfold slice_Z, clamp_idx. cbv zeta.
  destruct (c <? 0) eqn:E1; [lia|]. rewrite E1.
  destruct (c >? len l) eqn:E2; [lia|].
  destruct (c + n <? 0) eqn:E3; [lia|]. rewrite E3.
  destruct (c + n >? len l) eqn:E4.
  - rewrite !firstn_all2; [reflexivity| |]; rewrite skipn_length; unfold len in *; lia.
  - f_equal. lia.
Qed.

Lemma skipn_add {A} : forall m n (l : list A), skipn n (skipn m l) = skipn (m + n) l.
Proof.
  induction m as [|m IH]; intros n l; [reflexivity|].
  destruct l as [|x l]; [rewrite !skipn_nil; reflexivity|]. cbn [skipn Nat.add]. apply IH.
Qed.

Lemma nth_error_skipn_hd {A} : forall n (l : list A),
  nth_error l n = match skipn n l with x :: _ => Some x | [] => None end.
Proof. induction n as [|n IH]; destruct l as [|x l]; cbn [nth_error skipn]; try reflexivity. apply IH. Qed.

Lemma index_Z_skipn {A} (l : list A) i : 0 <= i ->
  index_Z l i = match skipn (Z.to_nat i) l with x :: _ => Ok x | [] => Err IndexError end.
Proof.
  intros H. unfold index_Z. cbv zeta. destruct (i <? 0) eqn:E; [lia|]. rewrite E.
  rewrite nth_error_skipn_hd. destruct (skipn (Z.to_nat i) l); reflexivity.
Qed.

Lemma skipn_nonempty {A} (l : list A) i : 0 <= i < len l -> exists x tl, skipn (Z.to_nat i) l = x :: tl.
Proof.
  intros H. destruct (skipn (Z.to_nat i) l) as [|x tl] eqn:E; [|eauto].
  exfalso. apply (f_equal (@length A)) in E. rewrite skipn_length in E. unfold len in H. cbn in E. lia.
Qed.

(** * Bit tests on a byte: finite sweeps *)
Lemma bit7 b : truthy (Z.land (bz b) 128) = (128 <=? bz b).
Proof. destruct b; reflexivity. Qed.
Lemma bit6 b : (128 <=? bz b) = false -> truthy (Z.land (bz b) 64) = (64 <=? bz b).
Proof. destruct b; vm_compute; intros H; first [reflexivity | discriminate H]. Qed.
Lemma bit5 b : (64 <=? bz b) = false -> truthy (Z.land (bz b) 32) = (32 <=? bz b).
Proof. destruct b; vm_compute; intros H; first [reflexivity | discriminate H]. Qed.
Lemma bit4 b : (32 <=? bz b) = false -> truthy (Z.land (bz b) 16) = (16 <=? bz b).
Proof. destruct b; vm_compute; intros H; first [reflexivity | discriminate H]. Qed.
Lemma land63 b : Z.land (bz b) 63 = bz b mod 2 ^ 6.
Proof. destruct b; reflexivity. Qed.
Lemma land15 b : Z.land (bz b) 15 = bz b mod 2 ^ 4.
Proof. destruct b; reflexivity. Qed.

(** * The int-format limit *)
Lemma fmt_abs n : py_format_d n = Ok tt -> Z.abs n < 10 ^ 4300.
Proof.
  unfold py_format_d. intros H. destruct (10 ^ 4300 <=? Z.abs n) eqn:E; [discriminate|].
  apply Z.leb_gt. exact E.
Qed.
Lemma abs_fmt n : Z.abs n < 10 ^ 4300 -> py_format_d n = Ok tt.
Proof.
  unfold py_format_d. intros H. apply Z.leb_gt in H. rewrite H. reflexivity.
Qed.
Lemma dec_ok_fmt d : dec_ok d -> py_format_d d.(d_max_list) = Ok tt.
Proof. intros [_ H]. apply abs_fmt, H. Qed.
Lemma dec_ok_TInv d : dec_ok d -> TInv d.(d_tab).
Proof. intros [H _]. exact H. Qed.
Lemma dec_ok_set_tab d t : dec_ok d -> TInv t -> dec_ok (set_d_tab t d).
Proof. intros [_ H] Ht. split; [exact Ht|exact H]. Qed.

(** * (a) integers *)
Lemma int_k_spec N bs : 1 <= N <= 8 ->
  match decode_integer bs N with
  | Ok (n, k) =>
      int_k KLIM N bs = SOk (n, skipn (Z.to_nat k) bs) /\ 1 <= k <= len bs /\ 0 <= n /\
      py_format_d n = Ok tt /\ int_dec N (map bz bs) = Some (n, k)
  | Err e => e = HPACKDecodingError /\ int_k KLIM N bs = SErr Malformed
  end.
Proof.
  intros HN. destruct (decode_integer bs N) as [[n k]|e] eqn:D.
  - destruct (decode_integer_spec bs N n k HN D) as [HD Hk].
    destruct (decode_integer_consumed bs N n k HN D) as [Hc Hn].
    pose proof (decode_integer_format_ok bs N n k HN D) as HF.
    repeat split; try assumption; try lia.
    unfold int_k, KLIM. rewrite HD. destruct (k - 1 <=? 20) eqn:E; [reflexivity|lia].
  - split; [exact (decode_integer_errors bs N e HN D)|].
    rewrite (dec_total bs N HN) in D. unfold int_k, KLIM.
    destruct (int_dec N (map bz bs)) as [[n k]|]; [|reflexivity].
    destruct (k - 1 <=? 20); [discriminate|reflexivity].
Qed.

Lemma int_dec_zero N b r n k : 1 <= N <= 8 -> Forall octet (b :: r) ->
  int_dec N (b :: r) = Some (n, k) -> (n =? 0) = (b mod 2 ^ N =? 0).
Proof.
  intros HN HF H. cbn [int_dec] in H. pose proof (pmax_range N HN) as HP.
  revert H. generalize (b mod 2 ^ N). intros v H. cbv zeta in H.
  destruct (v <? pmax N) eqn:E.
  - injection H as <- <-. reflexivity.
  - destruct (cont_dec r) as [[m k']|] eqn:C; [|discriminate]. injection H as <- <-.
    inversion HF as [|? ? _ Hr]; subst.
    destruct (cont_dec_within r m k' Hr C) as [_ [Hm _]]. lia.
Qed.

Lemma int_k_zero N b tl : 1 <= N <= 8 -> bz b mod 2 ^ N = 0 -> int_k KLIM N (b :: tl) = SOk (0, tl).
Proof.
  intros HN H. unfold int_k. cbn [map int_dec]. rewrite H. cbv zeta.
  pose proof (pmax_range N HN) as HP. destruct (0 <? pmax N) eqn:E; [|lia]. reflexivity.
Qed.

(** * (b) string literals *)
Lemma decode_huffman_m_spec bs :
  decode_huffman_m bs = match huff_dec bs with Some s => Ok s | None => Err HPACKDecodingError end.
Proof. unfold decode_huffman_m. apply decoder_exact, frozen_table_cert. Qed.

Lemma str_k_eq K bs :
  str_k K bs =
  '(n, rest) <-- int_k K 7 bs ;;
  if len rest <? n then SErr Malformed
  else if match bs with b :: _ => 128 <=? bz b | [] => false end
       then match huff_dec (firstn (Z.to_nat n) rest) with
            | Some s => SOk (s, skipn (Z.to_nat n) rest) | None => SErr Malformed end
       else SOk (firstn (Z.to_nat n) rest, skipn (Z.to_nat n) rest).
Proof. destruct bs; reflexivity. Qed.

Lemma decode_string_spec data :
  match decode_string data with
  | Ok (s, length, consumed) =>
      str_k KLIM data = SOk (s, skipn (Z.to_nat (consumed + length)) data) /\
      1 <= consumed /\ 0 <= length /\ consumed + length <= len data
  | Err e => e = HPACKDecodingError /\ str_k KLIM data = SErr Malformed
  end.
Proof.
  unfold decode_string. rewrite str_k_eq.
  pose proof (int_k_spec 7 data ltac:(lia)) as HI.
  destruct (decode_integer data 7) as [[n k]|e]; cbn [bind].
  2:{ destruct HI as [-> HI]. rewrite HI. split; reflexivity. }
  destruct HI as (HI & Hk & Hn & _). rewrite HI. cbn [sbnd].
  destruct data as [|b tl]; [rewrite len_nil in Hk; lia|].
  rewrite slice_Z_firstn by lia.
  rewrite len_firstn, len_skipn.
  destruct (negb (Z.min (Z.of_nat (Z.to_nat n)) (Z.max 0 (len (b :: tl) - Z.of_nat (Z.to_nat k))) =? n)) eqn:E1;
  destruct (Z.max 0 (len (b :: tl) - Z.of_nat (Z.to_nat k)) <? n) eqn:E2; try lia.
  - split; reflexivity.
  - rewrite index_Z_0_cons. cbn [bind]. rewrite bit7.
    assert (HS : skipn (Z.to_nat n) (skipn (Z.to_nat k) (b :: tl)) = skipn (Z.to_nat (k + n)) (b :: tl)).
    { rewrite skipn_add. f_equal. lia. }
    destruct (128 <=? bz b).
    + rewrite decode_huffman_m_spec.
      destruct (huff_dec (firstn (Z.to_nat n) (skipn (Z.to_nat k) (b :: tl)))) as [s|]; cbn [bind].
      * rewrite HS. repeat split; lia.
      * split; reflexivity.
    + cbn [bind]. rewrite HS. repeat split; lia.
Qed.

(** * (c) the representations *)
(** ** 6.1 indexed field *)
Definition indexed_parse (d : list entry) (bs : bytes) : SDecoder.sres (action * bytes) :=
  '(i, rest) <-- int_k KLIM 7 bs ;;
  match lookup i d with
  | Some e => SOk (Emit false false (fst e) (snd e), rest)
  | None => SErr BadIndex
  end.

Lemma indexed_spec d bs :
  match Decoder__decode_indexed d bs with
  | Ok (h, c) => exists name value, h = (HPlain, name, value) /\
      indexed_parse (entries (d_tab d)) bs = SOk (Emit false false name value, skipn (Z.to_nat c) bs) /\
      1 <= c <= len bs
  | Err e => exists c, indexed_parse (entries (d_tab d)) bs = SErr c /\ e = exn_of c
  end.
Proof.
  unfold Decoder__decode_indexed, indexed_parse. pose proof (int_k_spec 7 bs ltac:(lia)) as HI.
  destruct (decode_integer bs 7) as [[i k]|e]; cbn [bind].
  2:{ destruct HI as [-> HI]. rewrite HI. exists Malformed. split; reflexivity. }
  destruct HI as (HI & Hk & Hn & HF & _). rewrite HI. cbn [sbnd].
  rewrite (get_by_index_spec _ i (fmt_abs i HF)).
  destruct (lookup i (entries (d_tab d))) as [e|]; cbn [bind].
  - exists (fst e), (snd e). splits; try reflexivity; lia.
  - exists BadIndex. split; reflexivity.
Qed.

(** ** 6.2 literal fields: the model's function cut into its name part and its value part *)
Definition lit_name (self : decoder) (data : bytes) (iname N : Z) : outcome (bytes * Z * bytes * Z * Z) :=
  if truthy iname then
    '(index, consumed) <- decode_integer data N ;;
    t1 <- HeaderTable_get_by_index self.(d_tab) index ;;
    Ok (fst t1, consumed, data, consumed, 0)
  else
    let data := slice_from data 1 in
    '(name, length, consumed) <- decode_string data ;;
    Ok (name, consumed + length + 1, data, consumed, length).

Definition lit_value (self : decoder) (si never : bool) (name : bytes) (total : Z) (data : bytes)
  : outcome (header * Z) * decoder :=
  mbind (decode_string data) self (fun '(value, length, consumed) =>
  let total_consumed := total + (length + consumed) in
  let header : header := if never then (HNever, name, value) else (HPlain, name, value) in
  if si
  then match HeaderTable_add self.(d_tab) name value with
       | (Ok _, tab) => (Ok (header, total_consumed), set_d_tab tab self)
       | (Err e, tab) => (Err e, set_d_tab tab self)
       end
  else (Ok (header, total_consumed), self)).

Definition lit_core (self : decoder) (data : bytes) (si : bool) (iname N : Z) (never : bool) :=
  mbind (lit_name self data iname N) self (fun '(name, total, data, consumed, length) =>
    lit_value self si never name total (slice_from data (consumed + length))).

Lemma literal_unfold self b tl si :
  Decoder__decode_literal self (b :: tl) si =
  if si then lit_core self (b :: tl) true (Z.land (bz b) 63) 6 false
  else lit_core self (b :: tl) false (Z.land (bz b) 15) 4 (truthy (Z.land (bz b) 16)).
Proof. destruct si; reflexivity. Qed.

Definition name_parse (N : Z) (d : list entry) (bs : bytes) : SDecoder.sres (bytes * bytes) :=
  '(i, rest) <-- int_k KLIM N bs ;;
  if i =? 0 then str_k KLIM rest
  else match lookup i d with Some e => SOk (fst e, rest) | None => SErr BadIndex end.

Lemma literal_eq N never ins d bs :
  literal KLIM N never ins d bs =
  '(name, rest) <-- name_parse N d bs ;;
  '(value, rest) <-- str_k KLIM rest ;;
  SOk (Emit never ins name value, rest).
Proof. unfold literal, name_parse. destruct (int_k KLIM N bs) as [[i rest]|]; reflexivity. Qed.

Definition ctx_ins (d : decoder) (name value : bytes) : ctx :=
  {| dyn := insert (maxsize (d_tab d)) (name, value) (entries (d_tab d));
     size := maxsize (d_tab d); limit := d_max_allowed d; list_limit := d_max_list d |}.

Lemma lit_value_spec d si never name total data : dec_ok d ->
  match lit_value d si never name total data with
  | (Ok (h, c), d') => exists value l k,
      str_k KLIM data = SOk (value, skipn (Z.to_nat (k + l)) data) /\ c = total + (l + k) /\
      1 <= k /\ 0 <= l /\ k + l <= len data /\
      h = ((if never then HNever else HPlain), name, value) /\ dec_ok d' /\
      ctx_of d' = (if si then ctx_ins d name value else ctx_of d)
  | (Err e, d') => d' = d /\ e = HPACKDecodingError /\ str_k KLIM data = SErr Malformed
  end.
Proof.
  intros Hok. unfold lit_value. pose proof (decode_string_spec data) as HS.
  destruct (decode_string data) as [[[value l] k]|e]; cbn [mbind].
  2:{ destruct HS as [-> HS]. splits; try reflexivity; assumption. }
  destruct HS as (HS & Hk & Hl & Hkl). cbv zeta.
  assert (HH : (if never then (HNever, name, value) else (HPlain, name, value)) =
               ((if never then HNever else HPlain), name, value)) by (destruct never; reflexivity).
  destruct si.
  - destruct (add_spec (d_tab d) name value (dec_ok_TInv d Hok)) as (t' & Ha & He & Hm & _ & Ht).
    rewrite Ha. exists value, l, k. splits; try assumption; try reflexivity.
    + apply dec_ok_set_tab; assumption.
    + unfold ctx_of, ctx_ins. cbn [set_d_tab d_tab d_max_list d_max_allowed]. rewrite He, Hm. reflexivity.
  - exists value, l, k. splits; try reflexivity; assumption.
Qed.

Lemma lit_name_spec d b tl iname N : 1 <= N <= 8 -> iname = bz b mod 2 ^ N ->
  match lit_name d (b :: tl) iname N with
  | Ok (name, total, data, consumed, length) =>
      1 <= total <= len (b :: tl) /\
      name_parse N (entries (d_tab d)) (b :: tl) = SOk (name, skipn (Z.to_nat total) (b :: tl)) /\
      slice_from data (consumed + length) = skipn (Z.to_nat total) (b :: tl)
  | Err e => exists c, name_parse N (entries (d_tab d)) (b :: tl) = SErr c /\ e = exn_of c
  end.
Proof.
  intros HN Hi. unfold lit_name, name_parse, truthy.
  destruct (iname =? 0) eqn:E0; cbn [negb].
  - (* literal name *)
    rewrite (int_k_zero N b tl HN) by lia. cbn [sbnd]. change (0 =? 0) with true. cbv iota zeta.
    rewrite slice_from_skipn by lia. change (skipn (Z.to_nat 1) (b :: tl)) with tl.
    pose proof (decode_string_spec tl) as HS.
    destruct (decode_string tl) as [[[name l] k]|e]; cbn [bind].
    2:{ destruct HS as [-> HS]. exists Malformed. split; [exact HS|reflexivity]. }
    destruct HS as (HS & Hk & Hl & Hkl). rewrite len_cons.
    assert (HT : skipn (Z.to_nat (k + l + 1)) (b :: tl) = skipn (Z.to_nat (k + l)) tl).
    { replace (Z.to_nat (k + l + 1)) with (S (Z.to_nat (k + l))) by lia. reflexivity. }
    rewrite HT. splits; try lia; [exact HS|]. apply slice_from_skipn. lia.
  - (* indexed name *)
    pose proof (int_k_spec N (b :: tl) HN) as HI.
    destruct (decode_integer (b :: tl) N) as [[i k]|e]; cbn [bind].
    2:{ destruct HI as [-> HI]. rewrite HI. exists Malformed. split; reflexivity. }
    destruct HI as (HI & Hk & Hn & HF & HD). rewrite HI. cbn [sbnd].
    cbn [map] in HD.
    rewrite (int_dec_zero N (bz b) (map bz tl) i k HN (Forall_octet_map_bz (b :: tl)) HD).
    rewrite <- Hi, E0.
    rewrite (get_by_index_spec _ i (fmt_abs i HF)).
    destruct (lookup i (entries (d_tab d))) as [e|]; cbn [bind].
    + rewrite Z.add_0_r. splits; try lia; [reflexivity|]. apply slice_from_skipn. lia.
    + exists BadIndex. split; reflexivity.
Qed.

Lemma lit_core_spec d b tl si iname N never : dec_ok d -> 1 <= N <= 8 -> iname = bz b mod 2 ^ N ->
  match lit_core d (b :: tl) si iname N never with
  | (Ok (h, c), d') => exists name value,
      literal KLIM N never si (entries (d_tab d)) (b :: tl) =
        SOk (Emit never si name value, skipn (Z.to_nat c) (b :: tl)) /\
      h = ((if never then HNever else HPlain), name, value) /\ 1 <= c <= len (b :: tl) /\
      dec_ok d' /\ ctx_of d' = (if si then ctx_ins d name value else ctx_of d)
  | (Err e, d') => d' = d /\ exists c,
      literal KLIM N never si (entries (d_tab d)) (b :: tl) = SErr c /\ e = exn_of c
  end.
Proof.
  intros Hok HN Hi. unfold lit_core. rewrite literal_eq.
  pose proof (lit_name_spec d b tl iname N HN Hi) as HNm.
  destruct (lit_name d (b :: tl) iname N) as [[[[[name total] data] consumed] length]|e]; cbn [mbind].
  2:{ destruct HNm as (c & HP & ->). split; [reflexivity|]. exists c. rewrite HP. split; reflexivity. }
  destruct HNm as (Ht & HP & HS). rewrite HP, HS. cbn [sbnd].
  pose proof (lit_value_spec d si never name total (skipn (Z.to_nat total) (b :: tl)) Hok) as HV.
  destruct (lit_value d si never name total (skipn (Z.to_nat total) (b :: tl))) as [[[h c]|e] d'].
  2:{ destruct HV as (-> & -> & HV). split; [reflexivity|]. exists Malformed. rewrite HV. split; reflexivity. }
  destruct HV as (value & l & k & HV & -> & Hk & Hl & Hkl & Hh & Hok' & Hc).
  rewrite HV. cbn [sbnd]. rewrite len_skipn in Hkl.
  exists name, value. splits; try assumption; try lia.
  rewrite skipn_add.
  replace (Z.to_nat (total + (l + k))) with (Z.to_nat total + Z.to_nat (k + l))%nat by lia. reflexivity.
Qed.

Lemma literal_spec d b tl si : dec_ok d -> (si = false -> bz b < 32) ->
  let N := if si then 6 else 4 in
  let never := if si then false else 16 <=? bz b in
  match Decoder__decode_literal d (b :: tl) si with
  | (Ok (h, c), d') => exists name value,
      literal KLIM N never si (entries (d_tab d)) (b :: tl) =
        SOk (Emit never si name value, skipn (Z.to_nat c) (b :: tl)) /\
      h = ((if never then HNever else HPlain), name, value) /\ 1 <= c <= len (b :: tl) /\
      dec_ok d' /\ ctx_of d' = (if si then ctx_ins d name value else ctx_of d)
  | (Err e, d') => d' = d /\ exists c,
      literal KLIM N never si (entries (d_tab d)) (b :: tl) = SErr c /\ e = exn_of c
  end.
Proof.
  intros Hok Hb. rewrite literal_unfold. destruct si; cbv zeta.
  - apply lit_core_spec; [assumption|lia|apply land63].
  - rewrite (bit4 b) by (specialize (Hb eq_refl); lia).
    apply lit_core_spec; [assumption|lia|apply land15].
Qed.

(** ** 6.3 dynamic table size update *)
Definition ctx_resize (d : decoder) (n : Z) : ctx :=
  {| dyn := resize n (entries (d_tab d)); size := n; limit := d_max_allowed d; list_limit := d_max_list d |}.

Lemma update_spec d bs : dec_ok d ->
  match Decoder__update_encoding_context d bs with
  | (Ok c, d') => exists n, int_k KLIM 5 bs = SOk (n, skipn (Z.to_nat c) bs) /\
      (n >? d_max_allowed d) = false /\ 1 <= c <= len bs /\ dec_ok d' /\ ctx_of d' = ctx_resize d n
  | (Err e, d') => d' = d /\
      ((e = HPACKDecodingError /\ int_k KLIM 5 bs = SErr Malformed) \/
       (exists n rest, int_k KLIM 5 bs = SOk (n, rest) /\ (n >? d_max_allowed d) = true /\
                       e = InvalidTableSizeError))
  end.
Proof.
  intros Hok. unfold Decoder__update_encoding_context.
  pose proof (int_k_spec 5 bs ltac:(lia)) as HI.
  destruct (decode_integer bs 5) as [[n k]|e]; cbn [mbind].
  2:{ destruct HI as [-> HI]. split; [reflexivity|]. left. split; [reflexivity|exact HI]. }
  destruct HI as (HI & Hk & Hn & _).
  destruct (n >? d_max_allowed d) eqn:E.
  - split; [reflexivity|]. right. exists n, (skipn (Z.to_nat k) bs). splits; try reflexivity; assumption.
  - unfold Decoder_set_header_table_size.
    destruct (set_maxsize_spec (d_tab d) n (dec_ok_TInv d Hok)) as (t' & Hs & He & Hm & _ & Ht).
    rewrite Hs. cbn [sbind]. exists n. splits; try assumption; try reflexivity; try lia.
    + apply dec_ok_set_tab; assumption.
    + unfold ctx_of, ctx_resize. cbn [set_d_tab d_tab d_max_list d_max_allowed]. rewrite He, Hm. reflexivity.
Qed.

(** * (d) one iteration of the block loop *)
Definition post (r : outcome (option header * Z)) (self : decoder) (headers : list header)
  (inflated_size current_index : Z) : ctl dstate (list header) :=
  match r with
  | Err e => Raise e (self, headers, inflated_size, current_index)
  | Ok (Some h, consumed) =>
      let headers := headers ++ [h] in
      let inflated_size := inflated_size + table_entry_size (h_name h) (h_value h) in
      if inflated_size >? self.(d_max_list)
      then match py_format_d self.(d_max_list) with
           | Err e => Raise e (self, headers, inflated_size, current_index)
           | Ok _ => Raise OversizedHeaderListError (self, headers, inflated_size, current_index)
           end
      else Next (self, headers, inflated_size, current_index + consumed)
  | Ok (None, consumed) => Next (self, headers, inflated_size, current_index + consumed)
  end.

Definition arms (self : decoder) (headers : list header) (bs : bytes) (current : Z)
  : outcome (option header * Z) * decoder :=
  if truthy (Z.land current 128) then
    (match Decoder__decode_indexed self bs with
     | Ok (h, c) => Ok (Some h, c) | Err e => Err e end, self)
  else if truthy (Z.land current 64) then
    match Decoder__decode_literal_index self bs with
    | (Ok (h, c), self) => (Ok (Some h, c), self) | (Err e, self) => (Err e, self) end
  else if truthy (Z.land current 32) then
    if negb (len headers =? 0) then (Err HPACKDecodingError, self)
    else match Decoder__update_encoding_context self bs with
         | (Ok c, self) => (Ok (None, c), self) | (Err e, self) => (Err e, self) end
  else
    match Decoder__decode_literal_no_index self bs with
    | (Ok (h, c), self) => (Ok (Some h, c), self) | (Err e, self) => (Err e, self) end.

Lemma decode_body_eq data L d hs infl idx :
  decode_body data L (d, hs, infl, idx) =
  if idx <? L then
    match index_Z data idx with
    | Err e => Raise e (d, hs, infl, idx)
    | Ok t => let '(r, self) := arms d hs (slice_from data idx) (bz t) in post r self hs infl idx
    end
  else Break (d, hs, infl, idx).
Proof. reflexivity. Qed.

Lemma dr_loop_S K fuel c b tl acc run :
  decode_loop K (S fuel) c (b :: tl) acc run =
  if (bz b <? 64) && (32 <=? bz b) && negb (len acc =? 0) then SErr Malformed
  else
    '(a, rest) <-- parse_rep K (dyn c) (bz b) (b :: tl) ;;
    match a with
    | Resize n =>
        if n >? limit c then SErr BadSize
        else decode_loop K fuel
               {| dyn := resize n (dyn c); size := n; limit := limit c; list_limit := list_limit c |}
               rest acc run
    | Emit never ins name value =>
        if run + esize (name, value) >? list_limit c then SErr Oversized
        else decode_loop K fuel
               (if ins
                then {| dyn := insert (size c) (name, value) (dyn c); size := size c;
                        limit := limit c; list_limit := list_limit c |}
                else c)
               rest (acc ++ [(never, name, value)]) (run + esize (name, value))
    end.
Proof. reflexivity. Qed.

Lemma list_size_app l f : list_size (l ++ [f]) = list_size l + fsize f.
Proof.
  induction l as [|x l IH].
  - unfold list_size. cbn [app fold_right]. lia.
  - change (list_size ((x :: l) ++ [f])) with (fsize x + list_size (l ++ [f])).
    change (list_size (x :: l)) with (fsize x + list_size l). lia.
Qed.

Lemma conv_mk (never : bool) name value :
  conv ((if never then HNever else HPlain), name, value) = (never, name, value).
Proof. destruct never; reflexivity. Qed.

Lemma emit_step data d d' hs infl idx b tl (h : header) c never ins name value :
  skipn (Z.to_nat idx) data = b :: tl -> 0 <= idx ->
  infl = list_size (map conv hs) -> dec_ok d' -> d_max_list d' = d_max_list d ->
  (bz b <? 64) && (32 <=? bz b) = false ->
  parse_rep KLIM (entries (d_tab d)) (bz b) (b :: tl) =
    SOk (Emit never ins name value, skipn (Z.to_nat c) (b :: tl)) ->
  h = ((if never then HNever else HPlain), name, value) -> 1 <= c <= len (b :: tl) ->
  ctx_of d' = (if ins then ctx_ins d name value else ctx_of d) ->
  match post (Ok (Some h, c)) d' hs infl idx with
  | Next (d'', hs', infl', idx') =>
      d'' = d' /\ idx' = idx + c /\ infl' = list_size (map conv hs') /\
      forall fuel, decode_loop KLIM (S fuel) (ctx_of d) (b :: tl) (map conv hs) infl =
                   decode_loop KLIM fuel (ctx_of d') (skipn (Z.to_nat idx') data) (map conv hs') infl'
  | Raise e (d'', _, _, _) =>
      d'' = d' /\ e = OversizedHeaderListError /\
      forall fuel, decode_loop KLIM (S fuel) (ctx_of d) (b :: tl) (map conv hs) infl = SErr Oversized
  | _ => False
  end.
Proof.
  intros Hsk Hidx Hinfl Hok' Hml Hnu Hp Hh Hc Hctx.
  unfold post. cbv zeta. rewrite (dec_ok_fmt d' Hok'), Hml. subst h.
  change (table_entry_size (h_name (if never then HNever else HPlain, name, value))
                           (h_value (if never then HNever else HPlain, name, value)))
    with (esize (name, value)).
  assert (HL : forall fuel, decode_loop KLIM (S fuel) (ctx_of d) (b :: tl) (map conv hs) infl =
     if infl + esize (name, value) >? d_max_list d then SErr Oversized
     else decode_loop KLIM fuel (ctx_of d') (skipn (Z.to_nat c) (b :: tl))
            (map conv hs ++ [(never, name, value)]) (infl + esize (name, value))).
  { intros fuel. rewrite dr_loop_S, Hnu. cbn [andb].
    change (dyn (ctx_of d)) with (entries (d_tab d)). rewrite Hp. cbn [sbnd].
    change (list_limit (ctx_of d)) with (d_max_list d). rewrite Hctx.
    destruct ins; reflexivity. }
  destruct (infl + esize (name, value) >? d_max_list d) eqn:EO.
  - splits; try reflexivity. exact HL.
  - splits; try reflexivity.
    + rewrite map_app. cbn [map]. rewrite list_size_app, conv_mk. subst infl. reflexivity.
    + intros fuel. rewrite HL, map_app. cbn [map]. rewrite conv_mk, <- Hsk, skipn_add.
      replace (Z.to_nat (idx + c)) with (Z.to_nat idx + Z.to_nat c)%nat by lia. reflexivity.
Qed.

Lemma parse_rep_indexed K d b bs : (128 <=? bz b) = true ->
  parse_rep K d (bz b) bs =
  '(i, rest) <-- int_k K 7 bs ;;
  match lookup i d with
  | Some e => SOk (Emit false false (fst e) (snd e), rest)
  | None => SErr BadIndex
  end.
Proof. intros E. unfold parse_rep. rewrite E. reflexivity. Qed.
Lemma parse_rep_lit_index K d b bs : (128 <=? bz b) = false -> (64 <=? bz b) = true ->
  parse_rep K d (bz b) bs = literal K 6 false true d bs.
Proof. intros E7 E6. unfold parse_rep. rewrite E7, E6. reflexivity. Qed.
Lemma parse_rep_update K d b bs : (64 <=? bz b) = false -> (32 <=? bz b) = true ->
  parse_rep K d (bz b) bs = '(n, rest) <-- int_k K 5 bs ;; SOk (Resize n, rest).
Proof.
  intros E6 E5. unfold parse_rep. rewrite E6, E5.
  destruct (128 <=? bz b) eqn:E7; [lia|reflexivity].
Qed.
Lemma parse_rep_lit_noindex K d b bs : (32 <=? bz b) = false ->
  parse_rep K d (bz b) bs = literal K 4 (16 <=? bz b) false d bs.
Proof.
  intros E5. unfold parse_rep. rewrite E5.
  destruct (128 <=? bz b) eqn:E7; [lia|]. destruct (64 <=? bz b) eqn:E6; [lia|].
  destruct (16 <=? bz b); reflexivity.
Qed.

(** what one iteration does, against one unfolding of [decode_loop]; the last three
    components are the frame facts the C08 corollaries need *)
Lemma body_step data d hs infl idx : dec_ok d -> 0 <= idx < len data ->
  infl = list_size (map conv hs) ->
  match decode_body data (len data) (d, hs, infl, idx) with
  | Next (d', hs', infl', idx') =>
      idx < idx' <= len data /\ dec_ok d' /\ infl' = list_size (map conv hs') /\
      (forall fuel, decode_loop KLIM (S fuel) (ctx_of d) (skipn (Z.to_nat idx) data) (map conv hs) infl =
                    decode_loop KLIM fuel (ctx_of d') (skipn (Z.to_nat idx') data) (map conv hs') infl') /\
      d_max_allowed d' = d_max_allowed d /\ d_max_list d' = d_max_list d /\
      (maxsize (d_tab d') = maxsize (d_tab d) \/ maxsize (d_tab d') <= d_max_allowed d)
  | Raise e (d', _, _, _) =>
      (exists c, e = exn_of c /\
         forall fuel, decode_loop KLIM (S fuel) (ctx_of d) (skipn (Z.to_nat idx) data) (map conv hs) infl = SErr c) /\
      d_max_allowed d' = d_max_allowed d /\ maxsize (d_tab d') = maxsize (d_tab d)
  | Break _ | Return _ _ => False
  end.
Proof.
  intros Hok Hidx Hinfl. rewrite decode_body_eq.
  destruct (idx <? len data) eqn:EL; [|lia].
  destruct (skipn_nonempty data idx Hidx) as (b & tl & Hsk).
  rewrite index_Z_skipn, slice_from_skipn, Hsk by lia.
  assert (Hlen : idx + len (b :: tl) = len data).
  { rewrite <- Hsk, len_skipn. lia. }
  unfold arms. rewrite bit7.
  destruct (128 <=? bz b) eqn:E7.
  { (* indexed *)
    pose proof (indexed_spec d (b :: tl)) as HS.
    destruct (Decoder__decode_indexed d (b :: tl)) as [[h c]|e].
    - destruct HS as (name & value & Hh & HP & Hc).
      pose proof (emit_step data d d hs infl idx b tl h c false false name value Hsk ltac:(lia) Hinfl Hok
                    eq_refl ltac:(lia)) as HE.
      rewrite (parse_rep_indexed KLIM _ b _ E7) in HE. specialize (HE HP Hh Hc eq_refl).
      revert HE.
      destruct (post (Ok (Some h, c)) d hs infl idx) as [[[[d' hs'] infl'] idx']| |? ?|e [[[d' hs'] infl'] idx']];
        intros HE; try contradiction.
      + destruct HE as (-> & -> & Hi' & HL). splits; try assumption; try reflexivity; try lia.
      + destruct HE as (-> & -> & HL). splits; try reflexivity. exists Oversized. split; [reflexivity|exact HL].
    - destruct HS as (c & HP & ->). cbn [post]. splits; try reflexivity.
      exists c. split; [reflexivity|]. intros fuel. rewrite dr_loop_S.
      destruct ((bz b <? 64) && (32 <=? bz b)) eqn:EU; [lia|]. cbn [andb].
      rewrite (parse_rep_indexed KLIM _ b _ E7). change (dyn (ctx_of d)) with (entries (d_tab d)).
      unfold indexed_parse in HP. rewrite HP. reflexivity. }
  rewrite (bit6 b E7).
  destruct (64 <=? bz b) eqn:E6.
  { (* literal with incremental indexing *)
    pose proof (literal_spec d b tl true Hok ltac:(discriminate)) as HS. cbv zeta in HS.
    unfold Decoder__decode_literal_index.
    destruct (Decoder__decode_literal d (b :: tl) true) as [[[h c]|e] d1].
    - destruct HS as (name & value & HP & Hh & Hc & Hok1 & Hctx).
      assert (Hml : d_max_list d1 = d_max_list d) by exact (f_equal list_limit Hctx).
      assert (Hma : d_max_allowed d1 = d_max_allowed d) by exact (f_equal limit Hctx).
      assert (Hms : maxsize (d_tab d1) = maxsize (d_tab d)) by exact (f_equal size Hctx).
      pose proof (emit_step data d d1 hs infl idx b tl h c false true name value Hsk ltac:(lia) Hinfl Hok1
                    Hml ltac:(lia)) as HE.
      rewrite (parse_rep_lit_index KLIM _ b _ E7 E6) in HE. specialize (HE HP Hh Hc Hctx).
      revert HE.
      destruct (post (Ok (Some h, c)) d1 hs infl idx) as [[[[d' hs'] infl'] idx']| |? ?|e [[[d' hs'] infl'] idx']];
        intros HE; try contradiction.
      + destruct HE as (-> & -> & Hi' & HL). splits; try assumption; try lia.
      + destruct HE as (-> & -> & HL). splits; try assumption. exists Oversized. split; [reflexivity|exact HL].
    - destruct HS as (-> & c & HP & ->). cbn [post]. splits; try reflexivity.
      exists c. split; [reflexivity|]. intros fuel. rewrite dr_loop_S.
      destruct ((bz b <? 64) && (32 <=? bz b)) eqn:EU; [lia|]. cbn [andb].
      rewrite (parse_rep_lit_index KLIM _ b _ E7 E6). change (dyn (ctx_of d)) with (entries (d_tab d)).
      rewrite HP. reflexivity. }
  rewrite (bit5 b E6).
  destruct (32 <=? bz b) eqn:E5.
  { (* size update *)
    assert (EU : (bz b <? 64) && (32 <=? bz b) = true) by lia.
    destruct (negb (len hs =? 0)) eqn:EH.
    - cbn [post]. splits; try reflexivity. exists Malformed. split; [reflexivity|].
      intros fuel. rewrite dr_loop_S, EU, len_map, EH. reflexivity.
    - pose proof (update_spec d (b :: tl) Hok) as HS.
      assert (HL0 : forall fuel, decode_loop KLIM (S fuel) (ctx_of d) (b :: tl) (map conv hs) infl =
                 '(a, rest) <-- ('(n, rest) <-- int_k KLIM 5 (b :: tl) ;; SOk (Resize n, rest)) ;;
                 match a with
                 | Resize n => if n >? d_max_allowed d then SErr BadSize
                               else decode_loop KLIM fuel (ctx_resize d n) rest (map conv hs) infl
                 | Emit _ _ _ _ => SErr Malformed
                 end).
      { intros fuel. rewrite dr_loop_S, EU, len_map, EH. cbn [andb].
        rewrite (parse_rep_update KLIM _ b _ E6 E5).
        destruct (int_k KLIM 5 (b :: tl)) as [[n rest]|]; reflexivity. }
      destruct (Decoder__update_encoding_context d (b :: tl)) as [[c|e] d1].
      + destruct HS as (n & HP & Hn & Hc & Hok1 & Hctx). cbn [post].
        assert (Hml : d_max_list d1 = d_max_list d) by exact (f_equal list_limit Hctx).
        assert (Hma : d_max_allowed d1 = d_max_allowed d) by exact (f_equal limit Hctx).
        assert (Hms : maxsize (d_tab d1) = n) by exact (f_equal size Hctx).
        splits; try assumption; try lia.
        intros fuel. rewrite HL0, HP. cbn [sbnd]. rewrite Hn, Hctx, <- Hsk, skipn_add.
        replace (Z.to_nat (idx + c)) with (Z.to_nat idx + Z.to_nat c)%nat by lia. reflexivity.
      + destruct HS as (-> & [(-> & HP)|(n & rest & HP & Hn & ->)]); cbn [post]; splits; try reflexivity.
        * exists Malformed. split; [reflexivity|]. intros fuel. rewrite HL0, HP. reflexivity.
        * exists BadSize. split; [reflexivity|]. intros fuel. rewrite HL0, HP. cbn [sbnd]. rewrite Hn. reflexivity. }
  { (* literal without indexing / never indexed *)
    pose proof (literal_spec d b tl false Hok ltac:(intros _; lia)) as HS. cbv zeta in HS.
    unfold Decoder__decode_literal_no_index.
    destruct (Decoder__decode_literal d (b :: tl) false) as [[[h c]|e] d1].
    - destruct HS as (name & value & HP & Hh & Hc & Hok1 & Hctx).
      assert (Hml : d_max_list d1 = d_max_list d) by exact (f_equal list_limit Hctx).
      assert (Hma : d_max_allowed d1 = d_max_allowed d) by exact (f_equal limit Hctx).
      assert (Hms : maxsize (d_tab d1) = maxsize (d_tab d)) by exact (f_equal size Hctx).
      pose proof (emit_step data d d1 hs infl idx b tl h c (16 <=? bz b) false name value Hsk ltac:(lia) Hinfl Hok1
                    Hml ltac:(lia)) as HE.
      rewrite (parse_rep_lit_noindex KLIM _ b _ E5) in HE. specialize (HE HP Hh Hc Hctx).
      revert HE.
      destruct (post (Ok (Some h, c)) d1 hs infl idx) as [[[[d' hs'] infl'] idx']| |? ?|e [[[d' hs'] infl'] idx']];
        intros HE; try contradiction.
      + destruct HE as (-> & -> & Hi' & HL). splits; try assumption; try lia.
      + destruct HE as (-> & -> & HL). splits; try assumption. exists Oversized. split; [reflexivity|exact HL].
    - destruct HS as (-> & c & HP & ->). cbn [post]. splits; try reflexivity.
      exists c. split; [reflexivity|]. intros fuel. rewrite dr_loop_S.
      destruct ((bz b <? 64) && (32 <=? bz b)) eqn:EU; [lia|]. cbn [andb].
      rewrite (parse_rep_lit_noindex KLIM _ b _ E5). change (dyn (ctx_of d)) with (entries (d_tab d)).
      rewrite HP. reflexivity. }
Qed.

(** * the loop *)
Lemma dr_loop_nil K fuel c acc run :
  decode_loop K fuel c [] acc run = if size c >? limit c then SErr BadSize else SOk (acc, c).
Proof. destruct fuel; reflexivity. Qed.

Lemma loop_refines data : forall fuel d hs infl idx sfuel,
  dec_ok d -> 0 <= idx <= len data -> infl = list_size (map conv hs) ->
  (Z.to_nat (len data - idx) < fuel)%nat -> (Z.to_nat (len data - idx) < sfuel)%nat ->
  match while_fuel fuel (decode_body data (len data)) (d, hs, infl, idx) with
  | Done (d', hs', _, _) =>
      decode_loop KLIM sfuel (ctx_of d) (skipn (Z.to_nat idx) data) (map conv hs) infl =
        (if maxsize (d_tab d') >? d_max_allowed d' then SErr BadSize else SOk (map conv hs', ctx_of d')) /\
      dec_ok d'
  | Raised e _ =>
      exists c, e = exn_of c /\
        decode_loop KLIM sfuel (ctx_of d) (skipn (Z.to_nat idx) data) (map conv hs) infl = SErr c
  | Returned _ _ | Exhausted _ => False
  end.
Proof.
  induction fuel as [|fuel IH]; intros d hs infl idx sfuel Hok Hidx Hinfl Hf Hsf; [lia|].
  rewrite while_fuel_S.
  destruct (Z.eq_dec idx (len data)) as [He|Hne].
  - rewrite decode_body_eq. destruct (idx <? len data) eqn:EL; [lia|].
    subst idx. unfold len at 1. rewrite Nat2Z.id, skipn_all, dr_loop_nil.
    split; [reflexivity|exact Hok].
  - pose proof (body_step data d hs infl idx Hok ltac:(lia) Hinfl) as HB.
    destruct (decode_body data (len data) (d, hs, infl, idx))
      as [[[[d' hs'] infl'] idx']|?|? ?|e [[[d' hs'] infl'] idx']]; try contradiction.
    + destruct HB as (Hi' & Hok' & Hinfl' & HL & _).
      destruct sfuel as [|sfuel]; [lia|]. rewrite HL.
      apply IH; try assumption; lia.
    + destruct HB as ((c & -> & HL) & _).
      destruct sfuel as [|sfuel]; [lia|]. exists c. split; [reflexivity|apply HL].
Qed.

(** * (e) the tail: UTF-8 in text mode *)
Definition hvalid (h : header) : bool := utf8_valid (h_name h) && utf8_valid (h_value h).

Lemma unicode_if_needed_spec h raw :
  _unicode_if_needed h raw = if raw || hvalid h then Ok h else Err UnicodeDecodeError.
Proof.
  destruct h as [[c n] v]. unfold _unicode_if_needed, hvalid, py_decode_utf8.
  cbn [h_name h_value h_class fst snd]. destruct raw; cbn [negb orb]; [reflexivity|].
  destruct (utf8_valid n); cbn [bind andb]; [|reflexivity].
  destruct (utf8_valid v); reflexivity.
Qed.

Lemma unicode_all_spec hs raw :
  unicode_all hs raw = if raw || forallb hvalid hs then Ok hs else Err UnicodeDecodeError.
Proof.
  induction hs as [|h r IH]; [destruct raw; reflexivity|].
  cbn [unicode_all forallb]. rewrite unicode_if_needed_spec, IH.
  destruct raw; cbn [orb bind]; [reflexivity|].
  destruct (hvalid h); cbn [bind andb]; [|reflexivity].
  destruct (forallb hvalid r); reflexivity.
Qed.

Lemma forallb_conv hs :
  forallb (fun f : sfield => utf8_valid (snd (fst f)) && utf8_valid (snd f)) (map conv hs) = forallb hvalid hs.
Proof. induction hs as [|h r IH]; [reflexivity|]. cbn [map forallb]. rewrite IH. reflexivity. Qed.

(** * The refinement theorem *)
Theorem decode_refines : forall d data raw, dec_ok d ->
  match Decoder_decode d data raw with
  | (Ok hs, d') => decode KLIM (ctx_of d) data (negb raw) = SOk (map conv hs, ctx_of d') /\ dec_ok d'
  | (Err e, d') => exists c, decode KLIM (ctx_of d) data (negb raw) = SErr c /\ e = exn_of c
  end.
Proof.
  intros d data raw Hok. unfold Decoder_decode, decode. cbv zeta.
  pose proof (loop_refines data (S (length data)) d [] 0 0 (S (length data)) Hok
                ltac:(pose proof (len_nonneg data); lia) eq_refl
                ltac:(unfold len; lia) ltac:(unfold len; lia)) as HL.
  change (skipn (Z.to_nat 0) data) with data in HL. change (map conv []) with (@nil sfield) in HL.
  destruct (while_fuel (S (length data)) (decode_body data (len data)) (d, [], 0, 0))
    as [[[[d' hs'] infl'] idx']|? ?|e [[[d' hs'] infl'] idx']|?]; try contradiction.
  - destruct HL as [HL Hok']. rewrite HL.
    unfold Decoder__assert_valid_table_size, Decoder_header_table_size.
    destruct (maxsize (d_tab d') >? d_max_allowed d') eqn:ES; cbn [mbind sbnd].
    + exists BadSize. split; reflexivity.
    + rewrite unicode_all_spec, forallb_conv.
      destruct raw; cbn [negb orb andb catch].
      * split; [reflexivity|exact Hok'].
      * destruct (forallb hvalid hs'); cbn [negb catch exn_eqb].
        -- split; [reflexivity|exact Hok'].
        -- exists Malformed. split; reflexivity.
  - destruct HL as (c & -> & HL). rewrite HL. exists c. split; reflexivity.
Qed.

Lemma exn_of_documented c : documented (exn_of c) = true.
Proof. destruct c; reflexivity. Qed.

Theorem decode_documented : forall d data raw, dec_ok d ->
  match fst (Decoder_decode d data raw) with
  | Ok _ => True
  | Err e => documented e = true
  end.
Proof.
  intros d data raw Hok. pose proof (decode_refines d data raw Hok) as H.
  destruct (Decoder_decode d data raw) as [[hs|e] d']; cbn [fst]; [exact I|].
  destruct H as (c & _ & ->). apply exn_of_documented.
Qed.

Theorem accept_iff : forall d data raw, dec_ok d ->
  ((exists hs d', Decoder_decode d data raw = (Ok hs, d')) <->
   (exists r, decode KLIM (ctx_of d) data (negb raw) = SOk r)).
Proof.
  intros d data raw Hok. pose proof (decode_refines d data raw Hok) as H.
  destruct (Decoder_decode d data raw) as [[hs|e] d'].
  - destruct H as [H _]. split; intros _; [eexists; exact H|eexists; eexists; reflexivity].
  - destruct H as (c & H & _). split.
    + intros (hs & d'' & Hd). discriminate Hd.
    + intros (r & Hr). rewrite H in Hr. discriminate Hr.
Qed.

Theorem error_class : forall d data raw e d', dec_ok d ->
  Decoder_decode d data raw = (Err e, d') ->
  exists c, decode KLIM (ctx_of d) data (negb raw) = SErr c /\ e = exn_of c.
Proof.
  intros d data raw e d' Hok Hd. pose proof (decode_refines d data raw Hok) as H.
  rewrite Hd in H. exact H.
Qed.

(** * Frame: nothing in decode() assigns the two limits (no assumption on the state) *)
Definition frame (d d' : decoder) : Prop :=
  d_max_list d' = d_max_list d /\ d_max_allowed d' = d_max_allowed d.
Lemma frame_refl d : frame d d.
Proof. split; reflexivity. Qed.
Lemma frame_set_tab d t : frame d (set_d_tab t d).
Proof. split; reflexivity. Qed.
Lemma frame_trans d1 d2 d3 : frame d1 d2 -> frame d2 d3 -> frame d1 d3.
Proof. intros [A B] [C D]. split; congruence. Qed.

Lemma lit_value_frame d si never name total data : frame d (snd (lit_value d si never name total data)).
Proof.
  unfold lit_value. destruct (decode_string data) as [[[v l] k]|e]; cbn [mbind snd]; [|apply frame_refl].
  cbv zeta. destruct si; [|apply frame_refl].
  destruct (HeaderTable_add (d_tab d) name v) as [[u|e] tab]; apply frame_set_tab.
Qed.

Lemma literal_frame d bs si : frame d (snd (Decoder__decode_literal d bs si)).
Proof.
  destruct bs as [|b tl]; [apply frame_refl|]. rewrite literal_unfold.
  destruct si; unfold lit_core;
    match goal with |- context [lit_name ?a ?b ?c ?e] =>
      destruct (lit_name a b c e) as [[[[[name total] data] consumed] length]|e'] end;
    cbn [mbind snd]; first [apply lit_value_frame | apply frame_refl].
Qed.

Lemma update_frame d bs : frame d (snd (Decoder__update_encoding_context d bs)).
Proof.
  unfold Decoder__update_encoding_context.
  destruct (decode_integer bs 5) as [[n k]|e]; cbn [mbind snd]; [|apply frame_refl].
  destruct (n >? d_max_allowed d); [apply frame_refl|].
  unfold Decoder_set_header_table_size.
  destruct (HeaderTable_set_maxsize (d_tab d) n) as [[u|e] tab]; apply frame_set_tab.
Qed.

Lemma arms_frame d hs bs cur : frame d (snd (arms d hs bs cur)).
Proof.
  unfold arms, Decoder__decode_literal_index, Decoder__decode_literal_no_index.
  destruct (truthy (Z.land cur 128)); [apply frame_refl|].
  destruct (truthy (Z.land cur 64)).
  { pose proof (literal_frame d bs true) as H.
    destruct (Decoder__decode_literal d bs true) as [[[h c]|e] d1]; exact H. }
  destruct (truthy (Z.land cur 32)).
  { destruct (negb (len hs =? 0)); [apply frame_refl|].
    pose proof (update_frame d bs) as H.
    destruct (Decoder__update_encoding_context d bs) as [[c|e] d1]; exact H. }
  pose proof (literal_frame d bs false) as H.
  destruct (Decoder__decode_literal d bs false) as [[[h c]|e] d1]; exact H.
Qed.

(** the shape of one iteration, for ANY state: what can happen to the header list and the
    running size *)
Lemma body_shape data L d hs infl idx :
  match decode_body data L (d, hs, infl, idx) with
  | Break st => st = (d, hs, infl, idx)
  | Return _ _ => False
  | Next (d', hs', infl', idx') =>
      frame d d' /\
      ((hs' = hs /\ infl' = infl) \/
       (exists h, hs' = hs ++ [h] /\ infl' = infl + fsize (conv h) /\ infl' <= d_max_list d))
  | Raise e (d', hs', infl', idx') =>
      frame d d' /\ idx' = idx /\
      ((hs' = hs /\ infl' = infl) \/ (exists h, hs' = hs ++ [h] /\ infl' = infl + fsize (conv h)))
  end.
Proof.
  rewrite decode_body_eq. destruct (idx <? L); [|reflexivity].
  destruct (index_Z data idx) as [t|e].
  2:{ split; [apply frame_refl|]. split; [reflexivity|]. left. split; reflexivity. }
  pose proof (arms_frame d hs (slice_from data idx) (bz t)) as HF.
  destruct (arms d hs (slice_from data idx) (bz t)) as [[[[h|] c]|e] d']; cbn [snd] in HF; cbn [post].
  - cbv zeta. destruct HF as [HF1 HF2].
    change (table_entry_size (h_name h) (h_value h)) with (fsize (conv h)).
    destruct (infl + fsize (conv h) >? d_max_list d') eqn:E.
    + destruct (py_format_d (d_max_list d')); (split; [split; assumption|]); (split; [reflexivity|]);
        right; exists h; split; reflexivity.
    + split; [split; assumption|]. right. exists h. splits; try reflexivity. lia.
  - split; [exact HF|]. left. split; reflexivity.
  - split; [exact HF|]. split; [reflexivity|]. left. split; reflexivity.
Qed.

Lemma loop_frame data L : forall fuel d hs infl idx,
  match while_fuel fuel (decode_body data L) (d, hs, infl, idx) with
  | Done (d', _, _, _) | Raised _ (d', _, _, _) | Exhausted (d', _, _, _) => frame d d'
  | Returned _ _ => False
  end.
Proof.
  induction fuel as [|fuel IH]; intros d hs infl idx; [apply frame_refl|].
  rewrite while_fuel_S. pose proof (body_shape data L d hs infl idx) as HB.
  destruct (decode_body data L (d, hs, infl, idx))
    as [[[[d' hs'] infl'] idx']|st|? ?|e [[[d' hs'] infl'] idx']]; try contradiction.
  - destruct HB as [HF _]. specialize (IH d' hs' infl' idx').
    destruct (while_fuel fuel (decode_body data L) (d', hs', infl', idx'))
      as [[[[d2 ?] ?] ?]|? ?|? [[[d2 ?] ?] ?]|[[[d2 ?] ?] ?]]; try contradiction;
      exact (frame_trans _ _ _ HF IH).
  - subst st. apply frame_refl.
  - destruct HB as [HF _]. exact HF.
Qed.

Lemma decode_frame d data raw : frame d (snd (Decoder_decode d data raw)).
Proof.
  unfold Decoder_decode. cbv zeta.
  pose proof (loop_frame data (len data) (S (length data)) d [] 0 0) as HL.
  destruct (while_fuel (S (length data)) (decode_body data (len data)) (d, [], 0, 0))
    as [[[[d2 ?] ?] ?]|? ?|? [[[d2 ?] ?] ?]|[[[d2 ?] ?] ?]]; try contradiction; cbn [snd]; try exact HL.
  destruct (Decoder__assert_valid_table_size d2); exact HL.
Qed.

(** * Every history *)
Lemma dstep_max_list d o :
  match o with DSetMaxList v => Z.abs v < 10 ^ 4300 | _ => True end ->
  Z.abs (d_max_list d) < 10 ^ 4300 -> Z.abs (d_max_list (snd (dstep d o))) < 10 ^ 4300.
Proof.
  intros Ho Hd. destruct o as [v|v|v|data raw]; cbn [dstep snd].
  - exact Hd.
  - unfold Decoder_set_header_table_size.
    destruct (HeaderTable_set_maxsize (d_tab d) v) as [[u|e] tab]; exact Hd.
  - exact Ho.
  - destruct (decode_frame d data raw) as [H _]. rewrite H. exact Hd.
Qed.

Lemma drun_max_list ops : forall d,
  Forall (fun o => match o with DSetMaxList v => Z.abs v < 10 ^ 4300 | _ => True end) ops ->
  Z.abs (d_max_list d) < 10 ^ 4300 -> Z.abs (d_max_list (drun ops d)) < 10 ^ 4300.
Proof.
  induction ops as [|o ops IH]; intros d HF Hd; [exact Hd|].
  inversion HF as [|? ? Ho Hr]; subst. unfold drun. cbn [fold_left].
  apply (IH _ Hr). apply dstep_max_list; assumption.
Qed.

Theorem decode_documented_history : forall L ops data raw, Z.abs L < 10 ^ 4300 ->
  Forall (fun o => match o with DSetMaxList v => Z.abs v < 10 ^ 4300 | _ => True end) ops ->
  match fst (Decoder_decode (drun ops (Decoder_init L)) data raw) with
  | Ok _ => True
  | Err e => documented e = true
  end.
Proof.
  intros L ops data raw HL HF. apply decode_documented. split.
  - apply decoder_TInv.
  - apply drun_max_list; [exact HF|exact HL].
Qed.
