(** C12, round trip: the decoder model accepts exactly the Huffman representations
    ([accepts_iff], Proofs/HuffDec.v) and the encoder model produces one
    ([encoder_exact], [huff_enc_shape], Proofs/HuffEnc.v). *)
From Coq Require Import ZArith List Bool.
From HV Require Import Prelude.Py Prelude.State Spec.HuffmanCode Model.Data Model.HuffEnc Model.Decoder Model.Encoder.
From HV Require Import Proofs.HuffEnc Proofs.HuffDec.
Import ListNotations.
Open Scope Z_scope.

Lemma forallb_repeat_true p : forallb (fun b : bool => b) (repeat true p) = true.
Proof. induction p; cbn [repeat forallb andb]; auto. Qed.

Lemma encode_total : forall s, exists bs, huffman_encode_m s = Ok bs /\ HuffRep bs s.
Proof.
  intros s. destruct (encoder_exact huffman_coder s frozen_codes_cert) as (bs & E & V).
  exists bs. split; [exact E|].
  destruct (huff_enc_shape s bs V) as (p & Hp & Hb).
  exists (repeat true p). split; [exact Hb|]. split; [rewrite repeat_length; exact Hp|].
  apply forallb_repeat_true.
Qed.

Lemma huffman_round_trip : forall s bs, huffman_encode_m s = Ok bs -> decode_huffman_m bs = Ok s.
Proof.
  intros s bs E. destruct (encode_total s) as (bs' & E' & R).
  rewrite E in E'. injection E' as <-. apply accepts_iff. exact R.
Qed.
