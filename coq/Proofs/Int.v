(** C11: the model of hpack's prefix-integer codec (Model/Int.v) against the
    RFC 7541 section 5.1 specification (Spec/IntRep.v).
    Spec-only lemmas live in Proofs/IntSpec.v and are re-exported. *)
From Coq Require Import ZArith List Bool Lia ZifyBool Arith.
From Coq Require Import Init.Byte.
From HV Require Import Prelude.Py Spec.IntRep Model.Data Model.Int.
From HV Require Export Proofs.IntSpec.
Import ListNotations.
Open Scope Z_scope.

Local Ltac Zify.zify_post_hook ::= Z.to_euclidean_division_equations.

(** * bytes and octets *)
Lemma bz_range b : 0 <= bz b < 256.
Proof. unfold bz. pose proof (Byte.to_N_bounded b). lia. Qed.

Lemma Forall_octet_map_bz bs : Forall octet (map bz bs).
Proof. induction bs; constructor; [apply bz_range|assumption]. Qed.

Lemma zb_octet z : 0 <= z < 256 -> exists b, zb z = Some b /\ bz b = z.
Proof.
  intros H. unfold zb. destruct (z <? 0) eqn:E; [lia|].
  destruct (Byte.of_N (Z.to_N z)) as [b|] eqn:B.
  - exists b. split; [reflexivity|]. unfold bz. apply Byte.to_of_N in B. rewrite B. lia.
  - apply Byte.of_N_None_iff in B. lia.
Qed.

Lemma zb_bz b : zb (bz b) = Some b.
Proof.
  unfold zb, bz. destruct (Z.of_N (Byte.to_N b) <? 0) eqn:E; [lia|].
  rewrite N2Z.id. apply Byte.of_to_N.
Qed.

Lemma bytearray_of_octets l : Forall octet l -> exists bs, bytearray_of l = Ok bs /\ map bz bs = l.
Proof.
  induction 1 as [|z r Hz Hr (bs & Hb & Hm)].
  - exists []. split; reflexivity.
  - destruct (zb_octet z Hz) as (b & Hzb & Hbz).
    exists (b :: bs). cbn [bytearray_of]. rewrite Hzb, Hb. cbn [bind map]. rewrite Hbz, Hm.
    split; reflexivity.
Qed.

(** * sequence indexing *)
Lemma index_Z_mid {A} (pre : list A) x r : index_Z (pre ++ x :: r) (len pre) = Ok x.
Proof.
  unfold index_Z, len. destruct (Z.of_nat (length pre) <? 0) eqn:E; [lia|].
  cbv zeta. rewrite E. rewrite Nat2Z.id.
  rewrite nth_error_app2 by lia. rewrite Nat.sub_diag. reflexivity.
Qed.

Lemma index_Z_end {A} (pre : list A) : index_Z pre (len pre) = Err IndexError.
Proof.
  unfold index_Z, len. destruct (Z.of_nat (length pre) <? 0) eqn:E; [lia|].
  cbv zeta. rewrite E. rewrite Nat2Z.id.
  destruct (nth_error pre (length pre)) eqn:N; [|reflexivity].
  assert (nth_error pre (length pre) = None) by (apply nth_error_None; lia). congruence.
Qed.

Lemma index_Z_0_cons {A} (x : A) l : index_Z (x :: l) 0 = Ok x.
Proof. reflexivity. Qed.
Lemma index_Z_0_nil {A} : index_Z (@nil A) 0 = Err IndexError.
Proof. reflexivity. Qed.

(** * the two tables indexed by the prefix width *)
Ltac width_cases N H :=
  let C := fresh "C" in
  assert (C : N = 1 \/ N = 2 \/ N = 3 \/ N = 4 \/ N = 5 \/ N = 6 \/ N = 7 \/ N = 8) by lia;
  destruct C as [->|[->|[->|[->|[->|[->|[->| ->]]]]]]].

Lemma index_prefix N : 1 <= N <= 8 -> index_Z _PREFIX_BIT_MAX_NUMBERS N = Ok (pmax N).
Proof. intros H. width_cases N H; reflexivity. Qed.

Lemma prefix_mask N x : 1 <= N <= 8 -> Z.land x (Z.shiftr 255 (8 - N)) = x mod 2 ^ N.
Proof.
  intros H.
  width_cases N H;
    match goal with |- Z.land _ (Z.shiftr 255 (8 - ?k)) = _ =>
      change (Z.shiftr 255 (8 - k)) with (Z.ones k); apply Z.land_ones; lia end.
Qed.

Lemma width_test_ok N : 1 <= N <= 8 -> (N <? 1) || (N >? 8) = false.
Proof. intros H. lia. Qed.
Lemma width_test_bad N : N < 1 \/ 8 < N -> (N <? 1) || (N >? 8) = true.
Proof. intros H. lia. Qed.

(** * Encoder *)
Definition enc_body : Z * list Z -> ctl (Z * list Z) bytes :=
  fun '(integer, elements) =>
    if (integer >=? 128) then
      let elements := elements ++ [((Z.land (integer) (127)) + 128)] in
      let integer := (Z.shiftr (integer) (7)) in
      Next (integer, elements)
    else Break (integer, elements).

Lemma enc_body_eq m els :
  enc_body (m, els) =
  if m <? 128 then Break (m, els) else Next (m / 128, els ++ [m mod 128 + 128]).
Proof.
  unfold enc_body. cbv zeta.
  change 127 with (Z.ones 7). rewrite Z.land_ones by lia.
  rewrite Z.shiftr_div_pow2 by lia. change (2 ^ 7) with 128.
  destruct (m >=? 128) eqn:E, (m <? 128) eqn:E2; try lia; reflexivity.
Qed.

Lemma encode_integer_eq n N :
  encode_integer n N =
  if n <? 0 then (t1 <- py_format_d n ;; Err ValueError)
  else if (N <? 1) || (N >? 8) then (t2 <- py_format_d N ;; Err ValueError)
  else t3 <- index_Z _PREFIX_BIT_MAX_NUMBERS N ;;
       if n <? t3 then (t4 <- bytearray_of [n] ;; Ok t4)
       else match while_fuel (S (Z.to_nat (Z.log2_up (n - t3)))) enc_body (n - t3, [t3]) with
            | Done (integer, elements) => t5 <- bytearray_of (elements ++ [integer]) ;; Ok t5
            | Returned r_ _ => Ok r_
            | Raised e_ _ => Err e_
            | Exhausted _ => Err OutOfFuel
            end.
Proof. reflexivity. Qed.

Lemma enc_loop f : forall m els, 0 <= m < 128 ^ Z.of_nat (S f) ->
  exists x els', while_fuel (S f) enc_body (m, els) = Done (x, els') /\
                 els' ++ [x] = els ++ cont_enc_fuel f m.
Proof.
  induction f as [|f IH]; intros m els H.
  - change (128 ^ Z.of_nat 1) with 128 in H.
    exists m, els. cbn [while_fuel]. rewrite enc_body_eq.
    destruct (m <? 128) eqn:E; [|lia]. split; reflexivity.
  - rewrite pow128_S in H.
    change (while_fuel (S (S f)) enc_body (m, els))
      with (match enc_body (m, els) with
            | Next s' => while_fuel (S f) enc_body s'
            | Break s' => Done s'
            | Return r s' => Returned r s'
            | Raise e s' => Raised e s'
            end).
    rewrite enc_body_eq, cont_enc_fuel_step.
    destruct (m <? 128) eqn:E.
    + exists m, els. split; reflexivity.
    + destruct (IH (m / 128) (els ++ [m mod 128 + 128]) ltac:(lia)) as (x & els' & HW & HE).
      exists x, els'. split; [exact HW|]. rewrite HE, <- app_assoc. reflexivity.
Qed.

Lemma log2_up_bound m : 0 <= m -> m < 128 ^ Z.of_nat (S (Z.to_nat (Z.log2_up m))).
Proof.
  intros H. pose proof (Z.log2_up_nonneg m) as HL.
  replace (Z.of_nat (S (Z.to_nat (Z.log2_up m)))) with (Z.succ (Z.log2_up m)) by lia.
  destruct (Z_le_gt_dec m 1) as [L|G].
  - assert (128 <= 128 ^ Z.succ (Z.log2_up m)).
    { change 128 with (128 ^ 1) at 1. apply Z.pow_le_mono_r; lia. }
    lia.
  - pose proof (Z.log2_up_spec m ltac:(lia)) as [_ HS].
    pose proof (Z.pow_le_mono_l 2 128 (Z.log2_up m) ltac:(lia)).
    pose proof (Z.pow_le_mono_r 128 (Z.log2_up m) (Z.succ (Z.log2_up m)) ltac:(lia) ltac:(lia)).
    assert (0 < 128 ^ Z.log2_up m) by (apply Z.pow_pos_nonneg; lia).
    rewrite Z.pow_succ_r by lia. lia.
Qed.

Lemma enc_refuses : forall n N, n < 0 \/ N < 1 \/ 8 < N -> encode_integer n N = Err ValueError.
Proof.
  intros n N H. rewrite encode_integer_eq.
  destruct (n <? 0) eqn:E.
  - unfold py_format_d. destruct (10 ^ 4300 <=? Z.abs n); reflexivity.
  - rewrite width_test_bad by lia.
    unfold py_format_d. destruct (10 ^ 4300 <=? Z.abs N); reflexivity.
Qed.

Lemma enc_exact : forall n N, 0 <= n -> 1 <= N <= 8 ->
  exists bs, encode_integer n N = Ok bs /\ map bz bs = int_enc N n.
Proof.
  intros n N Hn HN. rewrite encode_integer_eq.
  destruct (n <? 0) eqn:E0; [lia|].
  rewrite (width_test_ok N HN), (index_prefix N HN). cbn [bind].
  pose proof (int_enc_octets N n HN Hn) as HO.
  unfold int_enc in *.
  destruct (n <? pmax N) eqn:E.
  - destruct (bytearray_of_octets _ HO) as (bs & Hb & Hm).
    exists bs. rewrite Hb. split; [reflexivity|exact Hm].
  - set (m := n - pmax N) in *.
    assert (Hm0 : 0 <= m) by lia.
    pose proof (log2_up_bound m Hm0) as HB.
    destruct (enc_loop _ m [pmax N] (conj Hm0 HB)) as (x & els' & HW & HE).
    rewrite HW. rewrite HE. rewrite cont_enc_fuel_eq by lia. cbn [app].
    destruct (bytearray_of_octets _ HO) as (bs & Hb & Hm).
    exists bs. rewrite Hb. split; [reflexivity|exact Hm].
Qed.

Lemma encode_integer_ok n N : 0 <= n -> 1 <= N <= 8 ->
  exists bs, encode_integer n N = Ok bs /\ map bz bs = int_enc N n /\ bs <> [].
Proof.
  intros Hn HN. destruct (enc_exact n N Hn HN) as (bs & Hb & Hm).
  exists bs. repeat split; try assumption.
  intros ->. symmetry in Hm. exact (int_enc_nonempty N n Hm).
Qed.

(** * Decoder *)
Definition dec_body (data : bytes) : Z * Z * Z -> ctl (Z * Z * Z) (Z * Z) :=
  fun '(index, shift, number) =>
    match index_Z data (index) with Err e_ => Raise e_ (index, shift, number) | Ok t4 =>
    let next_byte := (bz t4) in
    let index := (index + 1) in
    if (next_byte >=? 128)
    then if (shift >=? (7 * (_MAX_INTEGER_CONTINUATION_OCTETS - 1)))
    then let msg := tt in
    Raise HPACKDecodingError (index, shift, number)
    else let number := (number + (Z.shiftl ((next_byte - 128)) (shift))) in
    let shift := (shift + 7) in
    Next (index, shift, number)
    else let number := (number + (Z.shiftl (next_byte) (shift))) in
    Break (index, shift, number) end.

Definition dres (r : lres (Z * Z * Z) (Z * Z)) : outcome (Z * Z) :=
  match r with
  | Done (index, shift, number) => Ok (number, index)
  | Returned r_ _ => Ok r_
  | Raised e_ _ => Err e_
  | Exhausted _ => Err OutOfFuel
  end.

Lemma decode_integer_eq data N :
  decode_integer data N =
  if (N <? 1) || (N >? 8) then (t1 <- py_format_d N ;; Err ValueError)
  else t2 <- index_Z _PREFIX_BIT_MAX_NUMBERS N ;;
       '(number, index) <- catch IndexError HPACKDecodingError (
          t3 <- index_Z data 0 ;;
          let number := Z.land (bz t3) (Z.shiftr 255 (8 - N)) in
          if number =? t2
          then dres (while_fuel (length data) (dec_body data) (1, 0, number))
          else Ok (number, 1)) ;;
       Ok (number, index).
Proof. reflexivity. Qed.

Lemma dec_body_eq data i s n :
  dec_body data (i, s, n) =
  match index_Z data i with
  | Err e => Raise e (i, s, n)
  | Ok b =>
      if bz b <? 128 then Break (i + 1, s, n + Z.shiftl (bz b) s)
      else if s <? 133 then Next (i + 1, s + 7, n + Z.shiftl (bz b - 128) s)
           else Raise HPACKDecodingError (i + 1, s, n)
  end.
Proof.
  unfold dec_body. destruct (index_Z data i) as [b|e]; [|reflexivity].
  cbv zeta. change (7 * (_MAX_INTEGER_CONTINUATION_OCTETS - 1)) with 133.
  destruct (bz b >=? 128) eqn:E1, (bz b <? 128) eqn:E2; try lia; [|reflexivity].
  destruct (s >=? 133) eqn:E3, (s <? 133) eqn:E4; try lia; reflexivity.
Qed.

Lemma while_fuel_S {S R} f (body : S -> ctl S R) s :
  while_fuel (Datatypes.S f) body s =
  match body s with
  | Next s' => while_fuel f body s'
  | Break s' => Done s'
  | Return r s' => Returned r s'
  | Raise e s' => Raised e s'
  end.
Proof. reflexivity. Qed.

Lemma dec_loop : forall rest pre data j number fuel,
  data = pre ++ rest -> 0 <= j <= 19 -> (length rest < fuel)%nat ->
  catch IndexError HPACKDecodingError
    (dres (while_fuel fuel (dec_body data) (len pre, 7 * j, number))) =
  match cont_dec (map bz rest) with
  | Some (v, k) => if j + k <=? 20 then Ok (number + v * 2 ^ (7 * j), len pre + k)
                   else Err HPACKDecodingError
  | None => Err HPACKDecodingError
  end.
Proof.
  induction rest as [|b rest IH]; intros pre data j number fuel Hd Hj Hf;
    (destruct fuel as [|fuel]; [cbn [length] in Hf; lia|]); rewrite while_fuel_S, dec_body_eq; subst data.
  - rewrite app_nil_r, index_Z_end. reflexivity.
  - rewrite index_Z_mid. cbn [map cont_dec].
    pose proof (bz_range b) as Hb.
    destruct (bz b <? 128) eqn:E.
    + cbn [dres catch]. destruct (j + 1 <=? 20) eqn:E2; [|lia].
      rewrite Z.shiftl_mul_pow2 by lia. reflexivity.
    + destruct (7 * j <? 133) eqn:E3.
      * replace (len pre + 1) with (len (pre ++ [b])) by (rewrite len_app; reflexivity).
        replace (7 * j + 7) with (7 * (j + 1)) by lia.
        rewrite (IH (pre ++ [b]) _ (j + 1)); [| rewrite <- app_assoc; reflexivity | lia | cbn [length] in Hf; lia].
        destruct (cont_dec (map bz rest)) as [[v k]|]; [|reflexivity].
        replace (j + (k + 1)) with (j + 1 + k) by lia.
        destruct (j + 1 + k <=? 20); [|reflexivity].
        f_equal. f_equal.
        -- rewrite Z.shiftl_mul_pow2 by lia.
           replace (7 * (j + 1)) with (7 * j + 7) by lia.
           rewrite Z.pow_add_r by lia. change (2 ^ 7) with 128. ring.
        -- rewrite len_app. change (len [b]) with 1. lia.
      * cbn [dres catch exn_eqb].
        destruct (cont_dec (map bz rest)) as [[v k]|] eqn:D; [|reflexivity].
        destruct (cont_dec_within _ _ _ (Forall_octet_map_bz rest) D) as [Hk _].
        destruct (j + (k + 1) <=? 20) eqn:E4; [lia|reflexivity].
Qed.

Lemma dec_refuses : forall bs N, N < 1 \/ 8 < N -> decode_integer bs N = Err ValueError.
Proof.
  intros bs N H. rewrite decode_integer_eq, (width_test_bad N H).
  unfold py_format_d. destruct (10 ^ 4300 <=? Z.abs N); reflexivity.
Qed.

Lemma dec_total : forall bs N, 1 <= N <= 8 ->
  decode_integer bs N =
    match int_dec N (map bz bs) with
    | Some (n, k) => if k - 1 <=? 20 then Ok (n, k) else Err HPACKDecodingError
    | None => Err HPACKDecodingError
    end.
Proof.
  intros bs N HN. rewrite decode_integer_eq, (width_test_ok N HN), (index_prefix N HN).
  cbn [bind]. destruct bs as [|b0 rest].
  - rewrite index_Z_0_nil. reflexivity.
  - rewrite index_Z_0_cons. cbn [bind map int_dec]. cbv zeta.
    rewrite (prefix_mask N (bz b0) HN).
    pose proof (prefix_mod_range (bz b0) N ltac:(lia)) as HM.
    revert HM. generalize (bz b0 mod 2 ^ N). intros v HM.
    destruct (v =? pmax N) eqn:E, (v <? pmax N) eqn:E2; try lia.
    + pose proof (dec_loop rest [b0] (b0 :: rest) 0 v (length (b0 :: rest)) eq_refl ltac:(lia)
                    ltac:(cbn [length]; lia)) as L.
      change (len [b0]) with 1 in L. change (7 * 0) with 0 in L. rewrite L.
      destruct (cont_dec (map bz rest)) as [[m k]|]; [|reflexivity].
      replace (k + 1 - 1) with (0 + k) by lia.
      destruct (0 + k <=? 20); [|reflexivity].
      cbn [bind]. f_equal. f_equal; lia.
    + reflexivity.
Qed.

(** * Round trip *)
Lemma round_trip : forall n N bs b0 rest b0' tl,
  0 <= n -> 1 <= N <= 8 -> n - pmax N < 128 ^ 20 ->
  encode_integer n N = Ok bs -> bs = b0 :: rest ->
  bz b0' mod 2 ^ N = bz b0 ->
  decode_integer (b0' :: rest ++ tl) N = Ok (n, len bs).
Proof.
  intros n N bs b0 rest b0' tl Hn HN Hm He Hbs Hb.
  destruct (enc_exact n N Hn HN) as (bs' & He' & Hmap).
  assert (bs' = bs) by congruence. subst bs'. subst bs.
  rewrite (dec_total _ N HN). cbn [map] in *. rewrite map_app.
  rewrite (int_dec_enc_app_gen N n (bz b0) (map bz rest) (bz b0') (map bz tl) HN Hn (eq_sym Hmap) Hb).
  pose proof (int_enc_length_20 N n HN Hn Hm) as HL.
  destruct (len (int_enc N n) - 1 <=? 20) eqn:E; [|lia].
  rewrite <- Hmap. change (bz b0 :: map bz rest) with (map bz (b0 :: rest)). rewrite len_map.
  reflexivity.
Qed.

Lemma round_trip_64 : forall n N bs b0 rest b0' tl,
  0 <= n < 2 ^ 64 -> 1 <= N <= 8 ->
  encode_integer n N = Ok bs -> bs = b0 :: rest ->
  bz b0' mod 2 ^ N = bz b0 ->
  decode_integer (b0' :: rest ++ tl) N = Ok (n, len bs).
Proof.
  intros n N bs b0 rest b0' tl Hn HN. apply round_trip; try lia.
  pose proof (pmax_range N HN). assert (2 ^ 64 < 128 ^ 20) by reflexivity. lia.
Qed.

(** * Corollaries used by later proofs *)
Lemma decode_integer_consumed bs N n k : 1 <= N <= 8 ->
  decode_integer bs N = Ok (n, k) -> 1 <= k <= len bs /\ 0 <= n.
Proof.
  intros HN H. rewrite (dec_total bs N HN) in H.
  destruct (int_dec N (map bz bs)) as [[n' k']|] eqn:D; [|discriminate].
  destruct (k' - 1 <=? 20); [|discriminate].
  injection H as <- <-.
  rewrite <- (len_map bz bs). exact (dec_within N _ _ _ HN (Forall_octet_map_bz bs) D).
Qed.

Lemma decode_integer_errors bs N e : 1 <= N <= 8 ->
  decode_integer bs N = Err e -> e = HPACKDecodingError.
Proof.
  intros HN H. rewrite (dec_total bs N HN) in H.
  destruct (int_dec N (map bz bs)) as [[n' k']|]; [|congruence].
  destruct (k' - 1 <=? 20); congruence.
Qed.

Lemma decode_integer_spec bs N n k : 1 <= N <= 8 ->
  decode_integer bs N = Ok (n, k) -> int_dec N (map bz bs) = Some (n, k) /\ k <= 21.
Proof.
  intros HN H. rewrite (dec_total bs N HN) in H.
  destruct (int_dec N (map bz bs)) as [[n' k']|] eqn:D; [|discriminate].
  destruct (k' - 1 <=? 20) eqn:E; [|discriminate].
  injection H as <- <-. split; [reflexivity|lia].
Qed.

Lemma decode_integer_bound bs N n k : 1 <= N <= 8 ->
  decode_integer bs N = Ok (n, k) -> n < 2 ^ 141.
Proof.
  intros HN H. destruct (decode_integer_spec bs N n k HN H) as [D Hk].
  pose proof (dec_bound N _ _ _ HN (Forall_octet_map_bz bs) D) as HB.
  pose proof (dec_within N _ _ _ HN (Forall_octet_map_bz bs) D) as [Hk1 _].
  pose proof (pmax_range N HN) as HP.
  pose proof (Z.pow_le_mono_r 128 (k - 1) 20 ltac:(lia) ltac:(lia)) as HQ.
  assert (255 + 128 ^ 20 < 2 ^ 141) by reflexivity. lia.
Qed.

Lemma decode_integer_format_ok bs N n k : 1 <= N <= 8 ->
  decode_integer bs N = Ok (n, k) -> py_format_d n = Ok tt.
Proof.
  intros HN H. pose proof (decode_integer_bound bs N n k HN H) as HB.
  destruct (decode_integer_consumed bs N n k HN H) as [_ Hn].
  unfold py_format_d. destruct (10 ^ 4300 <=? Z.abs n) eqn:E; [|reflexivity].
  exfalso. apply Z.leb_le in E. rewrite Z.abs_eq in E by exact Hn.
  assert (L : 2 ^ 141 <= 10 ^ 4300).
  { apply Z.le_trans with (10 ^ 141).
    - apply Z.pow_le_mono_l. split; [discriminate|discriminate].
    - apply Z.pow_le_mono_r; [reflexivity|discriminate]. }
  apply (Z.lt_irrefl n). eapply Z.lt_le_trans; [exact HB|].
  eapply Z.le_trans; [exact L|exact E].
Qed.
