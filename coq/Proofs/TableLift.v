(** C06, lifted: the table invariant [TInv] holds after ANY history of Encoder / Decoder
    operations, including the operations that raise (the state after an exception is the
    second component of the result pair). *)
From Coq Require Import ZArith List Bool Lia ZifyBool.
From Coq Require Import Init.Byte.
From HV Require Import Prelude.Py Prelude.State Spec.DynTable.
From HV Require Import Model.Data Model.Int Model.Table Model.Decoder Model.Encoder.
From HV Require Import Proofs.Table.
Import ListNotations.
Open Scope Z_scope.

(** * Generic: invariants of the state through binds and loops *)
Definition ctl_st {S R} (c : ctl S R) : S :=
  match c with Next s | Break s | Return _ s | Raise _ s => s end.
Definition lres_st {S R} (r : lres S R) : S :=
  match r with Done s | Returned _ s | Raised _ s | Exhausted s => s end.

Lemma mbind_inv {S A B} (P : S -> Prop) (m : outcome A) (s : S) (f : A -> outcome B * S) :
  P s -> (forall a, P (snd (f a))) -> P (snd (mbind m s f)).
Proof. intros Hs Hf. destruct m as [a|e]; cbn [mbind snd]; [apply Hf|exact Hs]. Qed.

Lemma sbind_inv {S A B} (P : S -> Prop) (m : outcome A * S) (f : A -> S -> outcome B * S) :
  P (snd m) -> (forall a s, P s -> P (snd (f a s))) -> P (snd (sbind m f)).
Proof.
  intros Hm Hf. destruct m as [[a|e] s]; cbn [sbind snd] in *; [apply Hf; exact Hm|exact Hm].
Qed.

Lemma while_fuel_inv {S R} (P : S -> Prop) (body : S -> ctl S R) :
  (forall s, P s -> P (ctl_st (body s))) ->
  forall fuel s, P s -> P (lres_st (while_fuel fuel body s)).
Proof.
  intros Hb. induction fuel as [|fuel IH]; intros s Hs; cbn [while_fuel]; [exact Hs|].
  specialize (Hb s Hs). destruct (body s) as [s'|s'|r s'|e s']; cbn [ctl_st lres_st] in *.
  - apply IH. exact Hb.
  - exact Hb.
  - exact Hb.
  - exact Hb.
Qed.

Lemma for_each_inv {A S R} (P : S -> Prop) (body : A -> S -> ctl S R) :
  (forall x s, P s -> P (ctl_st (body x s))) ->
  forall xs s, P s -> P (lres_st (for_each xs body s)).
Proof.
  intros Hb. induction xs as [|x xs IH]; intros s Hs; cbn [for_each]; [exact Hs|].
  specialize (Hb x s Hs). destruct (body x s) as [s'|s'|r s'|e s']; cbn [ctl_st lres_st] in *.
  - apply IH. exact Hb.
  - exact Hb.
  - exact Hb.
  - exact Hb.
Qed.

(** * The three ways a table changes *)
Lemma TInv_add t n v : TInv t -> TInv (snd (HeaderTable_add t n v)).
Proof.
  intros H. destruct (add_spec t n v H) as [t' [E [_ [_ [_ I]]]]]. rewrite E. exact I.
Qed.

Lemma TInv_set_maxsize t m : TInv t -> TInv (snd (HeaderTable_set_maxsize t m)).
Proof.
  intros H. destruct (set_maxsize_spec t m H) as [t' [E [_ [_ [_ I]]]]]. rewrite E. exact I.
Qed.

Lemma TInv_set_resized t b : TInv t -> TInv (set_resized b t).
Proof. intros H. exact H. Qed.

(** * Encoder *)
Definition PE (e : encoder) : Prop := TInv e.(e_tab).

Lemma Encoder_set_size_TInv self v : PE self -> PE (snd (Encoder_set_header_table_size self v)).
Proof.
  unfold PE. intros H. unfold Encoder_set_header_table_size.
  pose proof (TInv_set_maxsize (e_tab self) v H) as HS.
  destruct (HeaderTable_set_maxsize (e_tab self) v) as [[u|e] tab]; cbn [snd] in HS.
  - cbn [e_tab set_e_tab]. destruct (resized tab); cbn [snd e_tab set_e_changes set_e_tab]; exact HS.
  - cbn [snd e_tab set_e_tab]. exact HS.
Qed.

Lemma lift_add_TInv {B} self n v (k : unit -> encoder -> outcome B * encoder) :
  PE self -> (forall a s, PE s -> PE (snd (k a s))) ->
  PE (snd (sbind (lift_tab self (HeaderTable_add (e_tab self) n v)) k)).
Proof.
  intros H Hk. apply (sbind_inv PE); [|exact Hk].
  unfold lift_tab, PE. cbn [snd e_tab set_e_tab]. apply TInv_add. exact H.
Qed.

Lemma Encoder_add_TInv self name value sensitive huffman :
  PE self -> PE (snd (Encoder_add self name value sensitive huffman)).
Proof.
  intros H. unfold Encoder_add.
  apply (mbind_inv PE); [exact H|]. intros [[[index nm] [pv|]]|].
  - cbn [snd]. exact H.
  - apply (mbind_inv PE); [exact H|]. intros encoded.
    destruct (negb sensitive); [|exact H].
    apply lift_add_TInv; [exact H|]. intros _ s Hs. exact Hs.
  - apply (mbind_inv PE); [exact H|]. intros encoded.
    destruct (negb sensitive); [|exact H].
    apply lift_add_TInv; [exact H|]. intros _ s Hs. exact Hs.
Qed.

Lemma encode_fields_TInv headers huffman : forall self block,
  PE self -> PE (fst (lres_st (encode_fields self headers huffman block))).
Proof.
  intros self block H. unfold encode_fields.
  apply (for_each_inv (fun st : encoder * list bytes => PE (fst st))); [|exact H].
  intros [[name value] sensitive] [s blk] Hs. cbn [fst] in Hs.
  pose proof (Encoder_add_TInv s name value sensitive huffman Hs) as HA.
  destruct (Encoder_add s name value sensitive huffman) as [[b|e] s']; cbn [snd] in HA;
    cbn [ctl_st fst]; exact HA.
Qed.

Lemma Encoder_encode_TInv self headers huffman :
  PE self -> PE (snd (Encoder_encode self headers huffman)).
Proof.
  intros H. unfold Encoder_encode.
  apply (sbind_inv PE).
  - destruct (resized (e_tab self)); [|exact H].
    apply (sbind_inv PE).
    + unfold Encoder__encode_table_size_change.
      apply (mbind_inv PE); [exact H|]. intros block. exact H.
    + intros b s Hs. exact Hs.
  - intros block s Hs.
    pose proof (encode_fields_TInv headers huffman s block Hs) as HF.
    destruct (encode_fields s headers huffman block) as [[s' b']|r [s' b']|e [s' b']|[s' b']];
      cbn [lres_st fst snd] in *; exact HF.
Qed.

Lemma estep_TInv self o : PE self -> PE (snd (estep self o)).
Proof.
  intros H. destruct o as [v|hs h]; cbn [estep].
  - pose proof (Encoder_set_size_TInv self v H) as HS.
    destruct (Encoder_set_header_table_size self v) as [[u|e] s]; exact HS.
  - apply Encoder_encode_TInv. exact H.
Qed.

Lemma erun_TInv : forall ops e, PE e -> PE (erun ops e).
Proof.
  unfold erun. induction ops as [|o ops IH]; intros e H; cbn [fold_left]; [exact H|].
  apply IH. apply estep_TInv. exact H.
Qed.

Theorem encoder_TInv : forall ops, TInv (erun ops Encoder_init).(e_tab).
Proof. intros ops. apply erun_TInv. exact TInv_init. Qed.

(** * Decoder *)
Definition PD (d : decoder) : Prop := TInv d.(d_tab).

Lemma Decoder_set_size_TInv self v : PD self -> PD (snd (Decoder_set_header_table_size self v)).
Proof.
  unfold PD. intros H. unfold Decoder_set_header_table_size.
  pose proof (TInv_set_maxsize (d_tab self) v H) as HS.
  destruct (HeaderTable_set_maxsize (d_tab self) v) as [r tab]. exact HS.
Qed.

Lemma update_encoding_context_TInv self data :
  PD self -> PD (snd (Decoder__update_encoding_context self data)).
Proof.
  intros H. unfold Decoder__update_encoding_context.
  apply (mbind_inv PD); [exact H|]. intros [new_size consumed].
  destruct (new_size >? d_max_allowed self); [exact H|].
  apply (sbind_inv PD).
  - apply Decoder_set_size_TInv. exact H.
  - intros _ s Hs. exact Hs.
Qed.

Lemma decode_literal_TInv self data should_index :
  PD self -> PD (snd (Decoder__decode_literal self data should_index)).
Proof.
  intros H. unfold Decoder__decode_literal.
  apply (mbind_inv PD); [exact H|]. intros t0.
  destruct should_index; cbv beta iota zeta.
  - apply (mbind_inv PD); [exact H|]. intros [[[[name tc] data'] consumed] length].
    apply (mbind_inv PD); [exact H|]. intros [[value length'] consumed'].
    pose proof (TInv_add (d_tab self) name value H) as HA.
    destruct (HeaderTable_add (d_tab self) name value) as [[u|e] tab]; exact HA.
  - apply (mbind_inv PD); [exact H|]. intros [[[[name tc] data'] consumed] length].
    apply (mbind_inv PD); [exact H|]. intros [[value length'] consumed']. exact H.
Qed.

Definition PS (st : dstate) : Prop := PD (fst (fst (fst st))).

Lemma decode_tail_TInv self headers inflated_size current_index (r : outcome (option header * Z)) :
  PD self ->
  PS (ctl_st (R := list header)
    match r with
    | Err e => Raise e (self, headers, inflated_size, current_index)
    | Ok (Some h, consumed) =>
        let headers := headers ++ [h] in
        let inflated_size := inflated_size + table_entry_size (h_name h) (h_value h) in
        if inflated_size >? self.(d_max_list)
        then match py_format_d self.(d_max_list) with
             | Err e => Raise e (self, headers, inflated_size, current_index)
             | Ok _ => Raise OversizedHeaderListError (self, headers, inflated_size, current_index)
             end
        else Next (self, headers, inflated_size, current_index + consumed)
    | Ok (None, consumed) => Next (self, headers, inflated_size, current_index + consumed)
    end).
Proof.
  intros H. destruct r as [[[h|] consumed]|e]; cbv zeta; [|exact H|exact H].
  destruct (_ >? _); [|exact H].
  destruct (py_format_d _); exact H.
Qed.

Lemma decode_body_TInv data data_len st : PS st -> PS (ctl_st (decode_body data data_len st)).
Proof.
  destruct st as [[[self headers] inflated_size] current_index]. intros H.
  change (PD self) in H. unfold decode_body.
  destruct (current_index <? data_len); [|exact H].
  destruct (index_Z data current_index) as [t|e]; [|exact H].
  cbv zeta.
  destruct (truthy (Z.land (bz t) 128)).
  { destruct (Decoder__decode_indexed self (slice_from data current_index)) as [[h c]|e].
    - exact (decode_tail_TInv self headers inflated_size current_index (Ok (Some h, c)) H).
    - exact H. }
  destruct (truthy (Z.land (bz t) 64)).
  { unfold Decoder__decode_literal_index.
    pose proof (decode_literal_TInv self (slice_from data current_index) true H) as HL.
    destruct (Decoder__decode_literal self (slice_from data current_index) true) as [[[h c]|e] s'];
      cbn [snd] in HL.
    - exact (decode_tail_TInv s' headers inflated_size current_index (Ok (Some h, c)) HL).
    - exact HL. }
  destruct (truthy (Z.land (bz t) 32)).
  { destruct (negb (len headers =? 0)).
    { cbv beta iota. exact H. }
    pose proof (update_encoding_context_TInv self (slice_from data current_index) H) as HL.
    destruct (Decoder__update_encoding_context self (slice_from data current_index)) as [[c|e] s'];
      cbn [snd] in HL; cbv beta iota; exact HL. }
  unfold Decoder__decode_literal_no_index.
  pose proof (decode_literal_TInv self (slice_from data current_index) false H) as HL.
  destruct (Decoder__decode_literal self (slice_from data current_index) false) as [[[h c]|e] s'];
    cbn [snd] in HL.
  - exact (decode_tail_TInv s' headers inflated_size current_index (Ok (Some h, c)) HL).
  - exact HL.
Qed.

Lemma Decoder_decode_TInv self data raw : PD self -> PD (snd (Decoder_decode self data raw)).
Proof.
  intros H. unfold Decoder_decode.
  pose proof (while_fuel_inv PS (decode_body data (len data)) (decode_body_TInv data (len data))
                (S (length data)) (self, [], 0, 0) H) as W.
  destruct (while_fuel (S (length data)) (decode_body data (len data)) (self, [], 0, 0))
    as [[[[s hs] i] c]|r [[[s hs] i] c]|e [[[s hs] i] c]|[[[s hs] i] c]];
    cbn [lres_st] in W; change (PD s) in W; try exact W.
  apply (mbind_inv PD); [exact W|]. intros _. exact W.
Qed.

Lemma dstep_TInv self o : PD self -> PD (snd (dstep self o)).
Proof.
  intros H. destruct o as [v|v|v|data raw]; cbn [dstep].
  - exact H.
  - pose proof (Decoder_set_size_TInv self v H) as HS.
    destruct (Decoder_set_header_table_size self v) as [[u|e] s]; exact HS.
  - exact H.
  - apply Decoder_decode_TInv. exact H.
Qed.

Lemma drun_TInv : forall ops d, PD d -> PD (drun ops d).
Proof.
  unfold drun. induction ops as [|o ops IH]; intros d H; cbn [fold_left]; [exact H|].
  apply IH. apply dstep_TInv. exact H.
Qed.

Theorem decoder_TInv : forall ops L, TInv (drun ops (Decoder_init L)).(d_tab).
Proof. intros ops L. apply drun_TInv. exact TInv_init. Qed.
