(** Glue between the refinement theorem (Proofs/DecoderRefine.v: the model of Decoder.decode
    computes the sequential RFC decoder) and the meaning theorem (Proofs/SpecDecoder.v: the
    sequential RFC decoder returns the declarative meaning of every wire form). *)
From Coq Require Import ZArith List Bool Lia.
From HV Require Import Prelude.Py Prelude.State Prelude.Utf8 Spec.DynTable Spec.SDecoder.
From HV Require Import Model.Data Model.Decoder Model.Rel.
From HV Require Import Proofs.SpecDecoder Proofs.DecoderRefine.
Import ListNotations.
Open Scope Z_scope.

Lemma KLIM_nonneg : 0 <= KLIM.
Proof. unfold KLIM. lia. Qed.

(** the Decoder (raw mode) on any wire form of a well-formed sequence of representations
    returns exactly its meaning *)
Theorem wellformed_decodes : forall d rs w fs c', dec_ok d ->
  wire_block KLIM rs w -> sem (ctx_of d) rs [] = Some (fs, c') ->
  exists hs d', Decoder_decode d w true = (Ok hs, d') /\ map conv hs = fs /\ ctx_of d' = c' /\ dec_ok d'.
Proof.
  intros d rs w fs c' Hd Hw Hs.
  destruct (wire_meaning KLIM (ctx_of d) rs w fs c' KLIM_nonneg Hw Hs) as [M _].
  pose proof (decode_refines d w true Hd) as R. change (negb true) with false in R.
  destruct (Decoder_decode d w true) as [[hs|e] d'].
  - destruct R as [R Hd']. rewrite M in R. inversion R as [[E1 E2]].
    exists hs, d'. split; [reflexivity|]. split; [reflexivity|]. split; [reflexivity|exact Hd'].
  - destruct R as (cl & R & _). rewrite M in R. discriminate.
Qed.

(** the only latitude: a larger integer-length limit changes nothing except turning some
    "malformed" verdicts (over-long integers) into something else *)
Theorem limit_latitude : forall K c data t r, KLIM <= K ->
  (decode KLIM c data t = SOk r -> decode K c data t = SOk r) /\
  (forall e, decode KLIM c data t = SErr e -> e <> Malformed -> decode K c data t = SErr e).
Proof. intros K c data t r H. apply limit_latitude_gen. exact H. Qed.
