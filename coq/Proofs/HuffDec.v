(** The nibble-driven Huffman decoding FSM (Model/HuffDec.v) computes exactly the reference
    decoder of Spec/HuffmanCode.v, for every transition table that passes the boolean
    certificate [fsm_cert]; the frozen table passes it.

    Architecture.  A bit-level reference automaton [run_bits] keeps the bits read since the
    last symbol boundary; it is defined from the Appendix B codes only.  The certificate
    reconstructs, from the table alone, the bit prefix [fsm_path s] each FSM state [s] stands
    for (an untrusted exploration, [find_paths]) and then checks all 256 x 16 entries
    against four steps of the reference automaton.  The simulation proof needs only
    soundness facts about the reference automaton, because everything else is re-checked
    by the certificate at each nibble boundary. *)
From Coq Require Import ZArith List Bool Lia ZifyBool ZifyNat Arith.
From Coq Require Import Init.Byte.
From HV Require Import Prelude.Py Spec.HuffmanCode Model.Data Model.HuffDec Model.Decoder.
From HV Require Import Proofs.HuffSpec.
Import ListNotations.
Open Scope Z_scope.

#[local] Arguments hcode_Z : simpl never.
#[local] Arguments hcode : simpl never.
#[local] Arguments eos_bits : simpl never.
#[local] Arguments all_bytes : simpl never.
#[local] Arguments appendix_b : simpl never.
#[local] Arguments HUFFMAN_TABLE : simpl never.

(** * The reference automaton *)
Definition hcodes : list (list bool) := map code_bits appendix_b.

Fixpoint bits_eqb (a b : list bool) : bool :=
  match a, b with
  | [], [] => true
  | x :: a', y :: b' => Bool.eqb x y && bits_eqb a' b'
  | _, _ => false
  end.

Lemma bits_eqb_eq : forall a b, bits_eqb a b = true -> a = b.
Proof.
  induction a as [|x a IH]; intros [|y b] H; cbn [bits_eqb] in H; try discriminate H; [reflexivity|].
  apply andb_true_iff in H. destruct H as [H1 H2]. apply Bool.eqb_prop in H1. subst y.
  f_equal. apply IH. exact H2.
Qed.

(** position of [p] in the code list, if it is a code *)
Fixpoint code_lookup (cs : list (list bool)) (i : Z) (p : list bool) : option Z :=
  match cs with
  | [] => None
  | c :: r => if bits_eqb c p then Some i else code_lookup r (i + 1) p
  end.

Lemma code_lookup_sound : forall cs i p k, code_lookup cs i p = Some k ->
  i <= k < i + Z.of_nat (length cs) /\ nth (Z.to_nat (k - i)) cs [] = p.
Proof.
  induction cs as [|c cs IH]; intros i p k H; cbn [code_lookup] in H; [discriminate H|].
  destruct (bits_eqb c p) eqn:E.
  - injection H as <-. apply bits_eqb_eq in E. cbn [length]. split; [lia|].
    rewrite Z.sub_diag. exact E.
  - apply IH in H. destruct H as [H1 H2]. cbn [length]. split; [lia|].
    replace (Z.to_nat (k - i)) with (S (Z.to_nat (k - (i + 1)))) by lia. exact H2.
Qed.

Lemma hcodes_length : length hcodes = 257%nat.
Proof. unfold hcodes. rewrite map_length. apply appendix_b_length. Qed.

Lemma hcode_Z_nth : forall k, hcode_Z k = nth (Z.to_nat k) hcodes [].
Proof.
  intros k. unfold hcode_Z, hcodes. change (@nil bool) with (code_bits (0, 0)).
  rewrite map_nth. reflexivity.
Qed.

Lemma code_lookup_hcodes : forall p k, code_lookup hcodes 0 p = Some k -> 0 <= k <= 256 /\ hcode_Z k = p.
Proof.
  intros p k H. apply code_lookup_sound in H. rewrite hcodes_length in H. destruct H as [H1 H2].
  split; [lia|]. rewrite hcode_Z_nth. rewrite Z.sub_0_r in H2. exact H2.
Qed.

(** result of feeding some bits: a second symbol / a symbol before EOS (never within one
    nibble), EOS completed, or at most one symbol emitted and a new prefix *)
Inductive rres := RBad | RFail | ROk (em : option Z) (p : list bool).

Fixpoint run_bits (cs : list (list bool)) (p : list bool) (em : option Z) (l : list bool) : rres :=
  match l with
  | [] => ROk em p
  | b :: r =>
      let p' := p ++ [b] in
      match code_lookup cs 0 p' with
      | Some k =>
          match em with
          | Some _ => RBad
          | None => if k =? 256 then RFail else run_bits cs [] (Some k) r
          end
      | None => run_bits cs p' em r
      end
  end.

Lemma run_bits_some : forall l p k0,
  match run_bits hcodes p (Some k0) l with
  | RBad => True
  | RFail => False
  | ROk em p' => em = Some k0 /\ p' = p ++ l
  end.
Proof.
  induction l as [|b r IH]; intros p k0; cbn [run_bits].
  - split; [reflexivity|symmetry; apply app_nil_r].
  - destruct (code_lookup hcodes 0 (p ++ [b])) as [k|]; [exact I|].
    specialize (IH (p ++ [b]) k0). rewrite <- app_assoc in IH. exact IH.
Qed.

Lemma run_bits_none : forall l p,
  match run_bits hcodes p None l with
  | RBad => True
  | RFail => exists rest, p ++ l = eos_bits ++ rest
  | ROk None p' => p' = p ++ l
  | ROk (Some k) p' => 0 <= k < 256 /\ p ++ l = hcode_Z k ++ p'
  end.
Proof.
  induction l as [|b r IH]; intros p; cbn [run_bits].
  - symmetry; apply app_nil_r.
  - destruct (code_lookup hcodes 0 (p ++ [b])) as [k|] eqn:Lk.
    + apply code_lookup_hcodes in Lk. destruct Lk as [Hk Hc].
      replace (p ++ b :: r) with ((p ++ [b]) ++ r) by (rewrite <- app_assoc; reflexivity).
      destruct (k =? 256) eqn:E.
      * exists r. unfold eos_bits. replace 256 with k by lia. rewrite Hc. reflexivity.
      * pose proof (run_bits_some r [] k) as S.
        destruct (run_bits hcodes [] (Some k) r) as [| |em p']; [exact I|destruct S|].
        destruct S as [-> ->]. split; [lia|]. rewrite Hc. reflexivity.
    + specialize (IH (p ++ [b])). rewrite <- app_assoc in IH. exact IH.
Qed.

(** * The certificate *)
Definition fsm_path (paths : list (list bool)) (s : Z) : list bool := nth (Z.to_nat s) paths [].

Definition proper_prefix (cs : list (list bool)) (p : list bool) : bool :=
  existsb (fun c => match strip_prefix p c with Some (_ :: _) => true | _ => false end) cs.

Definition entry_ok (cs paths : list (list bool)) (tbl : list (Z * Z * Z)) (C E F s x : Z) : bool :=
  match nth_error tbl (Z.to_nat (s * 16 + x)) with
  | None => false
  | Some (s', f, sym) =>
      match run_bits cs (fsm_path paths s) None (bits_msb 4 x) with
      | RBad => false
      | RFail => truthy (Z.land f F)
      | ROk em p' =>
          negb (truthy (Z.land f F)) && (0 <=? s') && (s' <? 256)
          && bits_eqb (fsm_path paths s') p'
          && Bool.eqb (truthy (Z.land f C)) (short_ones p')
          && match em with
             | None => negb (truthy (Z.land f E))
             | Some k => truthy (Z.land f E) && (sym =? k)
             end
      end
  end.

Definition cert_with (cs paths : list (list bool)) (tbl : list (Z * Z * Z)) (C E F : Z) : bool :=
  bits_eqb (fsm_path paths 0) []
  && forallb (fun s => proper_prefix cs (fsm_path paths s)) (zrange 256)
  && forallb (fun s => forallb (fun x => entry_ok cs paths tbl C E F s x) (zrange 16)) (zrange 256).

(** Untrusted: reconstruct the prefix of every state by exploring the table from state 0. *)
Fixpoint set_nth {A} (n : nat) (v : A) (l : list A) : list A :=
  match l, n with
  | [], _ => []
  | _ :: r, O => v :: r
  | a :: r, S n' => a :: set_nth n' v r
  end.

Definition explore_state (cs : list (list bool)) (tbl : list (Z * Z * Z)) (s : Z) (p : list bool)
    (acc : list Z * list (option (list bool))) : list Z * list (option (list bool)) :=
  fold_left (fun acc x =>
    match nth_error tbl (Z.to_nat (s * 16 + x)) with
    | None => acc
    | Some (s', _, _) =>
        match run_bits cs p None (bits_msb 4 x) with
        | ROk _ p' =>
            if (0 <=? s') && (s' <? 256) then
              match nth (Z.to_nat s') (snd acc) None with
              | None => (s' :: fst acc, set_nth (Z.to_nat s') (Some p') (snd acc))
              | Some _ => acc
              end
            else acc
        | _ => acc
        end
    end) (zrange 16) acc.

Fixpoint explore (cs : list (list bool)) (tbl : list (Z * Z * Z)) (fuel : nat) (work : list Z)
    (ps : list (option (list bool))) : list (option (list bool)) :=
  match fuel with
  | O => ps
  | S f =>
      match work with
      | [] => ps
      | s :: w =>
          match nth (Z.to_nat s) ps None with
          | None => explore cs tbl f w ps
          | Some p => let acc := explore_state cs tbl s p (w, ps) in explore cs tbl f (fst acc) (snd acc)
          end
      end
  end.

Definition find_paths (cs : list (list bool)) (tbl : list (Z * Z * Z)) : list (list bool) :=
  map (fun o => match o with Some p => p | None => [] end)
      (explore cs tbl 300 [0] (Some [] :: repeat None 255)).

Definition fsm_cert_with (cs : list (list bool)) (tbl : list (Z * Z * Z)) (C E F : Z) : bool :=
  cert_with cs (find_paths cs tbl) tbl C E F.

(** THE certificate: a function of the table and the three flag constants only. *)
Definition fsm_cert (tbl : list (Z * Z * Z)) (C E F : Z) : bool := fsm_cert_with hcodes tbl C E F.

Lemma frozen_table_cert :
  fsm_cert HUFFMAN_TABLE HUFFMAN_COMPLETE HUFFMAN_EMIT_SYMBOL HUFFMAN_FAIL = true.
Proof. vm_cast_no_check (eq_refl true). Qed.

(** * The model, restated *)
(** the loop body of Model/HuffDec.v, verbatim *)
Definition hbody (HUFFMAN_TABLE : list (Z * Z * Z)) (HUFFMAN_COMPLETE HUFFMAN_EMIT_SYMBOL HUFFMAN_FAIL : Z)
  : byte -> Z * Z * bytes -> ctl (Z * Z * bytes) bytes :=
(fun input_byte_b '(state, flags, decoded_bytes) =>
let input_byte := bz input_byte_b in
let index := ((state * 16) + (Z.shiftr (input_byte) (4))) in
match index_Z HUFFMAN_TABLE (index) with Err e_ => Raise e_ (state, flags, decoded_bytes) | Ok t1 =>
let '(state, flags, output_byte) := t1 in
if (truthy (Z.land (flags) (HUFFMAN_FAIL)))
then let msg := tt in
Raise HPACKDecodingError (state, flags, decoded_bytes)
else let k2_ := fun decoded_bytes =>
let index := ((state * 16) + (Z.land (input_byte) (15))) in
match index_Z HUFFMAN_TABLE (index) with Err e_ => Raise e_ (state, flags, decoded_bytes) | Ok t3 =>
let '(state, flags, output_byte) := t3 in
if (truthy (Z.land (flags) (HUFFMAN_FAIL)))
then let msg := tt in
Raise HPACKDecodingError (state, flags, decoded_bytes)
else if (truthy (Z.land (flags) (HUFFMAN_EMIT_SYMBOL)))
then match append_byte decoded_bytes (output_byte) with Err e_ => Raise e_ (state, flags, decoded_bytes) | Ok decoded_bytes =>
Next (state, flags, decoded_bytes) end
else Next (state, flags, decoded_bytes) end in
if (truthy (Z.land (flags) (HUFFMAN_EMIT_SYMBOL)))
then match append_byte decoded_bytes (output_byte) with Err e_ => Raise e_ (state, flags, decoded_bytes) | Ok decoded_bytes =>
k2_ decoded_bytes end
else k2_ decoded_bytes end).

Lemma decode_huffman_eq : forall tbl C E F bs,
  decode_huffman tbl C E F bs =
  if len bs =? 0 then Ok []
  else match for_each bs (hbody tbl C E F) (0, 0, []) with
       | Done (_, flags, out) => if negb (truthy (Z.land flags C)) then Err HPACKDecodingError else Ok out
       | Returned r _ => Ok r
       | Raised e _ => Err e
       | Exhausted _ => Err OutOfFuel
       end.
Proof. reflexivity. Qed.

Section Simulation.
Variable paths : list (list bool).
Variable tbl : list (Z * Z * Z).
Variables C E F : Z.
Hypothesis cert : cert_with hcodes paths tbl C E F = true.

(** one table step *)
Definition fsm_nib (st : Z) (out : bytes) (x : Z) : outcome (Z * Z * bytes) :=
  match index_Z tbl (st * 16 + x) with
  | Err e => Err e
  | Ok (st', fl, sym) =>
      if truthy (Z.land fl F) then Err HPACKDecodingError
      else if truthy (Z.land fl E)
           then match append_byte out sym with Err e => Err e | Ok out' => Ok (st', fl, out') end
           else Ok (st', fl, out)
  end.

Lemma hbody_fsm_nib : forall b st fl out,
  match fsm_nib st out (Z.shiftr (bz b) 4) with
  | Err e => exists s, hbody tbl C E F b (st, fl, out) = Raise e s
  | Ok (st1, fl1, out1) =>
      match fsm_nib st1 out1 (Z.land (bz b) 15) with
      | Err e => exists s, hbody tbl C E F b (st, fl, out) = Raise e s
      | Ok (st2, fl2, out2) => hbody tbl C E F b (st, fl, out) = Next (st2, fl2, out2)
      end
  end.
Proof.
  intros b st fl out. unfold hbody, fsm_nib. cbv beta iota zeta.
  destruct (index_Z tbl (st * 16 + Z.shiftr (bz b) 4)) as [[[st1 f1] sym1]|e]; [|eexists; reflexivity].
  destruct (truthy (Z.land f1 F)); [eexists; reflexivity|].
  assert (K : forall out1,
    match
      match index_Z tbl (st1 * 16 + Z.land (bz b) 15) with
      | Ok (st', fl0, sym) =>
          if truthy (Z.land fl0 F) then Err HPACKDecodingError
          else if truthy (Z.land fl0 E)
               then match append_byte out1 sym with Ok out' => Ok (st', fl0, out') | Err e => Err e end
               else Ok (st', fl0, out1)
      | Err e => Err e
      end
    with
    | Ok (st2, fl2, out2) =>
        match index_Z tbl (st1 * 16 + Z.land (bz b) 15) with
        | Ok (state, flags, output_byte) =>
            if truthy (Z.land flags F) then Raise HPACKDecodingError (state, flags, out1)
            else if truthy (Z.land flags E)
                 then match append_byte out1 output_byte with
                      | Ok decoded_bytes => Next (state, flags, decoded_bytes)
                      | Err e_ => Raise e_ (state, flags, out1)
                      end
                 else Next (state, flags, out1)
        | Err e_ => @Raise (Z * Z * bytes) bytes e_ (st1, f1, out1)
        end = Next (st2, fl2, out2)
    | Err e => exists s,
        match index_Z tbl (st1 * 16 + Z.land (bz b) 15) with
        | Ok (state, flags, output_byte) =>
            if truthy (Z.land flags F) then Raise HPACKDecodingError (state, flags, out1)
            else if truthy (Z.land flags E)
                 then match append_byte out1 output_byte with
                      | Ok decoded_bytes => Next (state, flags, decoded_bytes)
                      | Err e_ => Raise e_ (state, flags, out1)
                      end
                 else Next (state, flags, out1)
        | Err e_ => @Raise (Z * Z * bytes) bytes e_ (st1, f1, out1)
        end = Raise e s
    end).
  { intros out1.
    destruct (index_Z tbl (st1 * 16 + Z.land (bz b) 15)) as [[[st2 f2] sym2]|e]; [|eexists; reflexivity].
    destruct (truthy (Z.land f2 F)); [eexists; reflexivity|].
    destruct (truthy (Z.land f2 E)); [|reflexivity].
    destruct (append_byte out1 sym2) as [out2|e]; [reflexivity|eexists; reflexivity]. }
  destruct (truthy (Z.land f1 E)).
  - destruct (append_byte out sym1) as [out1|e]; [|eexists; reflexivity]. apply K.
  - apply K.
Qed.

(** what the certificate gives *)
Lemma fsm_cert_path0 : fsm_path paths 0 = [].
Proof.
  unfold cert_with in cert. apply andb_true_iff in cert. destruct cert as [H _].
  apply andb_true_iff in H. destruct H as [H _]. apply bits_eqb_eq in H. exact H.
Qed.

Lemma fsm_cert_proper : forall st, 0 <= st < 256 ->
  exists k r, 0 <= k <= 256 /\ hcode_Z k = fsm_path paths st ++ r /\ r <> [].
Proof.
  intros st Hst. unfold cert_with in cert. apply andb_true_iff in cert. destruct cert as [H _].
  apply andb_true_iff in H. destruct H as [_ H]. rewrite forallb_forall in H.
  specialize (H st (zrange_In 256 st ltac:(lia))). unfold proper_prefix in H.
  apply existsb_exists in H. destruct H as [c [Hc H]].
  destruct (strip_prefix (fsm_path paths st) c) as [[|b r]|] eqn:S; try discriminate H.
  apply strip_prefix_Some in S.
  destruct (In_nth _ _ [] Hc) as [n [Hn Hnth]]. rewrite hcodes_length in Hn.
  exists (Z.of_nat n), (b :: r). split; [lia|]. split; [|discriminate].
  rewrite hcode_Z_nth, Nat2Z.id, Hnth. exact S.
Qed.

Lemma fsm_cert_entry : forall st x, 0 <= st < 256 -> 0 <= x < 16 ->
  entry_ok hcodes paths tbl C E F st x = true.
Proof.
  intros st x Hst Hx. unfold cert_with in cert. apply andb_true_iff in cert. destruct cert as [_ H].
  rewrite forallb_forall in H. specialize (H st (zrange_In 256 st ltac:(lia))).
  rewrite forallb_forall in H. exact (H x (zrange_In 16 x ltac:(lia))).
Qed.

(** the invariant at a nibble boundary: [L] are the bits consumed so far *)
Definition fsm_good (L : list bool) (st fl : Z) (out : bytes) : Prop :=
  0 <= st < 256 /\ L = hbits out ++ fsm_path paths st /\
  truthy (Z.land fl C) = short_ones (fsm_path paths st).

Definition eos_seen (L : list bool) : Prop := exists o rest, L = hbits o ++ eos_bits ++ rest.

Lemma fsm_nib_ok : forall L st out x, 0 <= st < 256 -> 0 <= x < 16 ->
  L = hbits out ++ fsm_path paths st ->
  match fsm_nib st out x with
  | Ok (st', fl', out') => fsm_good (L ++ bits_msb 4 x) st' fl' out'
  | Err e => e = HPACKDecodingError /\ eos_seen (L ++ bits_msb 4 x)
  end.
Proof.
  intros L st out x Hst Hx HL. pose proof (fsm_cert_entry st x Hst Hx) as H.
  unfold entry_ok in H. unfold fsm_nib, index_Z.
  destruct (st * 16 + x <? 0) eqn:Neg; [lia|]. rewrite Neg.
  destruct (nth_error tbl (Z.to_nat (st * 16 + x))) as [[[st' f] sym]|]; [|discriminate H].
  pose proof (run_bits_none (bits_msb 4 x) (fsm_path paths st)) as R.
  destruct (run_bits hcodes (fsm_path paths st) None (bits_msb 4 x)) as [| |em p']; [discriminate H| |].
  - rewrite H. split; [reflexivity|]. destruct R as [rest R].
    exists out, rest. rewrite HL, <- app_assoc, R. reflexivity.
  - repeat (apply andb_true_iff in H; let H' := fresh "H" in destruct H as [H H']).
    apply negb_true_iff in H. rewrite H.
    apply bits_eqb_eq in H2. apply Bool.eqb_prop in H1.
    destruct em as [k|].
    + apply andb_true_iff in H0. destruct H0 as [HE Hs]. rewrite HE.
      destruct R as [Hk R]. assert (sym = k) by lia. subst sym.
      destruct (zb_of_range k Hk) as [b [Hzb Hbz]]. unfold append_byte. rewrite Hzb.
      split; [lia|]. split; [|rewrite H2; exact H1].
      rewrite HL, <- app_assoc, R, H2, hbits_app, <- app_assoc. cbn [hbits flat_map].
      rewrite app_nil_r. unfold hcode. rewrite Hbz. reflexivity.
    + apply negb_true_iff in H0. rewrite H0.
      split; [lia|]. split; [|rewrite H2; exact H1].
      rewrite HL, <- app_assoc, H2, R. reflexivity.
Qed.

Lemma byte_nibbles : forall b,
  0 <= Z.shiftr (bz b) 4 < 16 /\ 0 <= Z.land (bz b) 15 < 16 /\
  byte_bits b = bits_msb 4 (Z.shiftr (bz b) 4) ++ bits_msb 4 (Z.land (bz b) 15).
Proof. intros b. destruct b; vm_compute; repeat split; discriminate. Qed.

Lemma eos_seen_app : forall L l, eos_seen L -> eos_seen (L ++ l).
Proof.
  intros L l [o [rest ->]]. exists o, (rest ++ l). rewrite <- !app_assoc. reflexivity.
Qed.

Lemma body_ok : forall L b st fl out, 0 <= st < 256 -> L = hbits out ++ fsm_path paths st ->
  match hbody tbl C E F b (st, fl, out) with
  | Next (st', fl', out') => fsm_good (L ++ byte_bits b) st' fl' out'
  | Raise e _ => e = HPACKDecodingError /\ eos_seen (L ++ byte_bits b)
  | _ => False
  end.
Proof.
  intros L b st fl out Hst HL. pose proof (hbody_fsm_nib b st fl out) as HB.
  destruct (byte_nibbles b) as [Hhi [Hlo Hbits]]. rewrite Hbits, app_assoc.
  pose proof (fsm_nib_ok L st out _ Hst Hhi HL) as N1.
  destruct (fsm_nib st out (Z.shiftr (bz b) 4)) as [[[st1 fl1] out1]|e].
  - destruct N1 as [Hst1 [HL1 _]].
    pose proof (fsm_nib_ok _ st1 out1 _ Hst1 Hlo HL1) as N2.
    destruct (fsm_nib st1 out1 (Z.land (bz b) 15)) as [[[st2 fl2] out2]|e].
    + rewrite HB. exact N2.
    + destruct HB as [s ->]. exact N2.
  - destruct HB as [s ->]. destruct N1 as [-> N1]. split; [reflexivity|].
    apply eos_seen_app. exact N1.
Qed.

Lemma loop_ok : forall bs L st fl out, fsm_good L st fl out ->
  match for_each bs (hbody tbl C E F) (st, fl, out) with
  | Done (st', fl', out') => fsm_good (L ++ bits bs) st' fl' out'
  | Raised e _ => e = HPACKDecodingError /\ eos_seen (L ++ bits bs)
  | _ => False
  end.
Proof.
  induction bs as [|b bs IH]; intros L st fl out G.
  - cbn [for_each bits flat_map]. rewrite app_nil_r. exact G.
  - cbn [for_each]. rewrite bits_cons, app_assoc. destruct G as [Hst [HL _]].
    pose proof (body_ok L b st fl out Hst HL) as B.
    destruct (hbody tbl C E F b (st, fl, out)) as [[[st1 fl1] out1]| | |e s]; try contradiction.
    + apply IH. exact B.
    + destruct B as [-> B]. split; [reflexivity|]. apply eos_seen_app. exact B.
Qed.

Theorem decoder_exact_with : forall bs,
  decode_huffman tbl C E F bs =
    match huff_dec bs with Some s => Ok s | None => Err HPACKDecodingError end.
Proof.
  intros bs. rewrite decode_huffman_eq. destruct bs as [|b bs]; [reflexivity|].
  assert (Hlen : (len (b :: bs) =? 0) = false) by (unfold len; cbn [length]; lia).
  rewrite Hlen. cbn [for_each].
  change (@pair (Z * Z) (list byte) (0, 0) (@nil byte)) with (@pair (Z * Z) bytes (0, 0) (@nil byte)).
  assert (H0 : 0 <= 0 < 256) by lia.
  assert (HL0 : [] = hbits [] ++ fsm_path paths 0) by (rewrite fsm_cert_path0; reflexivity).
  pose proof (body_ok [] b 0 0 [] H0 HL0) as B. cbn [app] in B.
  assert (Fin : forall o : option bytes, eos_seen (bits (b :: bs)) ->
            huff_dec (b :: bs) = o -> o = None).
  { intros o [o' [rest Hs]] Ho. rewrite <- Ho. apply huff_dec_None.
    apply (HuffRep_no_eos _ _ _ Hs). }
  match type of B with match ?t with _ => _ end =>
    destruct t as [[[st1 fl1] out1]| | |e s]; try contradiction end.
  - pose proof (loop_ok bs _ st1 fl1 out1 B) as LP. rewrite <- bits_cons in LP.
    destruct (for_each bs (hbody tbl C E F) (st1, fl1, out1)) as [[[st2 fl2] out2]| |e s|];
      try contradiction.
    + destruct LP as [Hst2 [HL2 HC2]]. rewrite HC2.
      destruct (short_ones (fsm_path paths st2)) eqn:So; cbn [negb].
      * assert (R : huff_dec (b :: bs) = Some out2).
        { apply huff_dec_spec. exists (fsm_path paths st2). split; [exact HL2|].
          unfold short_ones in So. apply andb_true_iff in So. destruct So as [S1 S2].
          split; [apply Nat.ltb_lt; exact S1|exact S2]. }
        rewrite R. reflexivity.
      * assert (R : huff_dec (b :: bs) = None).
        { apply huff_dec_None. destruct (fsm_cert_proper st2 Hst2) as [k [r [Hk [Hc Hr]]]].
          apply (HuffRep_stuck _ out2 (fsm_path paths st2) k r HL2 Hk Hc Hr So). }
        rewrite R. reflexivity.
    + destruct LP as [-> LP]. rewrite (Fin _ LP eq_refl). reflexivity.
  - destruct B as [-> B].
    assert (S : eos_seen (bits (b :: bs))) by (rewrite bits_cons; apply eos_seen_app; exact B).
    rewrite (Fin _ S eq_refl). reflexivity.
Qed.

End Simulation.

(** * Main theorem and its corollaries *)
Lemma fsm_cert_unfold : forall tbl C E F,
  fsm_cert tbl C E F = cert_with hcodes (find_paths hcodes tbl) tbl C E F.
Proof. reflexivity. Qed.

Theorem decoder_exact : forall tbl C E F, fsm_cert tbl C E F = true -> forall bs,
  decode_huffman tbl C E F bs =
    match huff_dec bs with Some s => Ok s | None => Err HPACKDecodingError end.
Proof.
  intros tbl C E F H bs. rewrite fsm_cert_unfold in H.
  exact (decoder_exact_with _ _ _ _ _ H bs).
Qed.

Lemma decode_huffman_m_eq : forall bs,
  decode_huffman_m bs = match huff_dec bs with Some s => Ok s | None => Err HPACKDecodingError end.
Proof. exact (decoder_exact _ _ _ _ frozen_table_cert). Qed.

Lemma accepts_iff : forall bs s, decode_huffman_m bs = Ok s <-> HuffRep bs s.
Proof.
  intros bs s. rewrite decode_huffman_m_eq, <- huff_dec_spec.
  destruct (huff_dec bs) as [s'|]; split; intros H; try discriminate H; congruence.
Qed.

Lemma rejects_iff : forall bs,
  decode_huffman_m bs = Err HPACKDecodingError <-> ~ exists s, HuffRep bs s.
Proof.
  intros bs. rewrite decode_huffman_m_eq, <- huff_dec_None.
  destruct (huff_dec bs) as [s'|]; split; intros H; try discriminate H; reflexivity.
Qed.

Lemma no_other_outcome : forall bs,
  (exists s, decode_huffman_m bs = Ok s) \/ decode_huffman_m bs = Err HPACKDecodingError.
Proof.
  intros bs. rewrite decode_huffman_m_eq. destruct (huff_dec bs) as [s|].
  - left. exists s. reflexivity.
  - right. reflexivity.
Qed.

Lemma reencodes : forall bs s, decode_huffman_m bs = Ok s -> map bz bs = huff_enc s.
Proof. intros bs s H. apply HuffRep_enc. apply accepts_iff. exact H. Qed.

Lemma decode_injective : forall bs bs' s,
  decode_huffman_m bs = Ok s -> decode_huffman_m bs' = Ok s -> bs = bs'.
Proof.
  intros bs bs' s H H'. apply accepts_iff in H. apply accepts_iff in H'.
  exact (HuffRep_injective _ _ _ H H').
Qed.

Lemma rejects_eos : forall bs s rest,
  bits bs = hbits s ++ eos_bits ++ rest -> decode_huffman_m bs = Err HPACKDecodingError.
Proof. intros bs s rest H. apply rejects_iff. exact (HuffRep_no_eos _ _ _ H). Qed.

Lemma rejects_long_padding : forall bs s pad,
  bits bs = hbits s ++ pad -> (8 <= length pad)%nat -> forallb (fun b => b) pad = true ->
  decode_huffman_m bs = Err HPACKDecodingError.
Proof. intros bs s pad H L O. apply rejects_iff. exact (HuffRep_no_long_padding _ _ _ H L O). Qed.

Lemma rejects_zero_in_padding : forall bs s pad,
  bits bs = hbits s ++ pad -> (length pad < 8)%nat -> existsb negb pad = true ->
  match_sym pad = None -> decode_huffman_m bs = Err HPACKDecodingError.
Proof.
  intros bs s pad H _ Z M. apply rejects_iff. exact (HuffRep_no_zero_in_padding _ _ _ H Z M).
Qed.
