(** Theorems about the SPECIFICATION of HPACK decoding (Spec/SDecoder.v) only; the model of
    the Python code is not involved.

    - [wire_meaning]: the sequential RFC decoder [decode K] returns the declarative meaning
      [sem] of a sequence of representations on EVERY wire form the RFC allows for it;
    - [limit_latitude_gen]: a larger limit on continuation octets only turns some
      [Malformed] verdicts into something else;
    - the defect lemmas of Props/C05.v. *)
From Coq Require Import ZArith List Bool Lia ZifyBool Arith.
From Coq Require Import Init.Byte.
From HV Require Import Prelude.Py Prelude.Utf8.
From HV Require Import Spec.IntRep Spec.HuffmanCode Spec.StaticTable Spec.DynTable Spec.SDecoder.
From HV Require Import Proofs.IntSpec Proofs.HuffSpec.
Import ListNotations.
Open Scope Z_scope.

(** * octets *)
Lemma sd_bz_range b : 0 <= bz b < 256.
Proof. unfold bz. pose proof (Byte.to_N_bounded b). lia. Qed.

Lemma sd_map_bz_octets bs : Forall octet (map bz bs).
Proof. apply Forall_forall. intros x H. apply in_map_iff in H. destruct H as (b & <- & _). apply sd_bz_range. Qed.

(** * lists *)
Lemma skipn_len_app {A} (w t : list A) : skipn (Z.to_nat (len w)) (w ++ t) = t.
Proof.
  unfold len. rewrite Nat2Z.id. induction w as [|x w IH]; [reflexivity|]. cbn [length app skipn]. exact IH.
Qed.
Lemma firstn_len_app {A} (w t : list A) : firstn (Z.to_nat (len w)) (w ++ t) = w.
Proof.
  unfold len. rewrite Nat2Z.id. induction w as [|x w IH]; [reflexivity|]. cbn [length app firstn]. f_equal. exact IH.
Qed.

Lemma list_size_snoc acc f : list_size (acc ++ [f]) = list_size acc + fsize f.
Proof.
  unfold list_size. induction acc as [|x acc IH]; cbn [app fold_right]; [lia|]. rewrite IH. lia.
Qed.

(** * integers: parsing does not look past the last octet of the integer *)
Lemma int_dec_app N w t n k : int_dec N w = Some (n, k) -> int_dec N (w ++ t) = Some (n, k).
Proof.
  destruct w as [|b r]; [discriminate|]. cbn [int_dec app]. cbv zeta.
  destruct (b mod 2 ^ N <? pmax N); [intros H; exact H|].
  destruct (cont_dec r) as [[m k']|] eqn:D; [|discriminate].
  intros H. rewrite (cont_dec_app r t m k' D). exact H.
Qed.

Lemma int_k_wire K N n wb t : wire_int K N n (map bz wb) -> int_k K N (wb ++ t) = SOk (n, t).
Proof.
  intros [H L]. rewrite len_map in H, L. unfold int_k. rewrite map_app.
  rewrite (int_dec_app _ _ (map bz t) _ _ H).
  destruct (len wb - 1 <=? K) eqn:E; [|lia]. rewrite skipn_len_app. reflexivity.
Qed.

Lemma wire_int_nonempty K N n wb : wire_int K N n (map bz wb) -> wb <> [].
Proof. intros [H _] ->. discriminate. Qed.

(** * strings *)
Lemma str_k_cons K b tl : str_k K (b :: tl) =
  sbnd (int_k K 7 (b :: tl)) (fun p => let '(n, rest) := p in
    if len rest <? n then SErr Malformed
    else let payload := firstn (Z.to_nat n) rest in
         let rest := skipn (Z.to_nat n) rest in
         if 128 <=? bz b
         then match huff_dec payload with Some s => SOk (s, rest) | None => SErr Malformed end
         else SOk (payload, rest)).
Proof. reflexivity. Qed.

Lemma str_k_wire K s w t : wire_str K s w -> str_k K (w ++ t) = SOk (s, t).
Proof.
  intros (lenw & payload & -> & WI & HR).
  destruct lenw as [|b l']; [exfalso; exact (wire_int_nonempty _ _ _ _ WI eq_refl)|].
  rewrite <- app_assoc. change ((b :: l') ++ payload ++ t) with (b :: (l' ++ payload ++ t)).
  rewrite str_k_cons. change (b :: (l' ++ payload ++ t)) with ((b :: l') ++ payload ++ t).
  rewrite (int_k_wire K 7 (len payload) (b :: l') (payload ++ t) WI). cbn [sbnd].
  pose proof (len_nonneg t) as Ht.
  destruct (len (payload ++ t) <? len payload) eqn:E; [rewrite len_app in E; lia|].
  cbv zeta. rewrite firstn_len_app, skipn_len_app.
  cbn [hbit] in HR. destruct (128 <=? bz b).
  - apply huff_dec_spec in HR. rewrite HR. reflexivity.
  - rewrite HR. reflexivity.
Qed.

(** * one representation *)
(** what a representation asks the decoder to do, given the table; [None]: bad index *)
Definition never_of (m : lmode) : bool := match m with NeverIndexed => true | _ => false end.
Definition insert_of (m : lmode) : bool := match m with WithIndexing => true | _ => false end.
Definition act_of (d : list entry) (r : rep) : option action :=
  match r with
  | RIndexed i => option_map (fun e => Emit false false (fst e) (snd e)) (lookup i d)
  | RSizeUpdate n => Some (Resize n)
  | RLiteral m nm v => option_map (fun name => Emit (never_of m) (insert_of m) name v) (resolve d nm)
  end.
Definition is_upd (r : rep) : bool := match r with RSizeUpdate _ => true | _ => false end.

Lemma act_of_upd d r a : act_of d r = Some a ->
  is_upd r = match a with Resize _ => true | Emit _ _ _ _ => false end.
Proof.
  destruct r as [i|m nm v|n]; cbn [act_of is_upd].
  - destruct (lookup i d); cbn [option_map]; [|discriminate]. intros H; inversion H; reflexivity.
  - destruct (resolve d nm); cbn [option_map]; [|discriminate]. intros H; inversion H; reflexivity.
  - intros H; inversion H; reflexivity.
Qed.

Lemma sem_cons c r rs acc : sem c (r :: rs) acc =
  match act_of (dyn c) r with
  | None => None
  | Some (Resize n) =>
      match acc with
      | [] => if n >? limit c then None
              else sem {| dyn := resize n (dyn c); size := n; limit := limit c; list_limit := list_limit c |} rs acc
      | _ => None
      end
  | Some (Emit never ins name value) =>
      let acc := acc ++ [(never, name, value)] in
      if list_size acc >? list_limit c then None
      else sem (if ins
                then {| dyn := insert (size c) (name, value) (dyn c); size := size c;
                        limit := limit c; list_limit := list_limit c |}
                else c) rs acc
  end.
Proof.
  destruct r as [i|m nm v|n]; cbn [sem act_of].
  - destruct (lookup i (dyn c)); reflexivity.
  - destruct (resolve (dyn c) nm); cbn [option_map]; [|reflexivity]. destruct m; reflexivity.
  - reflexivity.
Qed.

Lemma literal_wire K N never ins d wi wn wv nm v name t :
  match nm with
  | NameIdx i => 0 < i /\ wire_int K N i (map bz wi) /\ wn = []
  | NameLit s => wire_int K N 0 (map bz wi) /\ wire_str K s wn
  end -> wire_str K v wv -> resolve d nm = Some name ->
  literal K N never ins d (wi ++ wn ++ wv ++ t) = SOk (Emit never ins name v, t).
Proof.
  intros Hnm Hv R. unfold literal. destruct nm as [i|s].
  - destruct Hnm as (Hi & WI & ->). rewrite (int_k_wire K N i wi _ WI). cbn [sbnd app].
    cbn [resolve] in R. destruct (i =? 0) eqn:E; [lia|].
    destruct (lookup i d) as [e|]; cbn [option_map] in R; [|discriminate]. inversion R; subst name.
    cbn [sbnd]. rewrite (str_k_wire K v wv t Hv). reflexivity.
  - destruct Hnm as (WI & Hs). rewrite (int_k_wire K N 0 wi _ WI). cbn [sbnd].
    change (0 =? 0) with true. cbv iota.
    rewrite (str_k_wire K s wn (wv ++ t) Hs). cbn [sbnd].
    rewrite (str_k_wire K v wv t Hv). cbn [sbnd].
    cbn [resolve] in R. inversion R; subst name. reflexivity.
Qed.

Lemma wire_rep_parse K r w : wire_rep K r w ->
  exists b w', w = b :: w' /\
    (bz b <? 64) && (32 <=? bz b) = is_upd r /\
    forall d a t, act_of d r = Some a -> parse_rep K d (bz b) (w ++ t) = SOk (a, t).
Proof.
  destruct r as [i|m nm v|n]; cbn [wire_rep].
  - intros [F WI]. destruct w as [|b w']; [destruct F|]. cbn [first_in] in F.
    exists b, w'. split; [reflexivity|]. split; [cbn [is_upd]; lia|].
    intros d a t A. cbn [act_of] in A. unfold parse_rep.
    destruct (128 <=? bz b) eqn:E1; [|lia].
    rewrite (int_k_wire K 7 i (b :: w') t WI). cbn [sbnd].
    destruct (lookup i d) as [e|]; cbn [option_map] in A; [|discriminate].
    inversion A; reflexivity.
  - intros H.
    assert (G : exists lo hi N wi wn wv, w = wi ++ wn ++ wv /\ first_in lo hi wi /\
                  match nm with
                  | NameIdx i => 0 < i /\ wire_int K N i (map bz wi) /\ wn = []
                  | NameLit s => wire_int K N 0 (map bz wi) /\ wire_str K s wn
                  end /\ wire_str K v wv /\
                  ((m = WithIndexing /\ lo = 64 /\ hi = 128 /\ N = 6) \/
                   (m = WithoutIndexing /\ lo = 0 /\ hi = 16 /\ N = 4) \/
                   (m = NeverIndexed /\ lo = 16 /\ hi = 32 /\ N = 4))).
    { destruct m; destruct H as (wi & wn & wv & E & F & Hn & Hv).
      - exists 64, 128, 6, wi, wn, wv. repeat split; try assumption. left. repeat split.
      - exists 0, 16, 4, wi, wn, wv. repeat split; try assumption. right; left. repeat split.
      - exists 16, 32, 4, wi, wn, wv. repeat split; try assumption. right; right. repeat split. }
    clear H. destruct G as (lo & hi & N & wi & wn & wv & -> & F & Hn & Hv & M).
    destruct wi as [|b wi']; [destruct F|]. cbn [first_in] in F.
    exists b, (wi' ++ wn ++ wv). split; [reflexivity|].
    split; [cbn [is_upd]; lia|].
    intros d a t A. cbn [act_of] in A.
    destruct (resolve d nm) as [name|] eqn:R; cbn [option_map] in A; [|discriminate].
    inversion A; subst a. clear A.
    rewrite <- !app_assoc. unfold parse_rep.
    destruct (128 <=? bz b) eqn:E1; [lia|].
    destruct M as [(-> & -> & -> & ->)|[(-> & -> & -> & ->)|(-> & -> & -> & ->)]]; cbn [never_of insert_of].
    + destruct (64 <=? bz b) eqn:E2; [|lia].
      apply (literal_wire K 6 false true d (b :: wi') wn wv nm v name t Hn Hv R).
    + destruct (64 <=? bz b) eqn:E2; [lia|]. destruct (32 <=? bz b) eqn:E3; [lia|].
      destruct (16 <=? bz b) eqn:E4; [lia|].
      apply (literal_wire K 4 false false d (b :: wi') wn wv nm v name t Hn Hv R).
    + destruct (64 <=? bz b) eqn:E2; [lia|]. destruct (32 <=? bz b) eqn:E3; [lia|].
      destruct (16 <=? bz b) eqn:E4; [|lia].
      apply (literal_wire K 4 true false d (b :: wi') wn wv nm v name t Hn Hv R).
  - intros [F WI]. destruct w as [|b w']; [destruct F|]. cbn [first_in] in F.
    exists b, w'. split; [reflexivity|]. split; [cbn [is_upd]; lia|].
    intros d a t A. cbn [act_of] in A. inversion A; subst a. unfold parse_rep.
    destruct (128 <=? bz b) eqn:E1; [lia|]. destruct (64 <=? bz b) eqn:E2; [lia|].
    destruct (32 <=? bz b) eqn:E3; [|lia].
    rewrite (int_k_wire K 5 n (b :: w') t WI). reflexivity.
Qed.

(** * the block loop *)
Lemma decode_loop_nil K fuel c acc run :
  decode_loop K fuel c [] acc run = if size c >? limit c then SErr BadSize else SOk (acc, c).
Proof. destruct fuel; reflexivity. Qed.

Lemma decode_loop_cons K fuel c b tl acc run :
  decode_loop K (S fuel) c (b :: tl) acc run =
  if (bz b <? 64) && (32 <=? bz b) && negb (len acc =? 0) then SErr Malformed
  else sbnd (parse_rep K (dyn c) (bz b) (b :: tl)) (fun p => let '(a, rest) := p in
    match a with
    | Resize n =>
        if n >? limit c then SErr BadSize
        else decode_loop K fuel
               {| dyn := resize n (dyn c); size := n; limit := limit c; list_limit := list_limit c |}
               rest acc run
    | Emit never ins name value =>
        let run := run + esize (name, value) in
        if run >? list_limit c then SErr Oversized
        else decode_loop K fuel
               (if ins
                then {| dyn := insert (size c) (name, value) (dyn c); size := size c;
                        limit := limit c; list_limit := list_limit c |}
                else c)
               rest (acc ++ [(never, name, value)]) run
    end).
Proof. reflexivity. Qed.

Lemma decode_loop_wire K : forall rs w, wire_block K rs w ->
  forall fuel c acc fs c', (length w < fuel)%nat ->
  sem c rs acc = Some (fs, c') ->
  decode_loop K fuel c w acc (list_size acc) = SOk (fs, c').
Proof.
  induction 1 as [|r w rs ws Hr Hb IH]; intros fuel c acc fs c' Hf Hs.
  - rewrite decode_loop_nil. cbn [sem] in Hs. destruct (size c >? limit c); [discriminate|].
    inversion Hs; reflexivity.
  - rewrite sem_cons in Hs.
    destruct (act_of (dyn c) r) as [a|] eqn:A; [|discriminate].
    destruct (wire_rep_parse K r w Hr) as (b & w' & -> & U & P).
    specialize (P (dyn c) a ws A). rewrite (act_of_upd _ _ _ A) in U.
    destruct fuel as [|fuel]; [lia|].
    assert (Hf' : (length ws < fuel)%nat).
    { rewrite app_length in Hf. cbn [length] in Hf. lia. }
    change ((b :: w') ++ ws) with (b :: (w' ++ ws)) in *.
    rewrite decode_loop_cons, U, P. cbn [sbnd]. destruct a as [never ins name value|n].
    + cbn [andb]. cbv zeta in Hs. cbv zeta.
      rewrite list_size_snoc in Hs. change (fsize (never, name, value)) with (esize (name, value)) in Hs.
      destruct (list_size acc + esize (name, value) >? list_limit c); [discriminate|].
      replace (list_size acc + esize (name, value)) with (list_size (acc ++ [(never, name, value)]))
        by (rewrite list_size_snoc; reflexivity).
      apply IH; assumption.
    + destruct acc as [|f acc]; [|discriminate].
      change (len (@nil sfield) =? 0) with true. cbn [andb negb].
      destruct (n >? limit c); [discriminate|].
      apply IH; assumption.
Qed.

Theorem wire_meaning : forall K c rs w fs c', 0 <= K ->
  wire_block K rs w -> sem c rs [] = Some (fs, c') ->
  decode K c w false = SOk (fs, c') /\
  (forallb (fun f => utf8_valid (snd (fst f)) && utf8_valid (snd f)) fs = true -> decode K c w true = SOk (fs, c')).
Proof.
  intros K c rs w fs c' _ Hb Hs.
  pose proof (decode_loop_wire K rs w Hb (S (length w)) c [] fs c' ltac:(lia) Hs) as D.
  change (list_size []) with 0 in D. unfold decode. rewrite D. cbn [sbnd]. split.
  - reflexivity.
  - intros V. rewrite V. reflexivity.
Qed.

(** * latitude in the limit on continuation octets *)
Definition res_le {A} (r1 r2 : sres A) : Prop :=
  match r1 with
  | SOk a => r2 = SOk a
  | SErr Malformed => True
  | SErr e => r2 = SErr e
  end.

Lemma res_le_refl {A} (r : sres A) : res_le r r.
Proof. destruct r as [a|[]]; cbn; auto. Qed.

Lemma res_le_bind {A B} (m1 m2 : sres A) (f1 f2 : A -> sres B) :
  res_le m1 m2 -> (forall a, res_le (f1 a) (f2 a)) -> res_le (sbnd m1 f1) (sbnd m2 f2).
Proof.
  intros Hm Hf. destruct m1 as [a|e]; cbn [res_le] in Hm.
  - rewrite Hm. cbn [sbnd]. apply Hf.
  - destruct e; try (rewrite Hm; cbn [sbnd res_le]; reflexivity). cbn [sbnd res_le]. exact I.
Qed.

Section Latitude.
Variables K1 K2 : Z.
Hypothesis HK : K1 <= K2.

Lemma int_k_le N bs : res_le (int_k K1 N bs) (int_k K2 N bs).
Proof.
  unfold int_k. destruct (int_dec N (map bz bs)) as [[n k]|]; [|exact I].
  destruct (k - 1 <=? K1) eqn:E1; [|exact I].
  destruct (k - 1 <=? K2) eqn:E2; [|lia]. reflexivity.
Qed.

Lemma str_k_le bs : res_le (str_k K1 bs) (str_k K2 bs).
Proof.
  destruct bs as [|b tl]; [exact I|]. rewrite !str_k_cons.
  apply res_le_bind; [apply int_k_le|]. intros a. apply res_le_refl.
Qed.

Lemma literal_le N never ins d bs : res_le (literal K1 N never ins d bs) (literal K2 N never ins d bs).
Proof.
  unfold literal. apply res_le_bind; [apply int_k_le|]. intros [i rest].
  apply res_le_bind.
  - destruct (i =? 0); [apply str_k_le|apply res_le_refl].
  - intros [name rest']. apply res_le_bind; [apply str_k_le|]. intros a. apply res_le_refl.
Qed.

Lemma parse_rep_le d first bs : res_le (parse_rep K1 d first bs) (parse_rep K2 d first bs).
Proof.
  unfold parse_rep.
  destruct (128 <=? first).
  { apply res_le_bind; [apply int_k_le|]. intros a. apply res_le_refl. }
  destruct (64 <=? first); [apply literal_le|].
  destruct (32 <=? first).
  { apply res_le_bind; [apply int_k_le|]. intros a. apply res_le_refl. }
  destruct (16 <=? first); apply literal_le.
Qed.

Lemma decode_loop_le : forall fuel c bs acc run,
  res_le (decode_loop K1 fuel c bs acc run) (decode_loop K2 fuel c bs acc run).
Proof.
  induction fuel as [|fuel IH]; intros c bs acc run.
  - destruct bs; apply res_le_refl.
  - destruct bs as [|b tl]; [apply res_le_refl|]. rewrite !decode_loop_cons.
    destruct ((bz b <? 64) && (32 <=? bz b) && negb (len acc =? 0)); [exact I|].
    apply res_le_bind; [apply parse_rep_le|]. intros [a rest]. destruct a as [never ins name value|n].
    + cbv zeta. destruct (run + esize (name, value) >? list_limit c); [apply res_le_refl|]. apply IH.
    + destruct (n >? limit c); [apply res_le_refl|]. apply IH.
Qed.

Lemma decode_le c bs t : res_le (decode K1 c bs t) (decode K2 c bs t).
Proof.
  unfold decode. apply res_le_bind; [apply decode_loop_le|]. intros a. apply res_le_refl.
Qed.
End Latitude.

Theorem limit_latitude_gen : forall K1 K2 c data t r, K1 <= K2 ->
  (decode K1 c data t = SOk r -> decode K2 c data t = SOk r) /\
  (forall e, decode K1 c data t = SErr e -> e <> Malformed -> decode K2 c data t = SErr e).
Proof.
  intros K1 K2 c data t r HK. pose proof (decode_le K1 K2 HK c data t) as L. split.
  - intros H. rewrite H in L. exact L.
  - intros e H Hne. rewrite H in L. destruct e; cbn [res_le] in L; try exact L. congruence.
Qed.

(** * the defect classes (Props/C05.v) *)
Lemma bad_index : forall K fuel c b tl acc run i rest,
  128 <= bz b -> int_k K 7 (b :: tl) = SOk (i, rest) -> lookup i (dyn c) = None ->
  decode_loop K (S fuel) c (b :: tl) acc run = SErr BadIndex.
Proof.
  intros K fuel c b tl acc run i rest Hb Hi Hl. rewrite decode_loop_cons.
  destruct (bz b <? 64) eqn:E; [lia|]. cbn [andb]. unfold parse_rep.
  destruct (128 <=? bz b) eqn:E1; [|lia]. rewrite Hi. cbn [sbnd]. rewrite Hl. reflexivity.
Qed.

Lemma bad_name_index : forall K fuel c b tl acc run i rest,
  bz b < 128 -> ~ (32 <= bz b < 64) ->
  int_k K (if 64 <=? bz b then 6 else 4) (b :: tl) = SOk (i, rest) -> i <> 0 -> lookup i (dyn c) = None ->
  decode_loop K (S fuel) c (b :: tl) acc run = SErr BadIndex.
Proof.
  intros K fuel c b tl acc run i rest Hb Hn Hi Hz Hl. rewrite decode_loop_cons.
  destruct ((bz b <? 64) && (32 <=? bz b)) eqn:E; [lia|]. cbn [andb]. unfold parse_rep.
  destruct (128 <=? bz b) eqn:E1; [lia|].
  assert (L : forall nv ins, literal K (if 64 <=? bz b then 6 else 4) nv ins (dyn c) (b :: tl) = SErr BadIndex).
  { intros nv ins. unfold literal. rewrite Hi. cbn [sbnd]. destruct (i =? 0) eqn:E0; [lia|].
    rewrite Hl. reflexivity. }
  destruct (64 <=? bz b) eqn:E2; [rewrite L; reflexivity|].
  destruct (32 <=? bz b) eqn:E3; [lia|].
  destruct (16 <=? bz b); rewrite L; reflexivity.
Qed.

Lemma int_k_truncated K N bs : 1 <= N <= 8 -> int_truncated N (map bz bs) -> int_k K N bs = SErr Malformed.
Proof.
  intros HN HT. unfold int_k.
  apply (dec_none_iff_truncated N (map bz bs) HN (sd_map_bz_octets bs)) in HT. rewrite HT. reflexivity.
Qed.

Lemma truncated_first_integer : forall K fuel c b tl acc run,
  (128 <= bz b -> int_truncated 7 (map bz (b :: tl))) ->
  (64 <= bz b < 128 -> int_truncated 6 (map bz (b :: tl))) ->
  (32 <= bz b < 64 -> int_truncated 5 (map bz (b :: tl))) ->
  (bz b < 32 -> int_truncated 4 (map bz (b :: tl))) ->
  decode_loop K (S fuel) c (b :: tl) acc run = SErr Malformed.
Proof.
  intros K fuel c b tl acc run H7 H6 H5 H4. rewrite decode_loop_cons.
  destruct ((bz b <? 64) && (32 <=? bz b) && negb (len acc =? 0)); [reflexivity|].
  unfold parse_rep, literal.
  destruct (128 <=? bz b) eqn:E1.
  { rewrite (int_k_truncated K 7 (b :: tl)) by (try apply H7; lia). reflexivity. }
  destruct (64 <=? bz b) eqn:E2.
  { rewrite (int_k_truncated K 6 (b :: tl)) by (try apply H6; lia). reflexivity. }
  destruct (32 <=? bz b) eqn:E3.
  { rewrite (int_k_truncated K 5 (b :: tl)) by (try apply H5; lia). reflexivity. }
  destruct (16 <=? bz b) eqn:E4;
    rewrite (int_k_truncated K 4 (b :: tl)) by (try apply H4; lia); reflexivity.
Qed.

Lemma update_after_field : forall K fuel c b tl acc run,
  32 <= bz b < 64 -> acc <> [] -> decode_loop K (S fuel) c (b :: tl) acc run = SErr Malformed.
Proof.
  intros K fuel c b tl acc run Hb Ha. rewrite decode_loop_cons.
  destruct acc as [|f acc]; [congruence|].
  assert (L : (len (f :: acc) =? 0) = false) by (rewrite len_cons; pose proof (len_nonneg acc); lia).
  rewrite L. destruct ((bz b <? 64) && (32 <=? bz b)) eqn:E; [reflexivity|lia].
Qed.

Lemma update_above_limit : forall K fuel c b tl run n rest,
  32 <= bz b < 64 -> int_k K 5 (b :: tl) = SOk (n, rest) -> limit c < n ->
  decode_loop K (S fuel) c (b :: tl) [] run = SErr BadSize.
Proof.
  intros K fuel c b tl run n rest Hb Hi Hl. rewrite decode_loop_cons.
  change (len (@nil sfield) =? 0) with true. cbn [negb]. rewrite andb_false_r.
  unfold parse_rep.
  destruct (128 <=? bz b) eqn:E1; [lia|]. destruct (64 <=? bz b) eqn:E2; [lia|].
  destruct (32 <=? bz b) eqn:E3; [|lia]. rewrite Hi. cbn [sbnd].
  destruct (n >? limit c) eqn:E; [reflexivity|lia].
Qed.

Lemma truncated_string : forall K bs n rest,
  int_k K 7 bs = SOk (n, rest) -> len rest < n -> str_k K bs = SErr Malformed.
Proof.
  intros K bs n rest Hi Hl. destruct bs as [|b tl]; [reflexivity|].
  rewrite str_k_cons, Hi. cbn [sbnd]. destruct (len rest <? n) eqn:E; [reflexivity|lia].
Qed.

Lemma bad_huffman : forall K b tl n rest,
  128 <= bz b -> int_k K 7 (b :: tl) = SOk (n, rest) -> n <= len rest ->
  (~ exists s, HuffRep (firstn (Z.to_nat n) rest) s) -> str_k K (b :: tl) = SErr Malformed.
Proof.
  intros K b tl n rest Hb Hi Hl Hn. rewrite str_k_cons, Hi. cbn [sbnd].
  destruct (len rest <? n) eqn:E; [reflexivity|]. cbv zeta.
  destruct (128 <=? bz b) eqn:E1; [|lia].
  destruct (huff_dec (firstn (Z.to_nat n) rest)) as [s|] eqn:D; [|reflexivity].
  exfalso. apply Hn. exists s. apply huff_dec_spec. exact D.
Qed.

Lemma not_utf8 : forall K c data fs c',
  decode K c data false = SOk (fs, c') ->
  forallb (fun f => utf8_valid (snd (fst f)) && utf8_valid (snd f)) fs = false ->
  decode K c data true = SErr Malformed.
Proof.
  intros K c data fs c' H V. unfold decode in *.
  destruct (decode_loop K (S (length data)) c data [] 0) as [[fs0 c0]|e]; cbn [sbnd] in *; [|discriminate].
  cbn [andb] in H. inversion H; subst fs0 c0. rewrite V. reflexivity.
Qed.
