(** C06 / C14: the dynamic table and the index address space.
    Part 1: facts about the specification (Spec/DynTable.v).
    Part 2: the model of hpack/table.py (Model/Table.v) against that specification. *)
From Coq Require Import ZArith List Bool Lia ZifyBool Arith.
From Coq Require Import Init.Byte.
From Coq Require Strings.Byte.
From HV Require Import Prelude.Py Prelude.State Spec.StaticTable Spec.DynTable.
From HV Require Import Model.Data Model.Table Model.Decoder.
Import ListNotations.
Open Scope Z_scope.

(** * The invariant *)
Definition TInv (t : table) : Prop :=
  t.(cursize) = tsize t.(entries) /\ tsize t.(entries) <= Z.max 0 t.(maxsize).

(** * Part 1: the specification *)

Lemma esize_ge e : 32 <= esize e.
Proof. unfold esize, len. lia. Qed.

Lemma tsize_cons e l : tsize (e :: l) = esize e + tsize l.
Proof. reflexivity. Qed.

Lemma tsize_nonneg l : 0 <= tsize l.
Proof.
  induction l as [|e l IH]; [cbn; lia|].
  rewrite tsize_cons. pose proof (esize_ge e). lia.
Qed.

Lemma tsize_app l1 l2 : tsize (l1 ++ l2) = tsize l1 + tsize l2.
Proof.
  induction l1 as [|e l1 IH]; [reflexivity|].
  rewrite <- app_comm_cons, !tsize_cons, IH. lia.
Qed.

Lemma fit_cons m e r :
  fit m (e :: r) = if esize e <=? m then e :: fit (m - esize e) r else [].
Proof. reflexivity. Qed.

Lemma fit_prefix : forall m l, exists gone, l = fit m l ++ gone.
Proof.
  intros m l; revert m.
  induction l as [|e l IH]; intros m.
  - exists []. reflexivity.
  - rewrite fit_cons. destruct (esize e <=? m) eqn:E.
    + destruct (IH (m - esize e)) as [g Hg]. exists g.
      rewrite <- app_comm_cons. f_equal. exact Hg.
    + exists (e :: l). reflexivity.
Qed.

Lemma fit_bound : forall m l, 0 <= m -> tsize (fit m l) <= m.
Proof.
  intros m l; revert m.
  induction l as [|e l IH]; intros m Hm.
  - cbn. lia.
  - rewrite fit_cons. destruct (esize e <=? m) eqn:E.
    + rewrite tsize_cons. specialize (IH (m - esize e)). lia.
    + cbn. lia.
Qed.

Lemma fit_maximal : forall m l e gone, l = fit m l ++ e :: gone -> m < tsize (fit m l) + esize e.
Proof.
  intros m l; revert m.
  induction l as [|a l IH]; intros m e gone H.
  - cbn in H. discriminate H.
  - rewrite fit_cons in *. destruct (esize a <=? m) eqn:E.
    + rewrite <- app_comm_cons in H. injection H as H.
      apply IH in H. rewrite tsize_cons. lia.
    + cbn [app] in H. injection H as H1 H2. subst a. cbn [tsize fold_right]. lia.
Qed.

Lemma fit_keeps : forall m l, tsize l <= m -> fit m l = l.
Proof.
  intros m l; revert m.
  induction l as [|e l IH]; intros m H.
  - reflexivity.
  - rewrite tsize_cons in H. pose proof (tsize_nonneg l).
    rewrite fit_cons. destruct (esize e <=? m) eqn:E; [|lia].
    f_equal. apply IH. lia.
Qed.

Lemma fit_small : forall m l, m < 32 -> fit m l = [].
Proof.
  intros m [|e l] H; [reflexivity|].
  rewrite fit_cons. pose proof (esize_ge e).
  destruct (esize e <=? m) eqn:E; [lia|reflexivity].
Qed.

(** dropping the oldest entry of a list that does not fit changes nothing *)
Lemma fit_app_last : forall l m x, m < tsize (l ++ [x]) -> fit m (l ++ [x]) = fit m l.
Proof.
  induction l as [|a l IH]; intros m x H.
  - cbn [app] in *. rewrite fit_cons. cbn [tsize fold_right] in H.
    destruct (esize x <=? m) eqn:E; [lia|reflexivity].
  - rewrite <- app_comm_cons in *. rewrite tsize_cons in H. rewrite !fit_cons.
    destruct (esize a <=? m) eqn:E; [|reflexivity].
    f_equal. apply IH. lia.
Qed.

Lemma insert_too_big : forall m e l, m < esize e -> insert m e l = [].
Proof.
  intros m e l H. unfold insert. rewrite fit_cons.
  destruct (esize e <=? m) eqn:E; [lia|reflexivity].
Qed.

Lemma insert_fits : forall m e l, esize e <= m -> insert m e l = e :: fit (m - esize e) l.
Proof.
  intros m e l H. unfold insert. rewrite fit_cons.
  destruct (esize e <=? m) eqn:E; [reflexivity|lia].
Qed.

Lemma raise_keeps : forall t m, TInv t -> t.(maxsize) <= m -> 0 <= t.(maxsize) ->
  resize m t.(entries) = t.(entries).
Proof.
  intros t m [_ H] Hm H0. unfold resize. apply fit_keeps. lia.
Qed.

Lemma lookup_dynamic : forall (t : table) k, 0 <= k ->
  lookup (62 + k) t.(entries) = nth_error t.(entries) (Z.to_nat k).
Proof.
  intros t k Hk. unfold lookup.
  destruct (1 <=? 62 + k) eqn:E1; [|lia].
  destruct (62 + k <=? 61) eqn:E2; [lia|].
  destruct (62 <=? 62 + k) eqn:E3; [|lia].
  cbn [andb].
  replace (62 + k - 62) with k by lia.
  match goal with |- context [k <? ?b] => destruct (k <? b) eqn:E4 end.
  - reflexivity.
  - symmetry. apply nth_error_None. unfold len, entry in *. lia.
Qed.

Lemma lookup_invalid : forall (t : table) i, i <= 0 \/ 62 + len t.(entries) <= i ->
  lookup i t.(entries) = None.
Proof.
  intros t i H. unfold lookup.
  destruct H as [H|H].
  - destruct (1 <=? i) eqn:E1; [lia|]. cbn [andb].
    destruct (62 <=? i) eqn:E3; [lia|reflexivity].
  - destruct (i <=? 61) eqn:E2; [unfold len, entry in *; lia|]. rewrite andb_false_r.
    destruct (62 <=? i) eqn:E3; [|reflexivity].
    match goal with |- context [i - 62 <? ?b] => destruct (i - 62 <? b) eqn:E4 end; [unfold len, entry in *; lia|reflexivity].
Qed.

(** * Part 2: the model *)

Lemma table_entry_size_esize n v : table_entry_size n v = esize (n, v).
Proof. reflexivity. Qed.

Lemma TInv_init : TInv HeaderTable_init.
Proof. unfold TInv, HeaderTable_init, DEFAULT_SIZE. cbn. lia. Qed.

(** ** _shrink *)
Lemma pop_right_last {A} (l : list A) x : pop_right (l ++ [x]) = Ok (x, l).
Proof.
  unfold pop_right. rewrite rev_app_distr. cbn [rev app]. rewrite rev_involutive. reflexivity.
Qed.

Definition shrink_body : Z * table -> ctl (Z * table) unit := fun '(cursize, self) =>
  if (cursize >? self.(maxsize)) then
  match pop_right self.(entries) with Err e_ => Raise e_ (cursize, self) | Ok ((name, value), rest_) =>
  let self := set_entries rest_ self in
  let cursize := (cursize - (table_entry_size (name) (value))) in
  Next (cursize, self) end
  else Break (cursize, self).

Lemma shrink_loop : forall fuel mx cs rz l,
  0 <= mx -> (length l < fuel)%nat ->
  while_fuel fuel shrink_body
    (tsize l, {| maxsize := mx; cursize := cs; resized := rz; entries := l |}) =
  Done (tsize (fit mx l), {| maxsize := mx; cursize := cs; resized := rz; entries := fit mx l |}).
Proof.
  induction fuel as [|fuel IH]; intros mx cs rz l Hm Hf; [inversion Hf|].
  cbn [while_fuel shrink_body maxsize entries].
  destruct (tsize l >? mx) eqn:E.
  - destruct l as [|a l0] using rev_ind; [cbn in E; lia|]. clear IHl0.
    rewrite pop_right_last. destruct a as [n v].
    rewrite table_entry_size_esize.
    unfold set_entries; cbn [maxsize cursize resized entries].
    rewrite tsize_app in *. cbn [tsize fold_right] in *.
    replace (tsize l0 + (esize (n, v) + 0) - esize (n, v)) with (tsize l0) by lia.
    rewrite app_length in Hf. cbn [length] in Hf.
    rewrite IH by (try lia).
    rewrite fit_app_last; [reflexivity|].
    rewrite tsize_app. cbn [tsize fold_right]. lia.
  - rewrite fit_keeps by lia. reflexivity.
Qed.

Lemma shrink_spec : forall t, t.(cursize) = tsize t.(entries) -> 0 <= t.(maxsize) ->
  HeaderTable__shrink t =
    (Ok tt, {| maxsize := t.(maxsize); cursize := tsize (fit t.(maxsize) t.(entries));
               resized := t.(resized); entries := fit t.(maxsize) t.(entries) |}).
Proof.
  intros [mx cs rz l] Hc Hm. cbn [maxsize cursize resized entries] in *. subst cs.
  unfold HeaderTable__shrink. cbn [maxsize cursize resized entries].
  change (while_fuel (S (length l)) _ ?s) with (while_fuel (S (length l)) shrink_body s).
  rewrite shrink_loop; [reflexivity | lia | apply Nat.lt_succ_diag_r].
Qed.

(** ** add *)
Lemma add_spec : forall t n v, TInv t ->
  exists t', HeaderTable_add t n v = (Ok tt, t') /\
    t'.(entries) = insert t.(maxsize) (n, v) t.(entries) /\
    t'.(maxsize) = t.(maxsize) /\ t'.(resized) = t.(resized) /\ TInv t'.
Proof.
  intros [mx cs rz l] n v [Hc Hb]. cbn [maxsize cursize resized entries] in *.
  unfold HeaderTable_add. rewrite table_entry_size_esize.
  cbn [maxsize cursize resized entries].
  destruct (esize (n, v) >? mx) eqn:E.
  - eexists; split; [reflexivity|].
    unfold set_cursize, set_entries; cbn [maxsize cursize resized entries].
    rewrite insert_too_big by lia.
    repeat split; cbn [maxsize cursize resized entries tsize fold_right]; lia.
  - pose proof (esize_ge (n, v)) as H32.
    rewrite shrink_spec.
    2:{ unfold set_cursize, set_entries; cbn [maxsize cursize resized entries].
        rewrite tsize_cons. lia. }
    2:{ unfold set_cursize, set_entries; cbn [maxsize cursize resized entries]. lia. }
    unfold set_cursize, set_entries; cbn [sbind maxsize cursize resized entries].
    eexists; split; [reflexivity|].
    cbn [maxsize cursize resized entries]. unfold insert.
    repeat split; cbn [maxsize cursize resized entries].
    pose proof (fit_bound mx ((n, v) :: l)). lia.
Qed.

(** ** maxsize setter *)
Lemma set_maxsize_spec : forall t m, TInv t ->
  exists t', HeaderTable_set_maxsize t m = (Ok tt, t') /\
    t'.(entries) = resize m t.(entries) /\ t'.(maxsize) = m /\
    t'.(resized) = (t.(resized) || negb (m =? t.(maxsize))) /\ TInv t'.
Proof.
  intros [mx cs rz l] m [Hc Hb]. cbn [maxsize cursize resized entries] in *.
  unfold HeaderTable_set_maxsize, resize.
  unfold set_maxsize, set_resized; cbn [maxsize cursize resized entries].
  destruct (m <=? 0) eqn:E0.
  - eexists; split; [reflexivity|].
    unfold set_cursize, set_entries; cbn [maxsize cursize resized entries].
    rewrite fit_small by lia.
    repeat split; cbn [maxsize cursize resized entries tsize fold_right]; lia.
  - destruct (mx >? m) eqn:E1.
    + rewrite shrink_spec by (cbn [maxsize cursize resized entries]; lia).
      cbn [sbind maxsize cursize resized entries].
      eexists; split; [reflexivity|].
      repeat split; cbn [maxsize cursize resized entries].
      pose proof (fit_bound m l). lia.
    + eexists; split; [reflexivity|].
      cbn [maxsize cursize resized entries].
      rewrite fit_keeps by lia.
      repeat split; cbn [maxsize cursize resized entries]; lia.
Qed.

(** ** the static data *)
Lemma static_data : STATIC_TABLE = static_table /\ STATIC_TABLE_LENGTH = 61 /\ length static_table = 61%nat.
Proof. repeat split. Qed.

Lemma static_length : length static_table = 61%nat.
Proof. reflexivity. Qed.

(** ** get_by_index *)
Lemma py_format_d_ok i : Z.abs i < 10 ^ 4300 -> py_format_d i = Ok tt.
Proof.
  intros H. unfold py_format_d.
  remember (10 ^ 4300) as B eqn:HB. clear HB.
  destruct (B <=? Z.abs i) eqn:E; [lia|reflexivity].
Qed.

Lemma index_Z_nth {A} (l : list A) i : 0 <= i < len l ->
  exists x, nth_error l (Z.to_nat i) = Some x /\ index_Z l i = Ok x.
Proof.
  intros H. unfold index_Z, len in *.
  destruct (i <? 0) eqn:E; [lia|]. rewrite E.
  destruct (nth_error l (Z.to_nat i)) as [x|] eqn:N.
  - exists x. split; reflexivity.
  - apply nth_error_None in N. lia.
Qed.

Lemma get_by_index_spec : forall t i, Z.abs i < 10 ^ 4300 ->
  HeaderTable_get_by_index t i =
    match lookup i t.(entries) with Some e => Ok e | None => Err InvalidTableIndex end.
Proof.
  intros t i Hi. unfold HeaderTable_get_by_index, lookup, entry.
  rewrite (py_format_d_ok i Hi). clear Hi.
  replace STATIC_TABLE with static_table by reflexivity.
  replace STATIC_TABLE_LENGTH with 61 by reflexivity.
  cbn [bind].
  destruct (0 <=? i - 1) eqn:E0.
  - destruct (i - 1 <? 61) eqn:E1.
    + destruct (1 <=? i) eqn:E2; [|lia]. destruct (i <=? 61) eqn:E3; [|lia]. cbn [andb].
      destruct (index_Z_nth static_table (i - 1)) as [x [N I]].
      { unfold len. rewrite static_length. lia. }
      rewrite N, I. reflexivity.
    + destruct (i <=? 61) eqn:E3; [lia|]. rewrite andb_false_r.
      destruct (62 <=? i) eqn:E4; [|lia].
      replace (i - 1 - 61) with (i - 62) by lia.
      destruct (i - 62 <? len (entries t)) eqn:E5.
      * destruct (index_Z_nth (entries t) (i - 62)) as [x [N I]]; [lia|].
        rewrite N, I. reflexivity.
      * replace (nth_error (entries t) (Z.to_nat (i - 62))) with (@None (bytes * bytes)); [reflexivity|].
        symmetry. apply nth_error_None. unfold len in E5. lia.
  - destruct (1 <=? i) eqn:E2; [lia|]. cbn [andb].
    destruct (62 <=? i) eqn:E4; [lia|]. reflexivity.
Qed.

Lemma static_everywhere : forall t i, 1 <= i <= 61 ->
  HeaderTable_get_by_index t i = match nth_error static_table (Z.to_nat (i - 1)) with Some e => Ok e | None => Err InvalidTableIndex end
  /\ nth_error static_table (Z.to_nat (i - 1)) <> None.
Proof.
  intros t i Hi. split.
  - rewrite get_by_index_spec.
    + unfold lookup. destruct (1 <=? i) eqn:E2; [|lia]. destruct (i <=? 61) eqn:E3; [|lia].
      reflexivity.
    + assert (H : 10 ^ 2 <= 10 ^ 4300) by (apply Z.pow_le_mono_r; lia).
      change (10 ^ 2) with 100 in H.
      remember (10 ^ 4300) as B eqn:HB. clear HB. lia.
  - intros N. apply nth_error_None in N. rewrite static_length in N. lia.
Qed.

(** ** bytes equality and association lists *)
Lemma bytes_eqb_eq : forall a b, bytes_eqb a b = true <-> a = b.
Proof.
  induction a as [|x a IH]; intros [|y b]; cbn [bytes_eqb]; split; intros H;
    try reflexivity; try discriminate H.
  - apply andb_true_iff in H. destruct H as [H1 H2].
    apply Strings.Byte.byte_dec_bl in H1. apply IH in H2. subst. reflexivity.
  - injection H as H1 H2. apply andb_true_iff. split.
    + apply Strings.Byte.byte_dec_lb. exact H1.
    + apply IH. exact H2.
Qed.

Lemma bytes_eqb_refl a : bytes_eqb a a = true.
Proof. apply bytes_eqb_eq. reflexivity. Qed.

Lemma bytes_eqb_neq a b : bytes_eqb a b = false -> a <> b.
Proof. intros H E. apply bytes_eqb_eq in E. congruence. Qed.

Lemma assoc_bytes_In {V} k (d : list (bytes * V)) v : assoc_bytes k d = Some v -> In (k, v) d.
Proof.
  induction d as [|[k' v'] d IH]; cbn [assoc_bytes]; intros H; [discriminate H|].
  destruct (bytes_eqb k k') eqn:E.
  - apply bytes_eqb_eq in E. injection H as H. subst. left. reflexivity.
  - right. apply IH. exact H.
Qed.

Lemma assoc_bytes_None {V} k (d : list (bytes * V)) : assoc_bytes k d = None -> forall v, ~ In (k, v) d.
Proof.
  induction d as [|[k' v'] d IH]; cbn [assoc_bytes]; intros H v HI; [exact HI|].
  destruct (bytes_eqb k k') eqn:E; [discriminate H|].
  destruct HI as [HI|HI].
  - injection HI as H1 H2. subst. rewrite bytes_eqb_refl in E. discriminate E.
  - exact (IH H v HI).
Qed.

(** ** STATIC_TABLE_MAPPING against Appendix A: two finite sweeps *)
Definition map_sound_b : bool :=
  forallb (fun '(name, (first, vals)) =>
     (1 <=? first) && (first <=? 61) &&
     match nth_error static_table (Z.to_nat (first - 1)) with
     | Some (n, _) => bytes_eqb n name | None => false end &&
     forallb (fun '(value, idx) =>
        (1 <=? idx) && (idx <=? 61) &&
        match nth_error static_table (Z.to_nat (idx - 1)) with
        | Some (n, v) => bytes_eqb n name && bytes_eqb v value | None => false end) vals)
  STATIC_TABLE_MAPPING.

Lemma map_sound : map_sound_b = true.
Proof. vm_compute. reflexivity. Qed.

Definition map_complete_b : bool :=
  forallb (fun '(n, v) =>
     match assoc_bytes n STATIC_TABLE_MAPPING with
     | Some (_, vals) => match assoc_bytes v vals with Some _ => true | None => false end
     | None => false end) static_table.

Lemma map_complete : map_complete_b = true.
Proof. vm_compute. reflexivity. Qed.

Lemma static_map_entry : forall name first vals,
  assoc_bytes name STATIC_TABLE_MAPPING = Some (first, vals) ->
  (1 <= first <= 61 /\ exists e, nth_error static_table (Z.to_nat (first - 1)) = Some e /\ fst e = name) /\
  forall value idx, assoc_bytes value vals = Some idx ->
    1 <= idx <= 61 /\ nth_error static_table (Z.to_nat (idx - 1)) = Some (name, value).
Proof.
  intros name first vals H. apply assoc_bytes_In in H.
  pose proof map_sound as S. unfold map_sound_b in S.
  rewrite forallb_forall in S. specialize (S _ H). cbv beta iota in S.
  apply andb_true_iff in S. destruct S as [S S3].
  apply andb_true_iff in S. destruct S as [S S2].
  apply andb_true_iff in S. destruct S as [S0 S1].
  split.
  - split; [lia|].
    destruct (nth_error static_table (Z.to_nat (first - 1))) as [[n v]|]; [|discriminate S2].
    apply bytes_eqb_eq in S2. exists (n, v). split; [reflexivity|exact S2].
  - intros value idx Hv. apply assoc_bytes_In in Hv.
    rewrite forallb_forall in S3. specialize (S3 _ Hv). cbv beta iota in S3.
    apply andb_true_iff in S3. destruct S3 as [S3 S6].
    apply andb_true_iff in S3. destruct S3 as [S4 S5].
    split; [lia|].
    destruct (nth_error static_table (Z.to_nat (idx - 1))) as [[n v]|]; [|discriminate S6].
    apply andb_true_iff in S6. destruct S6 as [S6 S7].
    apply bytes_eqb_eq in S6. apply bytes_eqb_eq in S7. subst. reflexivity.
Qed.

Lemma static_map_complete : forall n v, In (n, v) static_table ->
  exists f vals idx, assoc_bytes n STATIC_TABLE_MAPPING = Some (f, vals) /\ assoc_bytes v vals = Some idx.
Proof.
  intros n v H. pose proof map_complete as S. unfold map_complete_b in S.
  rewrite forallb_forall in S. specialize (S _ H). cbv beta iota in S.
  destruct (assoc_bytes n STATIC_TABLE_MAPPING) as [[f vals]|] eqn:A; [|discriminate S].
  destruct (assoc_bytes v vals) as [idx|] eqn:B; [|discriminate S].
  exists f, vals, idx. split; [reflexivity|exact B].
Qed.

Lemma lookup_static i dyn : 1 <= i <= 61 -> lookup i dyn = nth_error static_table (Z.to_nat (i - 1)).
Proof.
  intros H. unfold lookup.
  destruct (1 <=? i) eqn:E1; [|lia]. destruct (i <=? 61) eqn:E2; [|lia]. reflexivity.
Qed.

(** a lookup is either static or dynamic *)
Lemma lookup_cases i dyn e : lookup i dyn = Some e ->
  In e static_table \/ exists k, nth_error dyn k = Some e.
Proof.
  unfold lookup. intros H.
  destruct ((1 <=? i) && (i <=? 61)).
  - left. eapply nth_error_In. exact H.
  - destruct (62 <=? i); [|discriminate H]. cbn [andb] in H.
    match type of H with context [?a <? ?b] => destruct (a <? b) end; [|discriminate H].
    right. eexists. exact H.
Qed.

(** ** search *)
Definition sres := option (Z * bytes * option bytes).

Definition sloop (name value : bytes) (s : Z) (l : list (bytes * bytes)) (partial : sres) : lres sres sres :=
  for_each (enumerate_from s l) (fun '(i, (n, v)) partial =>
    if (bytes_eqb n name)
    then if (bytes_eqb v value)
    then Return ((Some ((i + (STATIC_TABLE_LENGTH + 1)), n, (Some v)))) partial
    else match partial with
    | Some _ =>
    Next partial
    | None =>
    let partial := (Some ((i + (STATIC_TABLE_LENGTH + 1)), n, None)) in
    Next partial
    end
    else Next partial) partial.

Definition sfinish (r : lres sres sres) : outcome sres :=
  match r with
  | Done partial => Ok (partial)
  | Returned r_ _ => Ok r_
  | Raised e_ _ => Err e_
  | Exhausted _ => Err OutOfFuel
  end.

Lemma search_unfold t name value :
  HeaderTable_search t name value =
  match assoc_bytes name STATIC_TABLE_MAPPING with
  | Some h =>
      match assoc_bytes value (snd h) with
      | Some index => Ok (Some (index, name, Some value))
      | None => sfinish (sloop name value 0 t.(entries) (Some (fst h, name, None)))
      end
  | None => sfinish (sloop name value 0 t.(entries) None)
  end.
Proof. reflexivity. Qed.

Fixpoint dsearch (name value : bytes) (s : Z) (l : list (bytes * bytes)) (partial : sres) : sres :=
  match l with
  | [] => partial
  | (n, v) :: r =>
      if bytes_eqb n name then
        if bytes_eqb v value then Some (s + 62, n, Some v)
        else dsearch name value (s + 1) r
               (match partial with Some _ => partial | None => Some (s + 62, n, None) end)
      else dsearch name value (s + 1) r partial
  end.

Lemma sloop_spec name value : forall l s partial,
  sfinish (sloop name value s l partial) = Ok (dsearch name value s l partial).
Proof.
  unfold sloop. change (STATIC_TABLE_LENGTH + 1) with 62.
  induction l as [|[n v] r IH]; intros s partial.
  - reflexivity.
  - cbn [enumerate_from for_each dsearch].
    destruct (bytes_eqb n name); [|apply IH].
    destruct (bytes_eqb v value); [reflexivity|].
    destruct partial as [p|]; apply IH.
Qed.

Section DSearch.
Variables name value : bytes.

Lemma dsearch_sound : forall l s partial i n' p,
  dsearch name value s l partial = Some (i, n', p) ->
  partial = Some (i, n', p) \/
  (n' = name /\ exists k e, nth_error l k = Some e /\ i = s + 62 + Z.of_nat k /\ fst e = name /\
     match p with Some v' => v' = value /\ snd e = value | None => True end).
Proof.
  induction l as [|[n v] r IH]; intros s partial i n' p H; cbn [dsearch] in H.
  - left. exact H.
  - destruct (bytes_eqb n name) eqn:En.
    + apply bytes_eqb_eq in En. subst n.
      destruct (bytes_eqb v value) eqn:Ev.
      * apply bytes_eqb_eq in Ev. subst v. injection H as H1 H2 H3. subst i n' p.
        right. split; [reflexivity|]. exists 0%nat, (name, value).
        cbn [nth_error fst snd]. repeat split. lia.
      * apply IH in H. destruct H as [H|[Hn [k [e [N [Hi [He Hp]]]]]]].
        -- destruct partial as [q|]; [left; exact H|].
           injection H as H1 H2 H3. subst i n' p.
           right. split; [reflexivity|]. exists 0%nat, (name, v).
           cbn [nth_error fst snd]. repeat split. lia.
        -- right. split; [exact Hn|]. exists (S k), e. cbn [nth_error].
           repeat split; try assumption. lia.
    + apply IH in H. destruct H as [H|[Hn [k [e [N [Hi [He Hp]]]]]]]; [left; exact H|].
      right. split; [exact Hn|]. exists (S k), e. cbn [nth_error].
      repeat split; try assumption. lia.
Qed.

Lemma dsearch_complete : forall l s partial k, nth_error l k = Some (name, value) ->
  exists i', dsearch name value s l partial = Some (i', name, Some value).
Proof.
  induction l as [|[n v] r IH]; intros s partial k H.
  - destruct k; discriminate H.
  - cbn [dsearch]. destruct k as [|k]; cbn [nth_error] in H.
    + injection H as H1 H2. subst n v. rewrite !bytes_eqb_refl. eexists. reflexivity.
    + destruct (bytes_eqb n name) eqn:En; [|eapply IH; exact H].
      destruct (bytes_eqb v value) eqn:Ev; [|eapply IH; exact H].
      apply bytes_eqb_eq in En. apply bytes_eqb_eq in Ev. subst n v. eexists. reflexivity.
Qed.

Lemma dsearch_some : forall l s i0 p0,
  exists i' p', dsearch name value s l (Some (i0, name, p0)) = Some (i', name, p').
Proof.
  induction l as [|[n v] r IH]; intros s i0 p0; cbn [dsearch].
  - eexists. eexists. reflexivity.
  - destruct (bytes_eqb n name) eqn:En; [|apply IH].
    destruct (bytes_eqb v value) eqn:Ev; [|apply IH].
    apply bytes_eqb_eq in En. subst n. eexists. eexists. reflexivity.
Qed.

Lemma dsearch_name : forall l s k v0, nth_error l k = Some (name, v0) ->
  exists i' p', dsearch name value s l None = Some (i', name, p').
Proof.
  induction l as [|[n v] r IH]; intros s k v0 H.
  - destruct k; discriminate H.
  - cbn [dsearch].
    assert (C : bytes_eqb n name = true ->
                exists i' p', (if bytes_eqb v value then Some (s + 62, n, Some v)
                   else dsearch name value (s + 1) r (Some (s + 62, n, None))) = Some (i', name, p')).
    { intros En. apply bytes_eqb_eq in En. subst n.
      destruct (bytes_eqb v value); [eexists; eexists; reflexivity|apply dsearch_some]. }
    destruct k as [|k]; cbn [nth_error] in H.
    + injection H as H1 H2. subst n v. rewrite bytes_eqb_refl. apply C. apply bytes_eqb_refl.
    + destruct (bytes_eqb n name) eqn:En; [apply C; reflexivity|].
      eapply IH. exact H.
Qed.

Lemma dsearch_none : forall l s partial, dsearch name value s l partial = None ->
  partial = None /\ forall k e, nth_error l k = Some e -> fst e <> name.
Proof.
  induction l as [|[n v] r IH]; intros s partial H; cbn [dsearch] in H.
  - split; [exact H|]. intros k e N. destruct k; discriminate N.
  - destruct (bytes_eqb n name) eqn:En.
    + destruct (bytes_eqb v value); [discriminate H|].
      apply IH in H. destruct H as [H _]. destruct partial; discriminate H.
    + apply IH in H. destruct H as [H1 H2]. split; [exact H1|].
      intros k e N. destruct k as [|k]; cbn [nth_error] in N.
      * injection N as N. subst e. cbn [fst]. apply bytes_eqb_neq. exact En.
      * eapply H2. exact N.
Qed.
End DSearch.

Lemma search_total : forall t n v, exists r, HeaderTable_search t n v = Ok r.
Proof.
  intros t n v. rewrite search_unfold.
  destruct (assoc_bytes n STATIC_TABLE_MAPPING) as [h|].
  - destruct (assoc_bytes v (snd h)) as [idx|]; [eexists; reflexivity|].
    rewrite sloop_spec. eexists; reflexivity.
  - rewrite sloop_spec. eexists; reflexivity.
Qed.

Lemma search_sound : forall t n v i n' p, HeaderTable_search t n v = Ok (Some (i, n', p)) ->
  n' = n /\ exists e, lookup i t.(entries) = Some e /\ fst e = n /\
  match p with Some v' => v' = v /\ snd e = v | None => True end.
Proof.
  intros t n v i n' p H. rewrite search_unfold in H.
  assert (D : forall partial, dsearch n v 0 (entries t) partial = Some (i, n', p) ->
              partial = Some (i, n', p) \/
              (n' = n /\ exists e, lookup i (entries t) = Some e /\ fst e = n /\
                 match p with Some v' => v' = v /\ snd e = v | None => True end)).
  { intros partial Hd. apply dsearch_sound in Hd.
    destruct Hd as [Hd|[Hn [k [e [N [Hi [He Hp]]]]]]]; [left; exact Hd|right].
    split; [exact Hn|]. exists e. split; [|split; assumption].
    subst i. replace (0 + 62 + Z.of_nat k) with (62 + Z.of_nat k) by lia.
    rewrite lookup_dynamic by lia. rewrite Nat2Z.id. exact N. }
  destruct (assoc_bytes n STATIC_TABLE_MAPPING) as [[f vals]|] eqn:A.
  - destruct (static_map_entry _ _ _ A) as [[Hf [e [Ne He]]] Hv]. cbn [fst snd] in H.
    destruct (assoc_bytes v vals) as [idx|] eqn:B.
    + injection H as H1 H2 H3. subst i n' p.
      destruct (Hv _ _ B) as [Hi N].
      split; [reflexivity|]. exists (n, v). rewrite lookup_static by exact Hi.
      cbn [fst snd]. repeat split. exact N.
    + rewrite sloop_spec in H. injection H as H.
      apply D in H. destruct H as [H|H]; [|exact H].
      injection H as H1 H2 H3. subst i n' p.
      split; [reflexivity|]. exists e. rewrite lookup_static by exact Hf.
      repeat split; assumption.
  - rewrite sloop_spec in H. injection H as H.
    apply D in H. destruct H as [H|H]; [discriminate H|exact H].
Qed.

Lemma search_complete : forall t n v i, lookup i t.(entries) = Some (n, v) ->
  exists i', HeaderTable_search t n v = Ok (Some (i', n, Some v)).
Proof.
  intros t n v i H. rewrite search_unfold.
  apply lookup_cases in H. destruct H as [H|[k H]].
  - destruct (static_map_complete _ _ H) as [f [vals [idx [A B]]]].
    rewrite A. cbn [snd]. rewrite B. eexists; reflexivity.
  - destruct (assoc_bytes n STATIC_TABLE_MAPPING) as [h|].
    + destruct (assoc_bytes v (snd h)) as [idx|]; [eexists; reflexivity|].
      rewrite sloop_spec.
      destruct (dsearch_complete n v _ 0 (Some (fst h, n, None)) _ H) as [i' Hd].
      rewrite Hd. eexists; reflexivity.
    + rewrite sloop_spec.
      destruct (dsearch_complete n v _ 0 None _ H) as [i' Hd].
      rewrite Hd. eexists; reflexivity.
Qed.

Lemma search_name_complete : forall t n v v0 i, lookup i t.(entries) = Some (n, v0) ->
  exists i' p, HeaderTable_search t n v = Ok (Some (i', n, p)).
Proof.
  intros t n v v0 i H. rewrite search_unfold.
  destruct (assoc_bytes n STATIC_TABLE_MAPPING) as [h|] eqn:A.
  - destruct (assoc_bytes v (snd h)) as [idx|]; [eexists; eexists; reflexivity|].
    rewrite sloop_spec.
    destruct (dsearch_some n v (entries t) 0 (fst h) None) as [i' [p' Hd]].
    rewrite Hd. eexists; eexists; reflexivity.
  - apply lookup_cases in H. destruct H as [H|[k H]].
    + destruct (static_map_complete _ _ H) as [f [vals [idx [A' B]]]]. congruence.
    + rewrite sloop_spec.
      destruct (dsearch_name n v _ 0 _ _ H) as [i' [p' Hd]].
      rewrite Hd. eexists; eexists; reflexivity.
Qed.

Lemma search_none : forall t n v, HeaderTable_search t n v = Ok None ->
  forall i e, lookup i t.(entries) = Some e -> fst e <> n.
Proof.
  intros t n v H i e L. rewrite search_unfold in H.
  destruct (assoc_bytes n STATIC_TABLE_MAPPING) as [h|] eqn:A.
  - destruct (assoc_bytes v (snd h)) as [idx|]; [discriminate H|].
    rewrite sloop_spec in H. injection H as H.
    apply dsearch_none in H. destruct H as [H _]. discriminate H.
  - rewrite sloop_spec in H. injection H as H.
    apply dsearch_none in H. destruct H as [_ H].
    apply lookup_cases in L. destruct L as [L|[k L]].
    + intros E. destruct e as [n0 v0]. cbn [fst] in E. subst n0.
      destruct (static_map_complete _ _ L) as [f [vals [idx [A' B]]]]. congruence.
    + eapply H. exact L.
Qed.
