(** Proofs for C18: header text/bytes and container forms are interchangeable at the API. *)
From Coq Require Import ZArith List Bool.
From HV Require Import Prelude.Py Prelude.State Prelude.Utf8.
From HV Require Import Model.Data Model.Decoder Model.Encoder Model.Api.
Import ListNotations.
Open Scope Z_scope.

(** * Encoder side *)

Lemma header_args_spec_field : forall h, header_args h = spec_field h.
Proof.
  intros [n v | n v [[|]|] | n v | n v]; reflexivity.
Qed.

Definition colon (kv : pystr * pystr) : bool := starts_colon (_to_bytes (fst kv)).
Definition ncolon (kv : pystr * pystr) : bool := negb (starts_colon (_to_bytes (fst kv))).

Lemma insert_stable_ncolon : forall x l, colon x = false -> insert_stable x l = l ++ [x].
Proof.
  intros x l Hx. induction l as [|y r IH].
  - reflexivity.
  - cbn [insert_stable app]. unfold sort_key at 1. fold (colon x). rewrite Hx.
    cbn [negb andb]. rewrite IH. reflexivity.
Qed.

Lemma insert_stable_colon : forall x A B,
  colon x = true ->
  (forall a, In a A -> colon a = true) ->
  (forall b, In b B -> colon b = false) ->
  insert_stable x (A ++ B) = A ++ x :: B.
Proof.
  intros x A B Hx. induction A as [|a A IH]; intros HA HB.
  - cbn [app]. destruct B as [|y r].
    + reflexivity.
    + cbn [insert_stable]. unfold sort_key. fold (colon x). fold (colon y).
      rewrite Hx, (HB y (or_introl eq_refl)). reflexivity.
  - cbn [app insert_stable]. unfold sort_key at 2. fold (colon a).
    rewrite (HA a (or_introl eq_refl)). cbn [negb]. rewrite andb_false_r.
    rewrite IH.
    + reflexivity.
    + intros a' Ha'. apply HA. right. exact Ha'.
    + exact HB.
Qed.

Lemma insert_stable_partition : forall x seen,
  insert_stable x (filter colon seen ++ filter ncolon seen)
  = filter colon (seen ++ [x]) ++ filter ncolon (seen ++ [x]).
Proof.
  intros x seen. rewrite !filter_app. cbn [filter].
  destruct (colon x) eqn:Hx.
  - assert (Hn : ncolon x = false) by (unfold ncolon; fold (colon x); rewrite Hx; reflexivity).
    rewrite Hn, app_nil_r, <- app_assoc. cbn [app].
    apply insert_stable_colon.
    + exact Hx.
    + intros a Ha. apply filter_In in Ha. exact (proj2 Ha).
    + intros b Hb. apply filter_In in Hb. destruct Hb as [_ Hb].
      unfold ncolon in Hb. fold (colon b) in Hb. apply negb_true_iff. exact Hb.
  - assert (Hn : ncolon x = true) by (unfold ncolon; fold (colon x); rewrite Hx; reflexivity).
    rewrite Hn, app_nil_r, app_assoc.
    apply insert_stable_ncolon. exact Hx.
Qed.

Lemma fold_insert_partition : forall items seen,
  fold_left (fun acc x => insert_stable x acc) items (filter colon seen ++ filter ncolon seen)
  = filter colon (seen ++ items) ++ filter ncolon (seen ++ items).
Proof.
  induction items as [|x r IH]; intros seen.
  - rewrite app_nil_r. reflexivity.
  - cbn [fold_left]. rewrite insert_stable_partition, IH, <- app_assoc. reflexivity.
Qed.

Lemma sorted_items_partition : forall items,
  sorted_items items = filter colon items ++ filter ncolon items.
Proof.
  intros items. unfold sorted_items.
  exact (fold_insert_partition items []).
Qed.

Lemma container_headers_canon : forall c, map header_args (container_headers c) = canon c.
Proof.
  intros [l | l | items]; cbn [container_headers canon].
  - apply map_ext. exact header_args_spec_field.
  - apply map_ext. exact header_args_spec_field.
  - unfold _dict_to_iterable. rewrite map_map, sorted_items_partition. reflexivity.
Qed.

Lemma encode_canon : forall e c huffman,
  Encoder_encode_api e c huffman = Encoder_encode e (canon c) huffman.
Proof.
  intros e c huffman. unfold Encoder_encode_api. rewrite container_headers_canon. reflexivity.
Qed.

Lemma dict_order : forall items,
  map (fun kv => (_to_bytes (fst kv), _to_bytes (snd kv)))
      (filter (fun kv => starts_colon (_to_bytes (fst kv))) items ++
       filter (fun kv => negb (starts_colon (_to_bytes (fst kv)))) items)
  = map (fun f => (fst (fst f), snd (fst f))) (canon (CDict items)).
Proof.
  intros items. cbn [canon]. rewrite map_map. reflexivity.
Qed.

(** * Decoder side *)

Definition hvalid (h : header) : bool := utf8_valid (h_name h) && utf8_valid (h_value h).

Lemma unicode_if_needed_raw : forall h, _unicode_if_needed h true = Ok h.
Proof. intros [[c n] v]. reflexivity. Qed.

Lemma unicode_if_needed_text : forall h,
  _unicode_if_needed h false = if hvalid h then Ok h else Err UnicodeDecodeError.
Proof.
  intros [[c n] v]. unfold _unicode_if_needed, hvalid, py_decode_utf8, h_name, h_value, h_class.
  cbn [negb fst snd].
  destruct (utf8_valid n); [destruct (utf8_valid v)|]; reflexivity.
Qed.

Lemma unicode_all_raw : forall hs, unicode_all hs true = Ok hs.
Proof.
  induction hs as [|h r IH].
  - reflexivity.
  - cbn [unicode_all]. rewrite unicode_if_needed_raw, IH. reflexivity.
Qed.

Lemma unicode_all_text : forall hs,
  unicode_all hs false = if forallb hvalid hs then Ok hs else Err UnicodeDecodeError.
Proof.
  induction hs as [|h r IH].
  - reflexivity.
  - cbn [unicode_all forallb]. rewrite unicode_if_needed_text, IH.
    destruct (hvalid h); [destruct (forallb hvalid r)|]; reflexivity.
Qed.

Lemma unicode_all_text_ok : forall hs,
  forallb hvalid hs = true -> unicode_all hs false = Ok hs.
Proof. intros hs H. rewrite unicode_all_text, H. reflexivity. Qed.

Lemma unicode_all_text_err : forall hs,
  forallb hvalid hs = false -> unicode_all hs false = Err UnicodeDecodeError.
Proof. intros hs H. rewrite unicode_all_text, H. reflexivity. Qed.

Lemma unicode_all_text_same : forall hs hs', unicode_all hs false = Ok hs' -> hs' = hs.
Proof.
  intros hs hs' H. rewrite unicode_all_text in H.
  destruct (forallb hvalid hs); [injection H as H; symmetry; exact H | discriminate H].
Qed.

(** the tail of [decode] after the loop, as a function of [raw] *)
Definition decode_tail (self : decoder) (headers : list header) (raw : bool)
  : outcome (list header) * decoder :=
  mbind (Decoder__assert_valid_table_size self) self (fun _ =>
  (catch UnicodeDecodeError HPACKDecodingError (unicode_all headers raw), self)).

Lemma decode_tail_raw : forall s hs,
  decode_tail s hs true =
  match Decoder__assert_valid_table_size s with Ok _ => (Ok hs, s) | Err e => (Err e, s) end.
Proof.
  intros s hs. unfold decode_tail. rewrite unicode_all_raw.
  destruct (Decoder__assert_valid_table_size s); reflexivity.
Qed.

Lemma decode_tail_text : forall s hs,
  decode_tail s hs false =
  match Decoder__assert_valid_table_size s with
  | Ok _ => (if forallb hvalid hs then Ok hs else Err HPACKDecodingError, s)
  | Err e => (Err e, s)
  end.
Proof.
  intros s hs. unfold decode_tail. rewrite unicode_all_text.
  destruct (Decoder__assert_valid_table_size s); [|reflexivity].
  destruct (forallb hvalid hs); reflexivity.
Qed.

Lemma Decoder_decode_tail : forall d data raw,
  Decoder_decode d data raw =
  match while_fuel (S (length data)) (decode_body data (len data)) (d, [], 0, 0) with
  | Done (self, headers, _, _) => decode_tail self headers raw
  | Returned r (self, _, _, _) => (Ok r, self)
  | Raised e (self, _, _, _) => (Err e, self)
  | Exhausted (self, _, _, _) => (Err OutOfFuel, self)
  end.
Proof. reflexivity. Qed.

Ltac split_loop d data :=
  rewrite !Decoder_decode_tail;
  destruct (while_fuel (S (length data)) (decode_body data (len data)) (d, [], 0, 0))
    as [[[[s hs0] sz] ix] | r [[[s hs0] sz] ix] | ex [[[s hs0] sz] ix] | [[[s hs0] sz] ix]].

Lemma modes_same_state : forall d data,
  snd (Decoder_decode d data true) = snd (Decoder_decode d data false).
Proof.
  intros d data. split_loop d data; try reflexivity.
  rewrite decode_tail_raw, decode_tail_text.
  destruct (Decoder__assert_valid_table_size s); reflexivity.
Qed.

Lemma text_ok_raw_same : forall d data hs d',
  Decoder_decode d data false = (Ok hs, d') -> Decoder_decode d data true = (Ok hs, d').
Proof.
  intros d data hs d'. split_loop d data; try (intros H; exact H).
  rewrite decode_tail_raw, decode_tail_text.
  destruct (Decoder__assert_valid_table_size s); [|intros H; exact H].
  destruct (forallb hvalid hs0); [intros H; exact H | intros H; discriminate H].
Qed.

(** the loop body never [Return]s, so the loop never ends in [Returned] *)
Lemma decode_body_no_return : forall data L st r s', decode_body data L st <> Return r s'.
Proof.
  intros data L [[[self hs] sz] ix] r s'. unfold decode_body.
  repeat match goal with
         | |- context [match ?x with _ => _ end] => destruct x
         end; discriminate.
Qed.

Lemma while_no_return : forall (S R : Type) (body : S -> ctl S R),
  (forall s r s', body s <> Return r s') ->
  forall fuel s r s', while_fuel fuel body s <> Returned r s'.
Proof.
  intros S R body Hb. induction fuel as [|fuel IH]; intros s r s'.
  - discriminate.
  - cbn [while_fuel]. destruct (body s) as [s1|s1|r1 s1|e1 s1] eqn:E.
    + apply IH.
    + discriminate.
    + exfalso. exact (Hb _ _ _ E).
    + discriminate.
Qed.

Lemma raw_ok_text : forall d data hs d',
  Decoder_decode d data true = (Ok hs, d') ->
  (forallb (fun h => utf8_valid (h_name h) && utf8_valid (h_value h)) hs = true /\
   Decoder_decode d data false = (Ok hs, d')) \/
  (forallb (fun h => utf8_valid (h_name h) && utf8_valid (h_value h)) hs = false /\
   Decoder_decode d data false = (Err HPACKDecodingError, d')).
Proof.
  intros d data hs d'. fold hvalid. rewrite !Decoder_decode_tail.
  pose proof (while_no_return _ _ _ (decode_body_no_return data (len data))
                (S (length data)) (d, [], 0, 0)) as HNR.
  destruct (while_fuel (S (length data)) (decode_body data (len data)) (d, [], 0, 0))
    as [[[[s hs0] sz] ix] | r [[[s hs0] sz] ix] | ex [[[s hs0] sz] ix] | [[[s hs0] sz] ix]].
  - rewrite decode_tail_raw, decode_tail_text.
    destruct (Decoder__assert_valid_table_size s); [|intros H; discriminate H].
    intros H. injection H as H1 H2. subst hs0 d'.
    destruct (forallb hvalid hs) eqn:E; [left | right]; split; reflexivity.
  - exfalso. exact (HNR _ _ eq_refl).
  - intros H; discriminate H.
  - intros H; discriminate H.
Qed.

Lemma raw_err_text_same : forall d data e d',
  Decoder_decode d data true = (Err e, d') -> Decoder_decode d data false = (Err e, d').
Proof.
  intros d data e d'. split_loop d data; try (intros H; exact H).
  rewrite decode_tail_raw, decode_tail_text.
  destruct (Decoder__assert_valid_table_size s); [intros H; discriminate H | intros H; exact H].
Qed.
