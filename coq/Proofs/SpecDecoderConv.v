(** The CONVERSE of [wire_meaning] (Proofs/SpecDecoder.v), on the SPECIFICATION only:
    whenever the sequential RFC decoder [decode K] accepts a block, the block IS the
    concatenation of wire forms of a sequence of representations that is well-formed for the
    context and whose declarative meaning [sem] is the result.  Together with [wire_meaning]:
    "accepted by [decode]" <-> "well-formed in the declarative sense".

    Structure: one inverse lemma per parser ([int_k], [str_k], [literal], [parse_rep]) that
    splits the input into the wire form read and the rest, then induction on the fuel of
    [decode_loop]. *)
From Coq Require Import ZArith List Bool Lia ZifyBool Arith.
From Coq Require Import Init.Byte.
From HV Require Import Prelude.Py Prelude.Utf8.
From HV Require Import Spec.IntRep Spec.HuffmanCode Spec.StaticTable Spec.DynTable Spec.SDecoder.
From HV Require Import Proofs.IntSpec Proofs.HuffSpec Proofs.SpecDecoder.
Import ListNotations.
Open Scope Z_scope.

(** * integers: the result depends only on the octets of the integer *)
Lemma sdc_cont_dec_len : forall l v k, cont_dec l = Some (v, k) -> 1 <= k <= len l.
Proof.
  induction l as [|b r IH]; intros v k H; [discriminate|].
  cbn [cont_dec] in H. rewrite len_cons. pose proof (len_nonneg r) as HL.
  destruct (b <? 128).
  - apply Some_pair_inj in H; destruct H as [_ <-]. lia.
  - destruct (cont_dec r) as [[v' k']|] eqn:D; [|discriminate].
    apply Some_pair_inj in H; destruct H as [_ <-]. specialize (IH v' k' eq_refl). lia.
Qed.

Lemma sdc_cont_dec_firstn : forall m l v k,
  cont_dec l = Some (v, k) -> k <= Z.of_nat m -> cont_dec (firstn m l) = Some (v, k).
Proof.
  induction m as [|m IH]; intros l v k H Hk.
  - apply sdc_cont_dec_len in H. lia.
  - destruct l as [|b r]; [discriminate|]. cbn [firstn cont_dec] in *.
    destruct (b <? 128); [exact H|].
    destruct (cont_dec r) as [[v' k']|] eqn:D; [|discriminate].
    apply Some_pair_inj in H; destruct H as [<- <-].
    rewrite (IH r v' k' D) by lia. reflexivity.
Qed.

Lemma sdc_int_dec_len N l n k : int_dec N l = Some (n, k) -> 1 <= k <= len l.
Proof.
  destruct l as [|b r]; [discriminate|]. cbn [int_dec]. cbv zeta. rewrite len_cons.
  pose proof (len_nonneg r) as HL.
  destruct (b mod 2 ^ N <? pmax N).
  - intros H. apply Some_pair_inj in H; destruct H as [_ <-]. lia.
  - destruct (cont_dec r) as [[m k']|] eqn:D; [|discriminate].
    intros H. apply Some_pair_inj in H; destruct H as [_ <-].
    pose proof (sdc_cont_dec_len _ _ _ D). lia.
Qed.

(** converse of [int_dec_app]: only the first [k] octets matter *)
Lemma sdc_int_dec_firstn N l n k :
  int_dec N l = Some (n, k) -> int_dec N (firstn (Z.to_nat k) l) = Some (n, k).
Proof.
  destruct l as [|b r]; [discriminate|]. cbn [int_dec]. cbv zeta.
  destruct (b mod 2 ^ N <? pmax N) eqn:E.
  - intros H. apply Some_pair_inj in H; destruct H as [<- <-].
    change (Z.to_nat 1) with 1%nat. cbn [firstn int_dec]. cbv zeta. rewrite E. reflexivity.
  - destruct (cont_dec r) as [[m k']|] eqn:D; [|discriminate].
    intros H. apply Some_pair_inj in H; destruct H as [<- <-].
    pose proof (sdc_cont_dec_len _ _ _ D) as HL.
    replace (Z.to_nat (k' + 1)) with (S (Z.to_nat k')) by lia.
    cbn [firstn int_dec]. cbv zeta. rewrite E.
    rewrite (sdc_cont_dec_firstn (Z.to_nat k') r m k' D) by lia. reflexivity.
Qed.

Lemma sdc_len_firstn {A} (l : list A) k : 0 <= k <= len l -> len (firstn (Z.to_nat k) l) = k.
Proof. intros H. unfold len in *. rewrite firstn_length. lia. Qed.

(** * [int_k] *)
Lemma int_k_inv K N bs n rest : 1 <= N <= 8 ->
  int_k K N bs = SOk (n, rest) ->
  exists wb, bs = wb ++ rest /\ wire_int K N n (map bz wb) /\ 0 <= n.
Proof.
  intros HN. unfold int_k. intros H.
  destruct (int_dec N (map bz bs)) as [[n' k]|] eqn:D; [|discriminate].
  destruct (k - 1 <=? K) eqn:E; [|discriminate].
  injection H as -> <-.
  pose proof (sdc_int_dec_len _ _ _ _ D) as HL. rewrite len_map in HL.
  destruct (dec_within N _ _ _ HN (sd_map_bz_octets bs) D) as [_ Hn].
  exists (firstn (Z.to_nat k) bs). split; [symmetry; apply firstn_skipn|].
  split; [|exact Hn]. unfold wire_int.
  rewrite len_map, sdc_len_firstn by lia. split; [|lia].
  rewrite <- firstn_map. apply sdc_int_dec_firstn. exact D.
Qed.

(** the same with the first octet exposed *)
Lemma int_k_inv_cons K N b tl n rest : 1 <= N <= 8 ->
  int_k K N (b :: tl) = SOk (n, rest) ->
  exists wb', b :: tl = (b :: wb') ++ rest /\ wire_int K N n (map bz (b :: wb')) /\ 0 <= n.
Proof.
  intros HN H. destruct (int_k_inv K N _ _ _ HN H) as (wb & E & WI & Hn).
  destruct wb as [|b' wb']; [exfalso; exact (wire_int_nonempty _ _ _ _ WI eq_refl)|].
  cbn [app] in E. injection E as <- E. exists wb'. cbn [app]. rewrite <- E. auto.
Qed.

(** * [str_k] *)
Lemma str_k_inv K bs s rest : str_k K bs = SOk (s, rest) ->
  exists ws, bs = ws ++ rest /\ wire_str K s ws.
Proof.
  destruct bs as [|b tl]; [discriminate|]. rewrite str_k_cons. intros H.
  destruct (int_k K 7 (b :: tl)) as [[n rest0]|] eqn:I; cbn [sbnd] in H; [|discriminate].
  destruct (int_k_inv_cons K 7 b tl n rest0 ltac:(lia) I) as (wb' & E & WI & Hn).
  destruct (len rest0 <? n) eqn:EL; [discriminate|]. cbv zeta in H.
  assert (HP : len (firstn (Z.to_nat n) rest0) = n) by (apply sdc_len_firstn; lia).
  assert (G : forall s0, (if 128 <=? bz b then HuffRep (firstn (Z.to_nat n) rest0) s0
                          else firstn (Z.to_nat n) rest0 = s0) ->
              b :: tl = ((b :: wb') ++ firstn (Z.to_nat n) rest0) ++ skipn (Z.to_nat n) rest0 /\
              wire_str K s0 ((b :: wb') ++ firstn (Z.to_nat n) rest0)).
  { intros s0 HS. split.
    - rewrite <- app_assoc, firstn_skipn. exact E.
    - exists (b :: wb'), (firstn (Z.to_nat n) rest0). split; [reflexivity|].
      split; [rewrite HP; exact WI|]. cbn [hbit]. exact HS. }
  destruct (128 <=? bz b).
  - destruct (huff_dec (firstn (Z.to_nat n) rest0)) as [s0|] eqn:HD; [|discriminate].
    injection H as <- <-. eexists. apply G. apply huff_dec_spec. exact HD.
  - injection H as <- <-. eexists. apply G. reflexivity.
Qed.

(** * [literal] *)
Lemma literal_inv K N never ins d b tl a rest : 1 <= N <= 8 ->
  literal K N never ins d (b :: tl) = SOk (a, rest) ->
  exists wi' wn wv nm v name,
    b :: tl = ((b :: wi') ++ wn ++ wv) ++ rest /\
    a = Emit never ins name v /\ resolve d nm = Some name /\
    match nm with
    | NameIdx i => 0 < i /\ wire_int K N i (map bz (b :: wi')) /\ wn = []
    | NameLit s => wire_int K N 0 (map bz (b :: wi')) /\ wire_str K s wn
    end /\ wire_str K v wv.
Proof.
  intros HN. unfold literal. intros H.
  destruct (int_k K N (b :: tl)) as [[i r0]|] eqn:I; cbn [sbnd] in H; [|discriminate].
  destruct (int_k_inv_cons K N b tl i r0 HN I) as (wi' & E & WI & Hi).
  destruct (i =? 0) eqn:E0.
  - assert (i = 0) by lia. subst i.
    destruct (str_k K r0) as [[name r1]|] eqn:SN; cbn [sbnd] in H; [|discriminate].
    destruct (str_k K r1) as [[value r2]|] eqn:SV; cbn [sbnd] in H; [|discriminate].
    injection H as <- <-.
    destruct (str_k_inv K _ _ _ SN) as (wn & En & Wn).
    destruct (str_k_inv K _ _ _ SV) as (wv & Ev & Wv).
    exists wi', wn, wv, (NameLit name), value, name.
    split; [rewrite E, En, Ev, <- !app_assoc; reflexivity|].
    split; [reflexivity|]. split; [reflexivity|]. split; [split; assumption|assumption].
  - destruct (lookup i d) as [e|] eqn:L; cbn [sbnd] in H; [|discriminate].
    destruct (str_k K r0) as [[value r2]|] eqn:SV; cbn [sbnd] in H; [|discriminate].
    injection H as <- <-.
    destruct (str_k_inv K _ _ _ SV) as (wv & Ev & Wv).
    exists wi', [], wv, (NameIdx i), value, (fst e).
    split; [rewrite E, Ev; cbn [app]; rewrite <- !app_assoc; reflexivity|].
    split; [reflexivity|].
    split; [cbn [resolve]; rewrite E0, L; reflexivity|].
    split; [|assumption]. split; [lia|]. split; [assumption|reflexivity].
Qed.

(** * one representation *)
Lemma parse_rep_inv K d b tl a rest :
  parse_rep K d (bz b) (b :: tl) = SOk (a, rest) ->
  exists r w', b :: tl = (b :: w') ++ rest /\ wire_rep K r (b :: w') /\ act_of d r = Some a.
Proof.
  pose proof (sd_bz_range b) as HB.
  assert (LIT : forall N never ins m lo hi,
            1 <= N <= 8 -> lo <= bz b < hi -> never = never_of m -> ins = insert_of m ->
            match m with
            | WithIndexing => (64, 128, 6)
            | WithoutIndexing => (0, 16, 4)
            | NeverIndexed => (16, 32, 4)
            end = (lo, hi, N) ->
            literal K N never ins d (b :: tl) = SOk (a, rest) ->
            exists r w', b :: tl = (b :: w') ++ rest /\ wire_rep K r (b :: w') /\ act_of d r = Some a).
  { intros N never ins m lo hi HN HF -> -> HM H.
    destruct (literal_inv K N _ _ d b tl a rest HN H) as (wi' & wn & wv & nm & v & name & E & -> & R & Hnm & Hv).
    exists (RLiteral m nm v), (wi' ++ wn ++ wv). split; [exact E|]. split.
    - cbn [wire_rep]. rewrite HM. exists (b :: wi'), wn, wv.
      split; [reflexivity|]. split; [exact HF|]. split; assumption.
    - cbn [act_of]. rewrite R. reflexivity. }
  unfold parse_rep. intros H.
  destruct (128 <=? bz b) eqn:E1.
  { destruct (int_k K 7 (b :: tl)) as [[i r0]|] eqn:I; cbn [sbnd] in H; [|discriminate].
    destruct (int_k_inv_cons K 7 b tl i r0 ltac:(lia) I) as (w' & E & WI & _).
    destruct (lookup i d) as [e|] eqn:L; [|discriminate]. injection H as <- <-.
    exists (RIndexed i), w'. split; [exact E|]. split.
    - cbn [wire_rep first_in]. split; [lia|exact WI].
    - cbn [act_of]. rewrite L. reflexivity. }
  destruct (64 <=? bz b) eqn:E2.
  { apply (LIT 6 false true WithIndexing 64 128); try reflexivity; try lia. exact H. }
  destruct (32 <=? bz b) eqn:E3.
  { destruct (int_k K 5 (b :: tl)) as [[n r0]|] eqn:I; cbn [sbnd] in H; [|discriminate].
    destruct (int_k_inv_cons K 5 b tl n r0 ltac:(lia) I) as (w' & E & WI & _).
    injection H as <- <-.
    exists (RSizeUpdate n), w'. split; [exact E|]. split.
    - cbn [wire_rep first_in]. split; [lia|exact WI].
    - reflexivity. }
  destruct (16 <=? bz b) eqn:E4.
  - apply (LIT 4 true false NeverIndexed 16 32); try reflexivity; try lia. exact H.
  - apply (LIT 4 false false WithoutIndexing 0 16); try reflexivity; try lia. exact H.
Qed.

(** * the block loop: [sem] with an accumulator, invariant [run = list_size acc] *)
Lemma decode_loop_sound K : forall fuel c bs acc fs c',
  decode_loop K fuel c bs acc (list_size acc) = SOk (fs, c') ->
  exists rs, wire_block K rs bs /\ sem c rs acc = Some (fs, c').
Proof.
  induction fuel as [|fuel IH]; intros c bs acc fs c' H.
  - destruct bs as [|b tl]; [|discriminate]. rewrite decode_loop_nil in H.
    exists []. split; [constructor|]. cbn [sem].
    destruct (size c >? limit c); [discriminate|]. injection H as <- <-. reflexivity.
  - destruct bs as [|b tl].
    { rewrite decode_loop_nil in H.
      exists []. split; [constructor|]. cbn [sem].
      destruct (size c >? limit c); [discriminate|]. injection H as <- <-. reflexivity. }
    rewrite decode_loop_cons in H.
    destruct ((bz b <? 64) && (32 <=? bz b) && negb (len acc =? 0)) eqn:T; [discriminate|].
    destruct (parse_rep K (dyn c) (bz b) (b :: tl)) as [[a rest]|] eqn:P; cbn [sbnd] in H; [|discriminate].
    destruct (parse_rep_inv K _ _ _ _ _ P) as (r & w' & E & WR & A).
    destruct a as [never ins name value|n].
    + cbv zeta in H.
      destruct (list_size acc + esize (name, value) >? list_limit c) eqn:EL; [discriminate|].
      replace (list_size acc + esize (name, value)) with (list_size (acc ++ [(never, name, value)])) in H
        by (rewrite list_size_snoc; reflexivity).
      destruct (IH _ _ _ _ _ H) as (rs & WB & S).
      exists (r :: rs). split; [rewrite E; constructor; assumption|].
      rewrite sem_cons, A. cbv zeta. rewrite list_size_snoc.
      change (fsize (never, name, value)) with (esize (name, value)). rewrite EL. exact S.
    + destruct (n >? limit c) eqn:EL; [discriminate|].
      destruct (IH _ _ _ _ _ H) as (rs & WB & S).
      exists (r :: rs). split; [rewrite E; constructor; assumption|].
      rewrite sem_cons, A.
      destruct (wire_rep_parse K r _ WR) as (b0 & w0 & E0 & U & _).
      injection E0 as <- _. rewrite (act_of_upd _ _ _ A) in U. rewrite U in T. cbn [andb] in T.
      destruct acc as [|f acc].
      * rewrite EL. exact S.
      * exfalso. rewrite len_cons in T. pose proof (len_nonneg acc). lia.
Qed.

(** * the theorems *)
Theorem decode_wire_sound : forall K c w fs c', 0 <= K ->
  decode K c w false = SOk (fs, c') ->
  exists rs, wire_block K rs w /\ sem c rs [] = Some (fs, c').
Proof.
  intros K c w fs c' _ H. unfold decode in H.
  destruct (decode_loop K (S (length w)) c w [] 0) as [[fs0 c0]|] eqn:D; cbn [sbnd] in H; [|discriminate].
  cbn [andb] in H. injection H as <- <-.
  apply (decode_loop_sound K (S (length w)) c w [] fs0 c0). exact D.
Qed.

Theorem decode_accepts_iff_wellformed : forall K c w fs c', 0 <= K ->
  (decode K c w false = SOk (fs, c') <-> exists rs, wire_block K rs w /\ sem c rs [] = Some (fs, c')).
Proof.
  intros K c w fs c' HK. split.
  - apply decode_wire_sound. exact HK.
  - intros (rs & WB & S). exact (proj1 (wire_meaning K c rs w fs c' HK WB S)).
Qed.

Theorem decode_text_accepts_iff : forall K c w fs c', 0 <= K ->
  (decode K c w true = SOk (fs, c') <->
   (exists rs, wire_block K rs w /\ sem c rs [] = Some (fs, c')) /\
   forallb (fun f => utf8_valid (snd (fst f)) && utf8_valid (snd f)) fs = true).
Proof.
  intros K c w fs c' HK. split.
  - intros H. unfold decode in H.
    destruct (decode_loop K (S (length w)) c w [] 0) as [[fs0 c0]|] eqn:D; cbn [sbnd] in H; [|discriminate].
    cbn [andb] in H.
    destruct (forallb (fun f => utf8_valid (snd (fst f)) && utf8_valid (snd f)) fs0) eqn:V;
      cbn [negb] in H; [|discriminate].
    injection H as <- <-. split; [|exact V].
    apply (decode_loop_sound K (S (length w)) c w [] fs0 c0). exact D.
  - intros [(rs & WB & S) V]. exact (proj2 (wire_meaning K c rs w fs c' HK WB S) V).
Qed.

Print Assumptions decode_wire_sound.
Print Assumptions decode_accepts_iff_wellformed.
Print Assumptions decode_text_accepts_iff.
