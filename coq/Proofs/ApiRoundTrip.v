(** The round trip at the level of the public API: whatever form the application passes the
    headers in, the peer decodes the canonical sequence of (name, value). *)
From Coq Require Import ZArith List Bool.
From HV Require Import Prelude.Py Prelude.State Prelude.Utf8 Spec.DynTable Spec.SDecoder.
From HV Require Import Model.Data Model.Table Model.Decoder Model.Encoder Model.Api Model.Rel Model.RelEnc.
From HV Require Import Proofs.Table Proofs.DecoderRefine Proofs.Lockstep Proofs.ApiForms.
Import ListNotations.
Open Scope Z_scope.

Lemma api_block_round_trip : forall e d c huff raw,
  TInv e.(e_tab) -> dec_ok d -> Sync e (ctx_of d) -> ctx_sane (ctx_of d) ->
  Forall field_sane (canon c) -> fields_size (canon c) <= d.(d_max_list) ->
  (raw = false -> Forall (fun f => utf8_valid (fst (fst f)) = true /\ utf8_valid (snd (fst f)) = true) (canon c)) ->
  exists w e' hs' d',
    Encoder_encode_api e c huff = (Ok w, e') /\ Decoder_decode d w raw = (Ok hs', d') /\
    map nv_of_header hs' = map nv_of_field (canon c).
Proof.
  intros e d c huff raw H1 H2 H3 H4 H5 H6 H7.
  rewrite encode_canon.
  exact (block_round_trip e d (canon c) huff raw H1 H2 H3 H4 H5 H6 H7).
Qed.
