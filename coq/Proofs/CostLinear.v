(** C16: the decoder's work is linear in the size of the block (cost model [Model.Cost]) and the
    facts about the model of the code that justify the model's unit costs. *)
From Coq Require Import ZArith List Bool Lia ZifyBool Arith.
From Coq Require Import Init.Byte.
From HV Require Import Prelude.Py Prelude.State.
From HV Require Import Spec.IntRep Spec.HuffmanCode Spec.DynTable Spec.SDecoder.
From HV Require Import Model.Data Model.Int Model.Table Model.Decoder Model.Rel Model.Cost.
From HV Require Import Proofs.Int Proofs.Table Proofs.DecoderRefine.
Import ListNotations.
Open Scope Z_scope.

(** * decode_integer looks at no more than 21 octets *)
Lemma cont_dec_len : forall l v k, cont_dec l = Some (v, k) -> 1 <= k <= len l.
Proof.
  induction l as [|b r IH]; intros v k H; [discriminate|].
  cbn [cont_dec] in H. rewrite len_cons. pose proof (len_nonneg r) as HL.
  destruct (b <? 128).
  - apply Some_pair_inj in H; destruct H as [_ <-]. lia.
  - destruct (cont_dec r) as [[v' k']|] eqn:D; [|discriminate].
    apply Some_pair_inj in H; destruct H as [_ <-]. specialize (IH v' k' eq_refl). lia.
Qed.

Lemma cont_dec_firstn_some : forall m l v k,
  cont_dec l = Some (v, k) -> k <= Z.of_nat m -> cont_dec (firstn m l) = Some (v, k).
Proof.
  induction m as [|m IH]; intros l v k H Hk.
  - apply cont_dec_len in H. lia.
  - destruct l as [|b r]; [discriminate|]. cbn [firstn cont_dec] in *.
    destruct (b <? 128); [exact H|].
    destruct (cont_dec r) as [[v' k']|] eqn:D; [|discriminate].
    apply Some_pair_inj in H; destruct H as [<- <-].
    rewrite (IH r v' k' D) by lia. reflexivity.
Qed.

Lemma cont_dec_firstn_inv m l v k :
  cont_dec (firstn m l) = Some (v, k) -> cont_dec l = Some (v, k).
Proof.
  intros H. rewrite <- (firstn_skipn m l). apply cont_dec_app. exact H.
Qed.

Lemma cont_dec_firstn_long m l v k :
  cont_dec l = Some (v, k) -> Z.of_nat m < k -> cont_dec (firstn m l) = None.
Proof.
  intros H Hk. destruct (cont_dec (firstn m l)) as [[v' k']|] eqn:D; [|reflexivity].
  pose proof (cont_dec_len _ _ _ D) as HL. rewrite len_firstn in HL.
  apply cont_dec_firstn_inv in D. rewrite D in H.
  apply Some_pair_inj in H; destruct H as [_ <-]. lia.
Qed.

Lemma cont_dec_firstn_none m l : cont_dec l = None -> cont_dec (firstn m l) = None.
Proof.
  intros H. destruct (cont_dec (firstn m l)) as [[v' k']|] eqn:D; [|reflexivity].
  apply cont_dec_firstn_inv in D. congruence.
Qed.

(** the outcome of decode_integer as a function of the specification's reading *)
Definition capped (o : option (Z * Z)) : outcome (Z * Z) :=
  match o with
  | Some (n, k) => if k - 1 <=? 20 then Ok (n, k) else Err HPACKDecodingError
  | None => Err HPACKDecodingError
  end.

Lemma capped_firstn N l : capped (int_dec N l) = capped (int_dec N (firstn 21 l)).
Proof.
  destruct l as [|b r]; [reflexivity|].
  change (firstn 21 (b :: r)) with (b :: firstn 20 r). cbn [int_dec]. cbv zeta.
  destruct (b mod 2 ^ N <? pmax N); [reflexivity|].
  destruct (cont_dec r) as [[v k]|] eqn:D.
  - destruct (k <=? 20) eqn:E.
    + rewrite (cont_dec_firstn_some 20 r v k D) by lia. reflexivity.
    + rewrite (cont_dec_firstn_long 20 r v k D) by lia. cbn [capped].
      destruct (k + 1 - 1 <=? 20) eqn:E2; [lia|reflexivity].
  - rewrite (cont_dec_firstn_none 20 r D). reflexivity.
Qed.

Lemma integer_reads_21 : forall bs N, 1 <= N <= 8 ->
  decode_integer bs N = decode_integer (firstn 21 bs) N.
Proof.
  intros bs N HN. rewrite (dec_total bs N HN), (dec_total (firstn 21 bs) N HN).
  rewrite <- firstn_map. exact (capped_firstn N (map bz bs)).
Qed.

Lemma integer_bounded : forall bs N n k, 1 <= N <= 8 ->
  decode_integer bs N = Ok (n, k) -> 1 <= k <= 21 /\ 0 <= n < 2 ^ 141.
Proof.
  intros bs N n k HN H.
  destruct (decode_integer_consumed bs N n k HN H) as [Hk Hn].
  destruct (decode_integer_spec bs N n k HN H) as [_ Hk2].
  pose proof (decode_integer_bound bs N n k HN H) as HB. lia.
Qed.

(** * every iteration of the block loop advances and stays within the block *)
Lemma indexed_consumed d bs h c :
  Decoder__decode_indexed d bs = Ok (h, c) -> 1 <= c <= len bs.
Proof.
  unfold Decoder__decode_indexed. intros H.
  destruct (decode_integer bs 7) as [[i k]|e] eqn:D; cbn [bind] in H; [|discriminate].
  destruct (HeaderTable_get_by_index (d_tab d) i) as [t|e]; cbn [bind] in H; [|discriminate].
  injection H as _ <-.
  exact (proj1 (decode_integer_consumed bs 7 i k ltac:(lia) D)).
Qed.

Lemma update_consumed d bs c d' :
  Decoder__update_encoding_context d bs = (Ok c, d') -> 1 <= c <= len bs.
Proof.
  unfold Decoder__update_encoding_context. intros H.
  destruct (decode_integer bs 5) as [[n k]|e] eqn:D; cbn [mbind] in H; [|discriminate].
  destruct (n >? d_max_allowed d); [discriminate|].
  destruct (Decoder_set_header_table_size d n) as [[u|e] d1]; cbn [sbind] in H; [|discriminate].
  injection H as <- _.
  exact (proj1 (decode_integer_consumed bs 5 n k ltac:(lia) D)).
Qed.

Lemma lit_value_consumed d si never name total data h c d' :
  lit_value d si never name total data = (Ok (h, c), d') ->
  exists l k, c = total + (l + k) /\ 1 <= k /\ 0 <= l /\ k + l <= len data.
Proof.
  unfold lit_value. intros H. pose proof (decode_string_spec data) as HS.
  destruct (decode_string data) as [[[value l] k]|e]; cbn [mbind] in H; [|discriminate].
  destruct HS as (_ & Hk & Hl & Hkl). cbv zeta in H.
  exists l, k.
  destruct si.
  - destruct (HeaderTable_add (d_tab d) name value) as [[u|e] tab]; [|discriminate].
    injection H as _ <- _. repeat split; assumption.
  - injection H as _ <- _. repeat split; assumption.
Qed.

Lemma lit_core_consumed d b tl si iname N never h c d' : 1 <= N <= 8 -> iname = bz b mod 2 ^ N ->
  lit_core d (b :: tl) si iname N never = (Ok (h, c), d') -> 1 <= c <= len (b :: tl).
Proof.
  intros HN Hi. unfold lit_core. intros H.
  pose proof (lit_name_spec d b tl iname N HN Hi) as HNm.
  destruct (lit_name d (b :: tl) iname N) as [[[[[name total] data] consumed] length]|e];
    cbn [mbind] in H; [|discriminate].
  destruct HNm as (Ht & _ & HS). rewrite HS in H.
  destruct (lit_value_consumed _ _ _ _ _ _ _ _ _ H) as (l & k & -> & Hk & Hl & Hkl).
  rewrite len_skipn in Hkl. lia.
Qed.

Lemma literal_consumed d b tl si h c d' :
  Decoder__decode_literal d (b :: tl) si = (Ok (h, c), d') -> 1 <= c <= len (b :: tl).
Proof.
  rewrite literal_unfold. destruct si; intros H.
  - exact (lit_core_consumed _ _ _ _ _ 6 _ _ _ _ ltac:(lia) (land63 b) H).
  - exact (lit_core_consumed _ _ _ _ _ 4 _ _ _ _ ltac:(lia) (land15 b) H).
Qed.

Lemma arms_consumed d hs b tl cur o c d' :
  arms d hs (b :: tl) cur = (Ok (o, c), d') -> 1 <= c <= len (b :: tl).
Proof.
  unfold arms, Decoder__decode_literal_index, Decoder__decode_literal_no_index. intros H.
  destruct (truthy (Z.land cur 128)).
  { destruct (Decoder__decode_indexed d (b :: tl)) as [[h c0]|e] eqn:D; [|discriminate].
    injection H as _ <- _. exact (indexed_consumed _ _ _ _ D). }
  destruct (truthy (Z.land cur 64)).
  { destruct (Decoder__decode_literal d (b :: tl) true) as [[[h c0]|e] d1] eqn:D; [|discriminate].
    injection H as _ <- _. exact (literal_consumed _ _ _ _ _ _ _ D). }
  destruct (truthy (Z.land cur 32)).
  { destruct (negb (len hs =? 0)); [discriminate|].
    destruct (Decoder__update_encoding_context d (b :: tl)) as [[c0|e] d1] eqn:D; [|discriminate].
    injection H as _ <- _. exact (update_consumed _ _ _ _ D). }
  destruct (Decoder__decode_literal d (b :: tl) false) as [[[h c0]|e] d1] eqn:D; [|discriminate].
  injection H as _ <- _. exact (literal_consumed _ _ _ _ _ _ _ D).
Qed.

Lemma post_next r self hs infl idx d' hs' infl' idx' :
  post r self hs infl idx = Next (d', hs', infl', idx') ->
  exists o c, r = Ok (o, c) /\ idx' = idx + c.
Proof.
  unfold post. intros H.
  destruct r as [[[h|] c]|e]; [| |discriminate].
  - cbv zeta in H.
    destruct (infl + table_entry_size (h_name h) (h_value h) >? d_max_list self).
    + destruct (py_format_d (d_max_list self)); discriminate.
    + injection H as _ _ _ <-. eauto.
  - injection H as _ _ _ <-. eauto.
Qed.

Lemma loop_advances : forall data d hs infl idx d' hs' infl' idx',
  0 <= idx ->
  decode_body data (len data) (d, hs, infl, idx) = Next (d', hs', infl', idx') ->
  idx < idx' <= len data.
Proof.
  intros data d hs infl idx d' hs' infl' idx' Hidx H. rewrite decode_body_eq in H.
  destruct (idx <? len data) eqn:EL; [|discriminate].
  destruct (skipn_nonempty data idx ltac:(lia)) as (b & tl & Hsk).
  rewrite index_Z_skipn, slice_from_skipn, Hsk in H by lia.
  assert (Hlen : idx + len (b :: tl) = len data).
  { rewrite <- Hsk, len_skipn. lia. }
  destruct (arms d hs (b :: tl) (bz b)) as [r self] eqn:A.
  destruct (post_next _ _ _ _ _ _ _ _ _ H) as (o & c & -> & ->).
  pose proof (arms_consumed _ _ _ _ _ _ _ _ A) as Hc. lia.
Qed.

(** * evictions are amortised *)
Lemma fit_len m l : 0 <= len (fit m l) <= len l.
Proof.
  destruct (fit_prefix m l) as [gone E].
  pose proof (len_nonneg (fit m l)). pose proof (len_nonneg gone).
  apply (f_equal (@len entry)) in E. rewrite len_app in E. lia.
Qed.

Lemma evictions_amortised : forall m e l,
  0 <= len l + 1 - len (insert m e l) <= len l + 1 /\ 0 <= len l - len (resize m l) <= len l.
Proof.
  intros m e l. unfold insert, resize.
  pose proof (fit_len m (e :: l)) as H1. rewrite len_cons in H1.
  pose proof (fit_len m l) as H2. lia.
Qed.

(** * every parser of the specification consumes at least one octet *)
Lemma int_k_consumes K N bs n rest : 1 <= N <= 8 ->
  int_k K N bs = SOk (n, rest) -> len rest + 1 <= len bs.
Proof.
  intros HN. unfold int_k. intros H.
  destruct (int_dec N (map bz bs)) as [[n' k]|] eqn:D; [|discriminate].
  destruct (k - 1 <=? K); [|discriminate]. injection H as _ <-.
  destruct (dec_within N _ _ _ HN (Forall_octet_map_bz bs) D) as [Hk _].
  rewrite len_map in Hk. rewrite len_skipn. lia.
Qed.

Lemma str_k_consumes K bs s rest : str_k K bs = SOk (s, rest) -> len rest + 1 <= len bs.
Proof.
  rewrite str_k_eq. intros H.
  destruct (int_k K 7 bs) as [[n rest0]|] eqn:I; cbn [sbnd] in H; [|discriminate].
  pose proof (int_k_consumes K 7 bs n rest0 ltac:(lia) I) as HI.
  destruct (len rest0 <? n); [discriminate|].
  assert (HR : len (skipn (Z.to_nat n) rest0) <= len rest0) by (rewrite len_skipn; pose proof (len_nonneg rest0); lia).
  destruct (match bs with b :: _ => 128 <=? bz b | [] => false end).
  - destruct (huff_dec (firstn (Z.to_nat n) rest0)); [|discriminate]. injection H as _ <-. lia.
  - injection H as _ <-. lia.
Qed.

Lemma literal_consumes K N never ins d bs a rest : 1 <= N <= 8 ->
  literal K N never ins d bs = SOk (a, rest) -> len rest + 1 <= len bs.
Proof.
  intros HN. unfold literal. intros H.
  destruct (int_k K N bs) as [[i r0]|] eqn:I; cbn [sbnd] in H; [|discriminate].
  pose proof (int_k_consumes K N bs i r0 HN I) as HI.
  destruct (if i =? 0 then str_k K r0
            else match lookup i d with Some e => SOk (fst e, r0) | None => SErr BadIndex end)
    as [[name r1]|] eqn:NM; cbn [sbnd] in H; [|discriminate].
  assert (H1 : len r1 <= len r0).
  { destruct (i =? 0).
    - pose proof (str_k_consumes K r0 name r1 NM). lia.
    - destruct (lookup i d); [|discriminate]. injection NM as _ <-. lia. }
  destruct (str_k K r1) as [[value r2]|] eqn:V; cbn [sbnd] in H; [|discriminate].
  pose proof (str_k_consumes K r1 value r2 V). injection H as _ <-. lia.
Qed.

Lemma parse_rep_consumes K d first bs a rest :
  parse_rep K d first bs = SOk (a, rest) -> len rest + 1 <= len bs.
Proof.
  unfold parse_rep. intros H.
  destruct (128 <=? first).
  { destruct (int_k K 7 bs) as [[i r0]|] eqn:I; cbn [sbnd] in H; [|discriminate].
    pose proof (int_k_consumes K 7 bs i r0 ltac:(lia) I).
    destruct (lookup i d); [|discriminate]. injection H as _ <-. lia. }
  destruct (64 <=? first); [exact (literal_consumes K 6 _ _ _ _ _ _ ltac:(lia) H)|].
  destruct (32 <=? first).
  { destruct (int_k K 5 bs) as [[i r0]|] eqn:I; cbn [sbnd] in H; [|discriminate].
    pose proof (int_k_consumes K 5 bs i r0 ltac:(lia) I). injection H as _ <-. lia. }
  destruct (16 <=? first); exact (literal_consumes K 4 _ _ _ _ _ _ ltac:(lia) H).
Qed.

(** * the cost model is linear *)
Lemma cost_loop_S K fuel c b tl nacc run :
  cost_loop K (S fuel) c (b :: tl) nacc run =
  if (bz b <? 64) && (32 <=? bz b) && negb (nacc =? 0) then 1
  else
    match parse_rep K (dyn c) (bz b) (b :: tl) with
    | SErr _ => 1 + len (b :: tl)
    | SOk (a, rest) =>
        match a with
        | Resize n =>
            if n >? limit c then 1 + (len (b :: tl) - len rest)
            else 1 + (len (b :: tl) - len rest) + (len (dyn c) - len (resize n (dyn c))) +
                 cost_loop K fuel {| dyn := resize n (dyn c); size := n; limit := limit c;
                                     list_limit := list_limit c |} rest nacc run
        | Emit never ins name value =>
            if run + esize (name, value) >? list_limit c then 1 + (len (b :: tl) - len rest)
            else 1 + (len (b :: tl) - len rest) +
                 (if ins then len (dyn c) + 1 - len (if ins then insert (size c) (name, value) (dyn c) else dyn c) else 0) +
                 cost_loop K fuel {| dyn := if ins then insert (size c) (name, value) (dyn c) else dyn c;
                                     size := size c; limit := limit c; list_limit := list_limit c |}
                           rest (nacc + 1) (run + esize (name, value))
        end
    end.
Proof. reflexivity. Qed.

Lemma cost_loop_bound K : forall fuel c bs nacc run,
  cost_loop K fuel c bs nacc run <= 3 * len bs + len (dyn c) + 1.
Proof.
  induction fuel as [|fuel IH]; intros c bs nacc run;
    pose proof (len_nonneg bs) as HB; pose proof (len_nonneg (dyn c)) as HD.
  - destruct bs; cbn [cost_loop]; lia.
  - destruct bs as [|b tl]; [cbn [cost_loop]; lia|].
    rewrite cost_loop_S.
    destruct ((bz b <? 64) && (32 <=? bz b) && negb (nacc =? 0)); [lia|].
    destruct (parse_rep K (dyn c) (bz b) (b :: tl)) as [[a rest]|e] eqn:P; [|lia].
    pose proof (parse_rep_consumes K _ _ _ _ _ P) as HC.
    pose proof (len_nonneg rest) as HR.
    destruct a as [never ins name value|n].
    + destruct (run + esize (name, value) >? list_limit c); [lia|].
      match goal with |- context [cost_loop K fuel ?c' rest ?na ?ru] =>
        pose proof (IH c' rest na ru) as HI end.
      cbn [dyn] in HI.
      destruct ins.
      * destruct (evictions_amortised (size c) (name, value) (dyn c)) as [HE _]. lia.
      * lia.
    + destruct (n >? limit c); [lia|].
      match goal with |- context [cost_loop K fuel ?c' rest ?na ?ru] =>
        pose proof (IH c' rest na ru) as HI end.
      cbn [dyn] in HI.
      pose proof (fit_len n (dyn c)) as HE. unfold resize in *. lia.
Qed.

Lemma cost_linear : forall K c bs,
  cost_decode K c bs <= 4 * len bs + len (dyn c) + 1.
Proof.
  intros K c bs. unfold cost_decode.
  pose proof (cost_loop_bound K (S (length bs)) c bs 0 0). lia.
Qed.

(** * for fixed limits the table term is a constant *)
Lemma tsize_ge_len l : 32 * len l <= tsize l.
Proof.
  induction l as [|e l IH]; [cbn; lia|].
  rewrite tsize_cons, len_cons. pose proof (esize_ge e). lia.
Qed.

Lemma table_term_bounded : forall d, TInv d.(d_tab) ->
  32 * len (dyn (ctx_of d)) <= Z.max 0 d.(d_tab).(maxsize).
Proof.
  intros d [_ H]. unfold ctx_of. cbn [dyn].
  pose proof (tsize_ge_len (entries (d_tab d))). lia.
Qed.
