(** C17: the provenance-annotated decoder (Model/Prov.v).
    Part 1: erasure -- dropping the tags gives back the model's functions (Model/Decoder.v).
    Part 2: the tags stay parallel to the table and, with the copies in place, all owned.
    Part 3: what decode returns is owned; what is retained is bounded; without the copies
            the property fails. *)
From Coq Require Import ZArith List Bool Lia ZifyBool.
From Coq Require Import Init.Byte.
From HV Require Import Prelude.Py Prelude.State Spec.DynTable.
From HV Require Import Model.Data Model.Int Model.Table Model.HuffDec Model.Decoder Model.Prov.
From HV Require Import Proofs.Table Proofs.TableLift.
Import ListNotations.
Open Scope Z_scope.

(** * Generic: mapping outcomes, loop controls and loop results *)
Definition omap {A B} (f : A -> B) (m : outcome A) : outcome B :=
  match m with Ok a => Ok (f a) | Err e => Err e end.
Definition ctl_map {S1 S2 R1 R2} (f : S1 -> S2) (g : R1 -> R2) (c : ctl S1 R1) : ctl S2 R2 :=
  match c with
  | Next s => Next (f s) | Break s => Break (f s)
  | Return r s => Return (g r) (f s) | Raise e s => Raise e (f s)
  end.
Definition lres_map {S1 S2 R1 R2} (f : S1 -> S2) (g : R1 -> R2) (c : lres S1 R1) : lres S2 R2 :=
  match c with
  | Done s => Done (f s) | Exhausted s => Exhausted (f s)
  | Returned r s => Returned (g r) (f s) | Raised e s => Raised e (f s)
  end.

(** simulation of two loops over related state spaces *)
Lemma while_fuel_sim {S1 S2 R1 R2} (f : S1 -> S2) (g : R1 -> R2)
      (body1 : S1 -> ctl S1 R1) (body2 : S2 -> ctl S2 R2) :
  (forall s, body2 (f s) = ctl_map f g (body1 s)) ->
  forall fuel s, while_fuel fuel body2 (f s) = lres_map f g (while_fuel fuel body1 s).
Proof.
  intros Hb. induction fuel as [|fuel IH]; intros s; cbn [while_fuel]; [reflexivity|].
  rewrite Hb. destruct (body1 s) as [s'|s'|r s'|e s']; cbn [ctl_map lres_map].
  - apply IH.
  - reflexivity.
  - reflexivity.
  - reflexivity.
Qed.

Definition no_return {S R} (c : ctl S R) : Prop := match c with Return _ _ => False | _ => True end.
Definition no_returned {S R} (c : lres S R) : Prop := match c with Returned _ _ => False | _ => True end.

Lemma while_fuel_no_return {S R} (body : S -> ctl S R) :
  (forall s, no_return (body s)) -> forall fuel s, no_returned (while_fuel fuel body s).
Proof.
  intros Hb. induction fuel as [|fuel IH]; intros s; cbn [while_fuel]; [exact I|].
  specialize (Hb s). destruct (body s) as [s'|s'|r s'|e s']; cbn [no_return no_returned] in *.
  - apply IH.
  - exact I.
  - exact Hb.
  - exact I.
Qed.

(** * Part 1: erasure *)
Definition er_str (x : bytes * pv * Z * Z) : bytes * Z * Z :=
  let '(s, _, l, c) := x in (s, l, c).
Definition er_hc (x : header * (pv * pv) * Z) : header * Z :=
  let '(h, _, c) := x in (h, c).

Lemma erase_string data : decode_string data = omap er_str (p_decode_string data).
Proof.
  unfold decode_string, p_decode_string.
  destruct (decode_integer data 7) as [[l c]|e]; cbn [bind omap]; [|reflexivity].
  destruct (negb (len (slice_Z data c (c + l)) =? l)); [reflexivity|].
  destruct (index_Z data 0) as [t|e]; cbn [bind omap]; [|reflexivity].
  destruct (truthy (Z.land (bz t) 128)); cbn [bind omap er_str]; [|reflexivity].
  destruct (decode_huffman_m (slice_Z data c (c + l))) as [s|e]; reflexivity.
Qed.

Lemma erase_indexed s data :
  Decoder__decode_indexed s.(pd) data = omap er_hc (p_decode_indexed s data).
Proof.
  unfold Decoder__decode_indexed, p_decode_indexed.
  destruct (decode_integer data 7) as [[index c]|e]; cbn [bind omap]; [|reflexivity].
  destruct (HeaderTable_get_by_index (d_tab (pd s)) index) as [t1|e]; reflexivity.
Qed.

Lemma erase_update s data :
  Decoder__update_encoding_context s.(pd) data =
  (fst (p_update_encoding_context s data), (snd (p_update_encoding_context s data)).(pd)).
Proof.
  unfold p_update_encoding_context.
  destruct (Decoder__update_encoding_context (pd s) data) as [r d']. reflexivity.
Qed.

(** the part of _decode_literal after the name has been determined *)
Lemma erase_literal_value (copy : bool) (s : pdecoder) (ni : bool) (name : bytes) (tn : pv) (tc : Z) (data : bytes) (si : bool) :
  mbind (decode_string data) s.(pd) (fun '(value, length, consumed) =>
    let total_consumed := tc + (length + consumed) in
    let header : header := if ni then (HNever, name, value) else (HPlain, name, value) in
    if si
    then match HeaderTable_add s.(pd).(d_tab) name value with
         | (Ok _, tab) => (Ok (header, total_consumed), set_d_tab tab s.(pd))
         | (Err e, tab) => (Err e, set_d_tab tab s.(pd))
         end
    else (Ok (header, total_consumed), s.(pd)))
  =
  let r := mbind (p_decode_string data) s (fun '(value, tv, length, consumed) =>
    let total_consumed := tc + (length + consumed) in
    let tn := if copy then Owned else tn in
    let tv := if copy then Owned else tv in
    let header : header := if ni then (HNever, name, value) else (HPlain, name, value) in
    if si
    then match HeaderTable_add s.(pd).(d_tab) name value with
         | (Ok _, tab) => (Ok (header, (tn, tv), total_consumed),
                           {| pd := set_d_tab tab s.(pd); ptags := tags_after tab.(entries) ((tn, tv) :: s.(ptags)) |})
         | (Err e, tab) => (Err e, {| pd := set_d_tab tab s.(pd); ptags := tags_after tab.(entries) ((tn, tv) :: s.(ptags)) |})
         end
    else (Ok (header, (tn, tv), total_consumed), s)) in
  (omap er_hc (fst r), (snd r).(pd)).
Proof.
  rewrite erase_string.
  destruct (p_decode_string data) as [[[[value tv] l] c]|e]; cbn [omap er_str mbind]; [|reflexivity].
  cbv zeta. destruct si; [|reflexivity].
  destruct (HeaderTable_add (d_tab (pd s)) name value) as [[u|e] tab]; reflexivity.
Qed.

Lemma erase_literal copy s data si :
  Decoder__decode_literal s.(pd) data si =
  (omap er_hc (fst (p_decode_literal copy s data si)), (snd (p_decode_literal copy s data si)).(pd)).
Proof.
  unfold Decoder__decode_literal, p_decode_literal.
  destruct (index_Z data 0) as [t0|e]; cbn [mbind]; [|reflexivity].
  destruct si; cbv beta iota zeta.
  - destruct (truthy (Z.land (bz t0) 63)).
    + destruct (decode_integer data 6) as [[index c]|e]; cbn [bind mbind]; [|reflexivity].
      destruct (HeaderTable_get_by_index (d_tab (pd s)) index) as [t1|e]; cbn [bind mbind]; [|reflexivity].
      exact (erase_literal_value copy s false (fst t1) _ c (slice_from data (c + 0)) true).
    + rewrite erase_string.
      destruct (p_decode_string (slice_from data 1)) as [[[[name tn] l] c]|e];
        cbn [omap er_str bind mbind]; [|reflexivity].
      exact (erase_literal_value copy s false name tn (c + l + 1) (slice_from (slice_from data 1) (c + l)) true).
  - destruct (truthy (Z.land (bz t0) 15)).
    + destruct (decode_integer data 4) as [[index c]|e]; cbn [bind mbind]; [|reflexivity].
      destruct (HeaderTable_get_by_index (d_tab (pd s)) index) as [t1|e]; cbn [bind mbind]; [|reflexivity].
      exact (erase_literal_value copy s _ (fst t1) _ c (slice_from data (c + 0)) false).
    + rewrite erase_string.
      destruct (p_decode_string (slice_from data 1)) as [[[[name tn] l] c]|e];
        cbn [omap er_str bind mbind]; [|reflexivity].
      exact (erase_literal_value copy s _ name tn (c + l + 1) (slice_from (slice_from data 1) (c + l)) false).
Qed.

Definition erase_st (st : pstate) : dstate :=
  let '(self, headers, inflated_size, current_index) := st in
  (self.(pd), map fst headers, inflated_size, current_index).

Definition er_list (hs : list (header * (pv * pv))) : list header := map fst hs.

Lemma erase_tail self headers inflated_size current_index
      (r : outcome (option (header * (pv * pv)) * Z)) :
  match omap (fun x : option (header * (pv * pv)) * Z => (option_map fst (fst x), snd x)) r with
  | Err e => Raise e (self.(pd), map fst headers, inflated_size, current_index)
  | Ok (Some h, consumed) =>
      let headers := map fst headers ++ [h] in
      let inflated_size := inflated_size + table_entry_size (h_name h) (h_value h) in
      if inflated_size >? self.(pd).(d_max_list)
      then match py_format_d self.(pd).(d_max_list) with
           | Err e => Raise e (self.(pd), headers, inflated_size, current_index)
           | Ok _ => Raise OversizedHeaderListError (self.(pd), headers, inflated_size, current_index)
           end
      else Next (self.(pd), headers, inflated_size, current_index + consumed)
  | Ok (None, consumed) => Next (self.(pd), map fst headers, inflated_size, current_index + consumed)
  end
  = ctl_map erase_st er_list
    match r with
    | Err e => Raise e (self, headers, inflated_size, current_index)
    | Ok (Some (h, tg), consumed) =>
        let headers := headers ++ [(h, tg)] in
        let inflated_size := inflated_size + table_entry_size (h_name h) (h_value h) in
        if inflated_size >? self.(pd).(d_max_list)
        then match py_format_d self.(pd).(d_max_list) with
             | Err e => Raise e (self, headers, inflated_size, current_index)
             | Ok _ => Raise OversizedHeaderListError (self, headers, inflated_size, current_index)
             end
        else Next (self, headers, inflated_size, current_index + consumed)
    | Ok (None, consumed) => Next (self, headers, inflated_size, current_index + consumed)
    end.
Proof.
  destruct r as [[[[h tg]|] consumed]|e]; cbn [omap option_map fst snd]; cbv zeta;
    [|reflexivity|reflexivity].
  destruct (_ >? _).
  - destruct (py_format_d _); cbn [ctl_map erase_st]; rewrite map_app; reflexivity.
  - cbn [ctl_map erase_st]. rewrite map_app. reflexivity.
Qed.

Lemma erase_body copy data data_len st :
  decode_body data data_len (erase_st st) = ctl_map erase_st er_list (p_decode_body copy data data_len st).
Proof.
  destruct st as [[[self headers] inflated_size] current_index].
  unfold decode_body, p_decode_body, erase_st at 1.
  destruct (current_index <? data_len); [|reflexivity].
  destruct (index_Z data current_index) as [t|e]; [|reflexivity].
  cbv zeta.
  destruct (truthy (Z.land (bz t) 128)).
  { rewrite erase_indexed.
    destruct (p_decode_indexed self (slice_from data current_index)) as [[[h tg] c]|e]; cbn [omap er_hc].
    - exact (erase_tail self headers inflated_size current_index (Ok (Some (h, tg), c))).
    - reflexivity. }
  destruct (truthy (Z.land (bz t) 64)).
  { unfold Decoder__decode_literal_index. rewrite (erase_literal copy).
    destruct (p_decode_literal copy self (slice_from data current_index) true) as [[[[h tg] c]|e] s'];
      cbn [fst snd omap er_hc].
    - exact (erase_tail s' headers inflated_size current_index (Ok (Some (h, tg), c))).
    - reflexivity. }
  destruct (truthy (Z.land (bz t) 32)).
  { replace (len (map fst headers)) with (len headers) by (unfold len; rewrite map_length; reflexivity).
    destruct (negb (len headers =? 0)).
    { reflexivity. }
    rewrite erase_update.
    destruct (p_update_encoding_context self (slice_from data current_index)) as [[c|e] s'];
      cbn [fst snd]; reflexivity. }
  unfold Decoder__decode_literal_no_index. rewrite (erase_literal copy).
  destruct (p_decode_literal copy self (slice_from data current_index) false) as [[[[h tg] c]|e] s'];
    cbn [fst snd omap er_hc].
  - exact (erase_tail s' headers inflated_size current_index (Ok (Some (h, tg), c))).
  - reflexivity.
Qed.

Lemma map_fst_tag (hs : list header) : map fst (map (fun h => (h, (Owned, Owned))) hs) = hs.
Proof. rewrite map_map. cbn [fst]. apply map_id. Qed.

Lemma erase_decode copy s data raw :
  Decoder_decode s.(pd) data raw =
  (omap er_list (fst (p_decode copy s data raw)), (snd (p_decode copy s data raw)).(pd)).
Proof.
  unfold Decoder_decode, p_decode.
  change (pd s, @nil header, 0, 0) with (erase_st (s, [], 0, 0)).
  rewrite (while_fuel_sim erase_st er_list (p_decode_body copy data (len data))
             (decode_body data (len data)) (erase_body copy data (len data))).
  destruct (while_fuel (S (length data)) (p_decode_body copy data (len data)) (s, [], 0, 0))
    as [[[[s' hs] i] c]|r [[[s' hs] i] c]|e [[[s' hs] i] c]|[[[s' hs] i] c]];
    cbn [lres_map erase_st]; try reflexivity.
  destruct (Decoder__assert_valid_table_size (pd s')) as [u|e]; cbn [mbind fst snd omap]; [|reflexivity].
  destruct (unicode_all (map fst hs) raw) as [hs'|e]; cbn [catch omap].
  - unfold er_list. rewrite map_fst_tag. reflexivity.
  - destruct (exn_eqb e UnicodeDecodeError); reflexivity.
Qed.

Lemma erase_dstep copy s o :
  dstep s.(pd) o = (omap er_list (fst (p_dstep copy s o)), (snd (p_dstep copy s o)).(pd)).
Proof.
  destruct o as [v|v|v|data raw]; cbn [dstep p_dstep].
  - reflexivity.
  - destruct (Decoder_set_header_table_size (pd s) v) as [[u|e] d']; reflexivity.
  - reflexivity.
  - apply erase_decode.
Qed.

Lemma erase_step : forall copy s o,
  fst (p_dstep copy s o) = match fst (dstep s.(pd) o) with Ok hs => fst (p_dstep copy s o) | Err e => Err e end /\
  (forall hs, fst (p_dstep copy s o) = Ok hs -> fst (dstep s.(pd) o) = Ok (map fst hs)) /\
  (forall e, fst (p_dstep copy s o) = Err e -> fst (dstep s.(pd) o) = Err e) /\
  (snd (p_dstep copy s o)).(pd) = snd (dstep s.(pd) o).
Proof.
  intros copy s o. rewrite (erase_dstep copy s o). cbn [fst snd].
  destruct (fst (p_dstep copy s o)) as [hs|e]; cbn [omap].
  - repeat split.
    + intros hs' E. injection E as <-. reflexivity.
    + intros e E. discriminate E.
  - repeat split.
    + intros hs' E. discriminate E.
    + intros e' E. injection E as <-. reflexivity.
Qed.

Lemma erase_drun copy : forall ops s, (p_drun copy ops s).(pd) = drun ops s.(pd).
Proof.
  unfold p_drun, drun. induction ops as [|o ops IH]; intros s; cbn [fold_left]; [reflexivity|].
  rewrite IH. rewrite (erase_dstep copy s o). reflexivity.
Qed.

(** * Part 2: the tags follow the table *)
Definition Inv (copy : bool) (s : pdecoder) : Prop :=
  length s.(ptags) = length s.(pd).(d_tab).(entries) /\
  TInv s.(pd).(d_tab) /\
  (copy = true -> all_owned s.(ptags)).

Lemma tags_after_length (ne : list (bytes * bytes)) tags :
  (length ne <= length tags)%nat -> length (tags_after ne tags) = length ne.
Proof. intros H. unfold tags_after. apply firstn_length_le. exact H. Qed.

Lemma tags_after_owned (ne : list (bytes * bytes)) tags :
  all_owned tags -> all_owned (tags_after ne tags).
Proof.
  unfold all_owned, tags_after. intros H.
  rewrite <- (firstn_skipn (length ne) tags) in H.
  apply Forall_app in H. exact (proj1 H).
Qed.

Lemma fit_length m (l : list entry) : (length (fit m l) <= length l)%nat.
Proof.
  destruct (fit_prefix m l) as [gone E].
  apply (f_equal (@length entry)) in E. rewrite app_length in E. lia.
Qed.

Lemma Inv_after copy s tab' tags' :
  Inv copy s -> TInv tab' ->
  (length tab'.(entries) <= length tags')%nat ->
  (copy = true -> all_owned tags') ->
  Inv copy {| pd := set_d_tab tab' s.(pd); ptags := tags_after tab'.(entries) tags' |}.
Proof.
  intros _ HT HL HO. unfold Inv. cbn [pd ptags set_d_tab d_tab]. split; [|split].
  - apply tags_after_length. exact HL.
  - exact HT.
  - intros Hc. apply tags_after_owned. exact (HO Hc).
Qed.

Lemma set_size_shape d v : TInv d.(d_tab) ->
  exists t', Decoder_set_header_table_size d v = (Ok tt, set_d_tab t' d) /\ TInv t' /\
             (length t'.(entries) <= length d.(d_tab).(entries))%nat.
Proof.
  intros H. unfold Decoder_set_header_table_size.
  destruct (set_maxsize_spec (d_tab d) v H) as [t' [E [En [_ [_ I]]]]].
  rewrite E. exists t'. split; [reflexivity|]. split; [exact I|].
  rewrite En. unfold resize. apply fit_length.
Qed.

Lemma update_shape d data : TInv d.(d_tab) ->
  exists t', snd (Decoder__update_encoding_context d data) = set_d_tab t' d /\ TInv t' /\
             (length t'.(entries) <= length d.(d_tab).(entries))%nat.
Proof.
  intros H. unfold Decoder__update_encoding_context.
  assert (Same : exists t', d = set_d_tab t' d /\ TInv t' /\
                            (length t'.(entries) <= length d.(d_tab).(entries))%nat).
  { exists (d_tab d). split; [destruct d; reflexivity|]. split; [exact H|]. apply le_n. }
  destruct (decode_integer data 5) as [[new_size consumed]|e]; cbn [mbind snd]; [|exact Same].
  destruct (new_size >? d_max_allowed d); cbn [snd]; [exact Same|].
  destruct (set_size_shape d new_size H) as [t' [E [I L]]].
  rewrite E. cbn [sbind snd]. exists t'. split; [reflexivity|]. split; assumption.
Qed.

Lemma Inv_literal copy s data si : Inv copy s -> Inv copy (snd (p_decode_literal copy s data si)).
Proof.
  intros H. unfold p_decode_literal.
  apply (mbind_inv (Inv copy)); [exact H|]. intros t0.
  destruct si; cbv beta iota zeta.
  - apply (mbind_inv (Inv copy)); [exact H|]. intros [[[[[name tn] tc] data'] consumed] length'].
    apply (mbind_inv (Inv copy)); [exact H|]. intros [[[value tv] length''] consumed'].
    destruct H as [HL [HT HO]].
    destruct (add_spec (d_tab (pd s)) name value HT) as [t' [E [En [_ [_ I]]]]].
    rewrite E. cbn [snd].
    apply Inv_after; [exact (conj HL (conj HT HO))|exact I| |].
    + rewrite En. unfold insert.
      pose proof (fit_length (maxsize (d_tab (pd s))) ((name, value) :: entries (d_tab (pd s)))) as F.
      cbn [length] in *. unfold entry in *. lia.
    + intros Hc. subst copy. constructor; [reflexivity|]. apply HO. reflexivity.
  - apply (mbind_inv (Inv copy)); [exact H|]. intros [[[[[name tn] tc] data'] consumed] length'].
    apply (mbind_inv (Inv copy)); [exact H|]. intros [[[value tv] length''] consumed']. exact H.
Qed.

Lemma Inv_update copy s data : Inv copy s -> Inv copy (snd (p_update_encoding_context s data)).
Proof.
  intros H. unfold p_update_encoding_context.
  pose proof (update_shape (pd s) data (proj1 (proj2 H))) as [t' [E [I L]]].
  destruct (Decoder__update_encoding_context (pd s) data) as [r d']. cbn [snd] in *. subst d'.
  change (d_tab (set_d_tab t' (pd s))) with t'.
  apply Inv_after; [exact H|exact I| |exact (proj2 (proj2 H))].
  rewrite (proj1 H). exact L.
Qed.

Definition PInv (copy : bool) (st : pstate) : Prop := Inv copy (fst (fst (fst st))).

Lemma Inv_tail copy self headers inflated_size current_index
      (r : outcome (option (header * (pv * pv)) * Z)) :
  Inv copy self ->
  PInv copy (ctl_st (R := list (header * (pv * pv)))
    match r with
    | Err e => Raise e (self, headers, inflated_size, current_index)
    | Ok (Some (h, tg), consumed) =>
        let headers := headers ++ [(h, tg)] in
        let inflated_size := inflated_size + table_entry_size (h_name h) (h_value h) in
        if inflated_size >? self.(pd).(d_max_list)
        then match py_format_d self.(pd).(d_max_list) with
             | Err e => Raise e (self, headers, inflated_size, current_index)
             | Ok _ => Raise OversizedHeaderListError (self, headers, inflated_size, current_index)
             end
        else Next (self, headers, inflated_size, current_index + consumed)
    | Ok (None, consumed) => Next (self, headers, inflated_size, current_index + consumed)
    end).
Proof.
  intros H. destruct r as [[[[h tg]|] consumed]|e]; cbv zeta; [|exact H|exact H].
  destruct (_ >? _); [|exact H].
  destruct (py_format_d _); exact H.
Qed.

Lemma Inv_body copy data data_len st :
  PInv copy st -> PInv copy (ctl_st (p_decode_body copy data data_len st)).
Proof.
  destruct st as [[[self headers] inflated_size] current_index]. intros H.
  change (Inv copy self) in H. unfold p_decode_body.
  destruct (current_index <? data_len); [|exact H].
  destruct (index_Z data current_index) as [t|e]; [|exact H].
  cbv zeta.
  destruct (truthy (Z.land (bz t) 128)).
  { destruct (p_decode_indexed self (slice_from data current_index)) as [[[h tg] c]|e].
    - exact (Inv_tail copy self headers inflated_size current_index (Ok (Some (h, tg), c)) H).
    - exact H. }
  destruct (truthy (Z.land (bz t) 64)).
  { pose proof (Inv_literal copy self (slice_from data current_index) true H) as HL.
    destruct (p_decode_literal copy self (slice_from data current_index) true) as [[[[h tg] c]|e] s'];
      cbn [snd] in HL.
    - exact (Inv_tail copy s' headers inflated_size current_index (Ok (Some (h, tg), c)) HL).
    - exact HL. }
  destruct (truthy (Z.land (bz t) 32)).
  { destruct (negb (len headers =? 0)).
    { cbv beta iota. exact H. }
    pose proof (Inv_update copy self (slice_from data current_index) H) as HL.
    destruct (p_update_encoding_context self (slice_from data current_index)) as [[c|e] s'];
      cbn [snd] in HL; cbv beta iota; exact HL. }
  pose proof (Inv_literal copy self (slice_from data current_index) false H) as HL.
  destruct (p_decode_literal copy self (slice_from data current_index) false) as [[[[h tg] c]|e] s'];
    cbn [snd] in HL.
  - exact (Inv_tail copy s' headers inflated_size current_index (Ok (Some (h, tg), c)) HL).
  - exact HL.
Qed.

Lemma Inv_decode copy s data raw : Inv copy s -> Inv copy (snd (p_decode copy s data raw)).
Proof.
  intros H. unfold p_decode.
  pose proof (while_fuel_inv (PInv copy) (p_decode_body copy data (len data))
                (Inv_body copy data (len data)) (S (length data)) (s, [], 0, 0) H) as W.
  destruct (while_fuel (S (length data)) (p_decode_body copy data (len data)) (s, [], 0, 0))
    as [[[[s' hs] i] c]|r [[[s' hs] i] c]|e [[[s' hs] i] c]|[[[s' hs] i] c]];
    cbn [lres_st] in W; change (Inv copy s') in W; try exact W.
  apply (mbind_inv (Inv copy)); [exact W|]. intros _. exact W.
Qed.

Lemma Inv_dstep copy s o : Inv copy s -> Inv copy (snd (p_dstep copy s o)).
Proof.
  intros H. destruct o as [v|v|v|data raw]; cbn [p_dstep dstep snd fst].
  - exact H.
  - destruct (set_size_shape (pd s) v (proj1 (proj2 H))) as [t' [E [I L]]].
    rewrite E. cbn [snd]. change (d_tab (set_d_tab t' (pd s))) with t'.
    apply Inv_after; [exact H|exact I| |exact (proj2 (proj2 H))].
    rewrite (proj1 H). exact L.
  - exact H.
  - apply Inv_decode. exact H.
Qed.

Lemma Inv_drun copy : forall ops s, Inv copy s -> Inv copy (p_drun copy ops s).
Proof.
  unfold p_drun. induction ops as [|o ops IH]; intros s H; cbn [fold_left]; [exact H|].
  apply IH. apply Inv_dstep. exact H.
Qed.

Lemma Inv_init copy L : Inv copy (p_init L).
Proof.
  unfold Inv, p_init. cbn [pd ptags]. split; [reflexivity|]. split; [exact TInv_init|].
  intros _. constructor.
Qed.

Lemma tags_parallel : forall copy ops L,
  length (p_drun copy ops (p_init L)).(ptags) = length (p_drun copy ops (p_init L)).(pd).(d_tab).(entries).
Proof. intros copy ops L. exact (proj1 (Inv_drun copy ops (p_init L) (Inv_init copy L))). Qed.

Lemma entries_owned : forall ops L, all_owned (p_drun true ops (p_init L)).(ptags).
Proof.
  intros ops L. exact (proj2 (proj2 (Inv_drun true ops (p_init L) (Inv_init true L))) eq_refl).
Qed.

(** * Part 3 *)
(** the loop body never executes a [return] *)
Lemma body_no_return copy data data_len st : no_return (p_decode_body copy data data_len st).
Proof.
  destruct st as [[[self headers] inflated_size] current_index]. unfold p_decode_body.
  destruct (current_index <? data_len); [|exact I].
  destruct (index_Z data current_index) as [t|e]; [|exact I].
  cbv zeta.
  assert (T : forall self (r : outcome (option (header * (pv * pv)) * Z)),
    no_return (R := list (header * (pv * pv)))
    match r with
    | Err e => Raise e (self, headers, inflated_size, current_index)
    | Ok (Some (h, tg), consumed) =>
        let headers := headers ++ [(h, tg)] in
        let inflated_size := inflated_size + table_entry_size (h_name h) (h_value h) in
        if inflated_size >? self.(pd).(d_max_list)
        then match py_format_d self.(pd).(d_max_list) with
             | Err e => Raise e (self, headers, inflated_size, current_index)
             | Ok _ => Raise OversizedHeaderListError (self, headers, inflated_size, current_index)
             end
        else Next (self, headers, inflated_size, current_index + consumed)
    | Ok (None, consumed) => Next (self, headers, inflated_size, current_index + consumed)
    end).
  { intros self0 r. destruct r as [[[[h tg]|] consumed]|e]; cbv zeta; [|exact I|exact I].
    destruct (_ >? _); [|exact I]. destruct (py_format_d _); exact I. }
  destruct (truthy (Z.land (bz t) 128)).
  { destruct (p_decode_indexed self (slice_from data current_index)) as [[[h tg] c]|e].
    - exact (T self (Ok (Some (h, tg), c))).
    - exact I. }
  destruct (truthy (Z.land (bz t) 64)).
  { destruct (p_decode_literal copy self (slice_from data current_index) true) as [[[[h tg] c]|e] s'].
    - exact (T s' (Ok (Some (h, tg), c))).
    - exact I. }
  destruct (truthy (Z.land (bz t) 32)).
  { destruct (negb (len headers =? 0)).
    { exact I. }
    destruct (p_update_encoding_context self (slice_from data current_index)) as [[c|e] s']; exact I. }
  destruct (p_decode_literal copy self (slice_from data current_index) false) as [[[[h tg] c]|e] s'].
  - exact (T s' (Ok (Some (h, tg), c))).
  - exact I.
Qed.

Lemma decode_returns_owned copy s data raw hs :
  fst (p_decode copy s data raw) = Ok hs -> Forall (fun h => snd h = (Owned, Owned)) hs.
Proof.
  unfold p_decode.
  pose proof (while_fuel_no_return (p_decode_body copy data (len data))
                (body_no_return copy data (len data)) (S (length data)) (s, [], 0, 0)) as NR.
  destruct (while_fuel (S (length data)) (p_decode_body copy data (len data)) (s, [], 0, 0))
    as [[[[s' hs'] i] c]|r [[[s' hs'] i] c]|e [[[s' hs'] i] c]|[[[s' hs'] i] c]];
    cbn [no_returned] in NR.
  - destruct (Decoder__assert_valid_table_size (pd s')) as [u|e]; cbn [mbind fst]; [|discriminate].
    destruct (catch UnicodeDecodeError HPACKDecodingError (unicode_all (map fst hs') raw)) as [l|e];
      [|discriminate].
    intros E. injection E as <-.
    apply Forall_forall. intros x Hx. apply in_map_iff in Hx. destruct Hx as [h [<- _]]. reflexivity.
  - destruct NR.
  - cbn [fst]. discriminate.
  - cbn [fst]. discriminate.
Qed.

Lemma returned_owned : forall ops L data raw hs,
  fst (p_decode true (p_drun true ops (p_init L)) data raw) = Ok hs ->
  Forall (fun h => snd h = (Owned, Owned)) hs.
Proof. intros ops L data raw hs. apply decode_returns_owned. Qed.

Lemma tsize_payload (l : list (bytes * bytes)) :
  tsize l = fold_right (fun e a => len (fst e) + len (snd e) + a) 0 l + 32 * len l.
Proof.
  induction l as [|e l IH]; [reflexivity|].
  assert (L : len (e :: l) = 1 + len l) by (unfold len; cbn [length]; lia).
  rewrite tsize_cons, IH, L. cbn [fold_right]. unfold esize, entry, bytes in *. lia.
Qed.

Lemma retained_bounded : forall ops L,
  let t := (drun ops (Decoder_init L)).(d_tab) in
  fold_right (fun e a => len (fst e) + len (snd e) + a) 0 t.(entries) <= Z.max 0 t.(maxsize) - 32 * len t.(entries).
Proof.
  intros ops L t. destruct (decoder_TInv ops L) as [_ B]. fold t in B.
  rewrite tsize_payload in B. lia.
Qed.

Lemma without_copies_refuted :
  exists data, ~ all_owned (snd (p_decode false (p_init 65536) data true)).(ptags).
Proof.
  exists [x40; x01; x61; x01; x62].
  assert (E : (snd (p_decode false (p_init 65536) [x40; x01; x61; x01; x62] true)).(ptags) = [(View, View)])
    by (vm_compute; reflexivity).
  rewrite E. intros H. inversion H as [|x l Hx Hl]. discriminate Hx.
Qed.
