(** Proofs for C12: the Huffman encoder model emits the Appendix B code, padded with ones. *)
From Coq Require Import ZArith List Bool Lia ZifyBool Arith.
From Coq Require Import Init.Byte.
From HV Require Import Prelude.Py Prelude.State Spec.HuffmanCode Model.Data Model.HuffEnc Model.Decoder Model.Encoder.
Import ListNotations.
Open Scope Z_scope.
Ltac Zify.zify_post_hook ::= Z.to_euclidean_division_equations.

(** * Big-endian digit strings in base [B] *)
Fixpoint dvalA (B a : Z) (ds : list Z) : Z :=
  match ds with [] => a | d :: r => dvalA B (B * a + d) r end.
Definition digs (B : Z) (ds : list Z) : Prop := Forall (fun d => 0 <= d < B) ds.

Lemma dvalA_app B a x y : dvalA B a (x ++ y) = dvalA B (dvalA B a x) y.
Proof. revert a; induction x as [|d x IH]; intros a; cbn [dvalA app]; auto. Qed.

Lemma dvalA_split B ds : forall a, dvalA B a ds = a * B ^ (len ds) + dvalA B 0 ds.
Proof.
  induction ds as [|d r IH]; intros a.
  - cbn. ring.
  - cbn [dvalA]. rewrite (IH (B * a + d)), (IH (B * 0 + d)).
    unfold len. cbn [length]. rewrite Nat2Z.inj_succ, Z.pow_succ_r by lia. ring.
Qed.

Lemma dvalA_bound B ds : 0 < B -> digs B ds -> 0 <= dvalA B 0 ds < B ^ (len ds).
Proof.
  intros HB. induction ds as [|d r IH]; intros H.
  - cbn. lia.
  - inversion H as [|? ? Hd Hr]; subst. specialize (IH Hr).
    cbn [dvalA]. rewrite dvalA_split.
    unfold len in *. cbn [length]. rewrite Nat2Z.inj_succ, Z.pow_succ_r by lia.
    set (P := B ^ Z.of_nat (length r)) in *.
    set (v := dvalA B 0 r) in *. clearbody P v. nia.
Qed.

Lemma dvalA_inj B : 0 < B -> forall x y, digs B x -> digs B y -> length x = length y ->
  dvalA B 0 x = dvalA B 0 y -> x = y.
Proof.
  intros HB. induction x as [|a x IH]; intros [|b y] Hx Hy HL HV; try discriminate; auto.
  inversion Hx as [|? ? Ha Hx']; inversion Hy as [|? ? Hb Hy']; subst.
  injection HL as HL.
  cbn [dvalA] in HV. rewrite (dvalA_split B x), (dvalA_split B y) in HV.
  pose proof (dvalA_bound B x HB Hx') as Bx. pose proof (dvalA_bound B y HB Hy') as By.
  unfold len in *. rewrite HL in *.
  set (P := B ^ Z.of_nat (length y)) in *.
  set (vx := dvalA B 0 x) in *. set (vy := dvalA B 0 y) in *.
  assert (a = b) by (clearbody P vx vy; nia). subst b.
  f_equal. apply IH; auto. unfold vx, vy in *. lia.
Qed.

(** * Bit strings *)
Lemma Z_of_bits_dval l : forall a, Z_of_bits a l = dvalA 2 a (map Z.b2z l).
Proof. induction l as [|b r IH]; intros a; cbn [Z_of_bits map dvalA]; auto. Qed.

Lemma digs_b2z l : digs 2 (map Z.b2z l).
Proof. induction l as [|b r IH]; constructor; auto. destruct b; cbn; lia. Qed.

Lemma Z_of_bits_app a x y : Z_of_bits a (x ++ y) = Z_of_bits (Z_of_bits a x) y.
Proof. rewrite !Z_of_bits_dval, map_app, dvalA_app. reflexivity. Qed.

Lemma Z_of_bits_split a l : Z_of_bits a l = a * 2 ^ (len l) + Z_of_bits 0 l.
Proof. rewrite !Z_of_bits_dval, dvalA_split. unfold len. rewrite map_length. reflexivity. Qed.

Lemma Z_of_bits_bound l : 0 <= Z_of_bits 0 l < 2 ^ (len l).
Proof.
  rewrite Z_of_bits_dval. pose proof (dvalA_bound 2 (map Z.b2z l) eq_refl (digs_b2z l)) as H.
  unfold len in *. rewrite map_length in H. exact H.
Qed.

Lemma map_b2z_inj x : forall y, map Z.b2z x = map Z.b2z y -> x = y.
Proof.
  induction x as [|a x IH]; intros [|b y] H; try discriminate; auto.
  cbn [map] in H. injection H as H1 H2. f_equal; auto. destruct a, b; auto; discriminate.
Qed.

Lemma Z_of_bits_inj x y : length x = length y -> Z_of_bits 0 x = Z_of_bits 0 y -> x = y.
Proof.
  intros HL HV. apply map_b2z_inj. rewrite !Z_of_bits_dval in HV.
  apply (dvalA_inj 2 eq_refl); auto using digs_b2z. rewrite !map_length. exact HL.
Qed.

Lemma bits_msb_length n c : length (bits_msb n c) = n.
Proof. induction n; cbn [bits_msb length]; auto. Qed.

Lemma Z_of_bits_msb n c : forall a, Z_of_bits a (bits_msb n c) = a * 2 ^ Z.of_nat n + c mod 2 ^ Z.of_nat n.
Proof.
  induction n as [|k IH]; intros a.
  - cbn [bits_msb Z_of_bits]. change (2 ^ Z.of_nat 0) with 1. rewrite Z.mod_1_r. ring.
  - cbn [bits_msb Z_of_bits]. rewrite IH.
    rewrite Nat2Z.inj_succ, Z.pow_succ_r by lia.
    rewrite (Z.mul_comm 2 (2 ^ Z.of_nat k)), Z.rem_mul_r by lia.
    rewrite <- (Z.testbit_spec' c (Z.of_nat k)) by lia.
    destruct (Z.testbit c (Z.of_nat k)); cbn [Z.b2z]; ring.
Qed.

Lemma bits_msb_Z_of_bits f : bits_msb (length f) (Z_of_bits 0 f) = f.
Proof.
  apply Z_of_bits_inj.
  - apply bits_msb_length.
  - rewrite Z_of_bits_msb. pose proof (Z_of_bits_bound f) as H. unfold len in H.
    rewrite Z.mod_small by exact H. ring.
Qed.

Lemma Z_of_bits_repeat_true p : forall a, Z_of_bits a (repeat true p) = a * 2 ^ Z.of_nat p + (2 ^ Z.of_nat p - 1).
Proof.
  induction p as [|p IH]; intros a.
  - cbn. ring.
  - cbn [repeat Z_of_bits]. rewrite IH, Nat2Z.inj_succ, Z.pow_succ_r by lia. ring.
Qed.

Lemma lor_shift a c l : 0 <= l -> 0 <= c < 2 ^ l -> Z.lor (Z.shiftl a l) c = a * 2 ^ l + c.
Proof.
  intros Hl Hc. rewrite Z.shiftl_mul_pow2 by exact Hl.
  assert (E : Z.land (a * 2 ^ l) c = 0); [|rewrite <- (Z.lxor_lor _ _ E); symmetry; apply Z.add_nocarry_lxor; exact E].
  apply Z.bits_inj'. intros n Hn. rewrite Z.land_spec, Z.bits_0.
  destruct (Z.ltb_spec n l) as [Lt|Ge].
  - rewrite Z.mul_pow2_bits_low by exact Lt. reflexivity.
  - rewrite <- (Z.mod_small c (2 ^ l)) by exact Hc.
    rewrite Z.mod_pow2_bits_high by lia. apply andb_false_r.
Qed.

Lemma land_mask c l : 0 <= l -> 0 <= c < 2 ^ l -> Z.land c (2 ^ (l + 1) - 1) = c.
Proof.
  intros Hl Hc. rewrite Z.sub_1_r, <- Z.ones_equiv, Z.land_ones by lia.
  apply Z.mod_small. rewrite Z.pow_add_r by lia. change (2 ^ 1) with 2. lia.
Qed.

(** * The certificate on the two code lists *)
Definition codes_cert (coder : hcoder) : bool :=
  (256 <=? length (hc_codes coder))%nat && (256 <=? length (hc_lens coder))%nat &&
  forallb (fun i => (nth i (hc_codes coder) 0 =? fst (nth i appendix_b (0, 0))) &&
                    (nth i (hc_lens coder) 0 =? snd (nth i appendix_b (0, 0)))) (seq 0 256).

Lemma frozen_codes_cert : codes_cert huffman_coder = true.
Proof. vm_compute. reflexivity. Qed.

Definition ab_ok : bool :=
  forallb (fun i => let cl := nth i appendix_b (0, 0) in
                    (0 <=? fst cl) && (fst cl <? 2 ^ snd cl) && (5 <=? snd cl) && (snd cl <=? 30)) (seq 0 256).
Lemma ab_ok_true : ab_ok = true.
Proof. vm_compute. reflexivity. Qed.

Lemma ab_entry i : (i < 256)%nat ->
  let cl := nth i appendix_b (0, 0) in 0 <= fst cl < 2 ^ snd cl /\ 5 <= snd cl <= 30.
Proof.
  intros Hi cl. pose proof ab_ok_true as H. unfold ab_ok in H. rewrite forallb_forall in H.
  specialize (H i). cbv beta zeta in H. fold cl in H.
  assert (In i (seq 0 256)) as Hin by (apply in_seq; lia).
  specialize (H Hin). clear Hin. lia.
Qed.

Lemma bz_range b : 0 <= bz b < 256.
Proof. unfold bz. pose proof (Byte.to_N_bounded b). lia. Qed.

Lemma zb_bz z : 0 <= z < 256 -> exists b, zb z = Some b /\ bz b = z.
Proof.
  intros Hz. unfold zb. destruct (z <? 0) eqn:E; [lia|].
  destruct (Byte.of_N (Z.to_N z)) as [b|] eqn:Eb.
  - exists b. split; auto. unfold bz. apply Byte.to_of_N in Eb. rewrite Eb. lia.
  - apply Byte.of_N_None_iff in Eb. lia.
Qed.

Lemma index_Z_nth {A} (l : list A) (d : A) (z : Z) :
  0 <= z -> (Z.to_nat z < length l)%nat -> index_Z l z = Ok (nth (Z.to_nat z) l d).
Proof.
  intros Hz Hl. unfold index_Z. destruct (z <? 0) eqn:E; [lia|]. rewrite E.
  rewrite (nth_error_nth' l d Hl). reflexivity.
Qed.

Lemma hcode_len b : 5 <= len (hcode b) <= 30.
Proof.
  pose proof (bz_range b) as Hb.
  destruct (ab_entry (Z.to_nat (bz b)) ltac:(lia)) as (_ & H).
  unfold hcode, hcode_Z, code_bits, len. rewrite bits_msb_length. lia.
Qed.

Lemma cert_entry coder b : codes_cert coder = true ->
  exists c l, index_Z (hc_lens coder) (bz b) = Ok l /\ index_Z (hc_codes coder) (bz b) = Ok c /\
              0 <= c < 2 ^ l /\ 5 <= l <= 30 /\ code_bits (c, l) = hcode b.
Proof.
  intros H. unfold codes_cert in H.
  apply andb_prop in H. destruct H as (H & Hall). apply andb_prop in H. destruct H as (Hc & Hl).
  apply Nat.leb_le in Hc. apply Nat.leb_le in Hl.
  pose proof (bz_range b) as Hb.
  set (i := Z.to_nat (bz b)). assert (Hi : (i < 256)%nat) by (unfold i; lia).
  rewrite forallb_forall in Hall. specialize (Hall i ltac:(apply in_seq; lia)).
  apply andb_prop in Hall. destruct Hall as (Ec & El).
  apply Z.eqb_eq in Ec. apply Z.eqb_eq in El.
  destruct (ab_entry i Hi) as (R1 & R2).
  exists (nth i (hc_codes coder) 0), (nth i (hc_lens coder) 0).
  split; [apply index_Z_nth; fold i; lia|]. split; [apply index_Z_nth; fold i; lia|].
  rewrite Ec, El. split; [exact R1|]. split; [exact R2|].
  unfold hcode, hcode_Z. fold i. destruct (nth i appendix_b (0, 0)); reflexivity.
Qed.

(** * The accumulation loop *)
Definition enc_body (self : hcoder) : byte -> Z * Z -> ctl (Z * Z) bytes :=
  (fun byte_b '(final_num, final_int_len) =>
let byte := bz byte_b in
match index_Z self.(hc_lens) (byte) with Err e_ => Raise e_ (final_num, final_int_len) | Ok t1 =>
let bin_int_len := t1 in
match index_Z self.(hc_codes) (byte) with Err e_ => Raise e_ (final_num, final_int_len) | Ok t2 =>
let bin_int := (Z.land (t2) (((Z.pow (2) ((bin_int_len + 1))) - 1))) in
let final_num := (Z.shiftl (final_num) (bin_int_len)) in
let final_num := (Z.lor (final_num) (bin_int)) in
let final_int_len := (final_int_len + bin_int_len) in
Next (final_num, final_int_len) end end).

Definition enc_tail (final_num final_int_len : Z) : outcome bytes :=
let bits_to_be_padded := (Z.modulo ((8 - (Z.modulo (final_int_len) (8)))) (8)) in
let final_num := (Z.shiftl (final_num) (bits_to_be_padded)) in
let final_num := (Z.lor (final_num) (((Z.shiftl (1) (bits_to_be_padded)) - 1))) in
let s := (py_hex_tail (final_num)) in
let s := (if (negb ((Z.modulo ((len s)) (2)) =? 0)) then ([0] ++ s) else s) in
let total_bytes := (Z.div ((final_int_len + bits_to_be_padded)) (8)) in
let expected_digits := (total_bytes * 2) in
if (negb ((len s) =? expected_digits))
then let missing_digits := (expected_digits - (len s)) in
let s := ((str_repeat [0] (missing_digits)) ++ s) in
t3 <- py_fromhex s ;;
Ok (t3)
else t4 <- py_fromhex s ;;
Ok (t4).

Lemma encode_unfold coder s : HuffmanEncoder_encode coder s =
  if len s =? 0 then Ok [] else
  match for_each s (enc_body coder) (0, 0) with
  | Done (final_num, final_int_len) => enc_tail final_num final_int_len
  | Returned r_ _ => Ok r_
  | Raised e_ _ => Err e_
  | Exhausted _ => Err OutOfFuel
  end.
Proof. reflexivity. Qed.

Lemma hbits_cons b t : hbits (b :: t) = hcode b ++ hbits t.
Proof. reflexivity. Qed.

Lemma enc_loop coder : codes_cert coder = true -> forall t a n,
  for_each t (enc_body coder) (a, n) = Done (Z_of_bits a (hbits t), n + len (hbits t)).
Proof.
  intros Hc. induction t as [|b t IH]; intros a n.
  - cbn [for_each hbits flat_map Z_of_bits]. unfold len. cbn [length]. f_equal. f_equal. lia.
  - destruct (cert_entry coder b Hc) as (c & l & El & Ec & Rc & Rl & Eb).
    cbn [for_each]. unfold enc_body at 1. cbv beta iota zeta. rewrite El, Ec.
    rewrite IH. rewrite land_mask by lia. rewrite lor_shift by lia.
    rewrite hbits_cons, Z_of_bits_app. rewrite <- Eb. unfold code_bits. cbn [fst snd].
    rewrite Z_of_bits_msb. rewrite Z2Nat.id by lia. rewrite Z.mod_small by lia.
    f_equal. f_equal. unfold len. rewrite app_length, bits_msb_length. lia.
Qed.

(** * The hexadecimal path *)
Lemma hex_digits_pos_spec : forall n p acc, (Pos.size_nat p <= n)%nat ->
  exists d ds, hex_digits_pos p acc = d :: ds ++ acc /\ 1 <= d <= 15 /\ digs 16 ds /\
               dvalA 16 0 (d :: ds) = Zpos p.
Proof.
  induction n as [|n IH]; intros p acc H.
  - destruct p; cbn [Pos.size_nat] in H; lia.
  - do 4 (try destruct p as [p|p|]); cbn [hex_digits_pos];
    try (match goal with |- context [hex_digits_pos ?q (?x :: acc)] =>
      destruct (IH q (x :: acc)) as (d & ds & E & Hd & Hds & Hv); [cbn [Pos.size_nat] in H; lia|];
      exists d, (ds ++ [x]); rewrite E; split; [rewrite <- app_assoc; reflexivity|];
      split; [exact Hd|]; split; [apply Forall_app; split; [exact Hds|constructor; [lia|constructor]]|];
      change (d :: ds ++ [x]) with ((d :: ds) ++ [x]); rewrite dvalA_app, Hv; cbn [dvalA]; lia
    end);
    match goal with |- context [?x :: acc] =>
      exists x, []; split; [reflexivity|]; split; [lia|]; split; [constructor|reflexivity] end.
Qed.

Lemma pow256_16 k : 0 <= k -> 256 ^ k = 16 ^ (k * 2).
Proof. intros Hk. rewrite (Z.mul_comm k 2), Z.pow_mul_r by lia. reflexivity. Qed.

Lemma hex_tail_spec n k : 1 <= k -> 0 <= n < 256 ^ k ->
  let s0 := py_hex_tail n in
  1 <= len s0 <= k * 2 /\ digs 16 s0 /\ dvalA 16 0 s0 = n.
Proof.
  intros Hk Hn s0. destruct n as [|p|p]; [| |lia].
  - subst s0. cbn [py_hex_tail]. unfold len. cbn [length]. split; [lia|]. split; [|reflexivity].
    constructor; [lia|constructor].
  - subst s0. cbn [py_hex_tail].
    destruct (hex_digits_pos_spec (Pos.size_nat p) p [] (le_n _)) as (d & ds & E & Hd & Hds & Hv).
    rewrite E, app_nil_r. split; [|split; [constructor; [lia|exact Hds]|exact Hv]].
    cbn [dvalA] in Hv. rewrite dvalA_split in Hv.
    pose proof (dvalA_bound 16 ds eq_refl Hds) as Bv.
    rewrite pow256_16 in Hn by lia.
    assert (Hlt : 16 ^ len ds < 16 ^ (k * 2)).
    { set (P := 16 ^ len ds) in *. set (v := dvalA 16 0 ds) in *. clearbody P v. nia. }
    apply Z.pow_lt_mono_r_iff in Hlt; [|lia|lia].
    unfold len in *. cbn [length]. lia.
Qed.

Lemma hex_norm n k : 1 <= k -> 0 <= n < 256 ^ k ->
  let s0 := py_hex_tail n in
  let s1 := if negb (len s0 mod 2 =? 0) then [0] ++ s0 else s0 in
  len s1 <= k * 2 /\ len s1 mod 2 = 0 /\ digs 16 s1 /\ dvalA 16 0 s1 = n.
Proof.
  intros Hk Hn s0 s1. destruct (hex_tail_spec n k Hk Hn) as (HL & Hd & Hv). fold s0 in HL, Hd, Hv.
  subst s1. destruct (len s0 mod 2 =? 0) eqn:E; cbn [negb].
  - repeat split; auto; lia.
  - unfold len in *. cbn [app length]. repeat split; try lia.
    + constructor; [lia|exact Hd].
    + exact Hv.
Qed.

Lemma str_repeat_0 m : str_repeat [0] m = repeat 0 (Z.to_nat m).
Proof. unfold str_repeat. induction (Z.to_nat m) as [|j IH]; cbn [repeat concat app]; congruence. Qed.

Lemma dvalA_zeros j : dvalA 16 0 (repeat 0 j) = 0.
Proof. induction j; cbn [repeat dvalA]; auto. Qed.

Lemma digs_zeros j : digs 16 (repeat 0 j).
Proof. induction j; cbn [repeat]; constructor; auto; lia. Qed.

Lemma fromhex_ok : forall m S, length S = (2 * m)%nat -> digs 16 S ->
  exists bs, py_fromhex S = Ok bs /\ length bs = m /\
             forall a, dvalA 256 a (map bz bs) = dvalA 16 a S.
Proof.
  induction m as [|m IH]; intros S HL Hd.
  - destruct S; [|discriminate]. exists []. repeat split.
  - destruct S as [|h [|l r]]; try (cbn [length] in HL; lia).
    inversion Hd as [|? ? Hh Hd1]; subst. inversion Hd1 as [|? ? Hl Hr]; subst.
    cbn [py_fromhex].
    destruct ((h <? 0) || (15 <? h) || (l <? 0) || (15 <? l)) eqn:E; [lia|].
    destruct (zb_bz (16 * h + l) ltac:(lia)) as (b & Eb & Vb). rewrite Eb.
    destruct (IH r ltac:(cbn [length] in HL; lia) Hr) as (bs & E1 & E2 & E3).
    rewrite E1. cbn [bind]. exists (b :: bs). split; [reflexivity|]. split; [cbn [length]; lia|].
    intros a. cbn [map dvalA]. rewrite E3, Vb. f_equal. ring.
Qed.

Lemma hex_finish s1 k n : 0 <= k -> len s1 <= k * 2 -> len s1 mod 2 = 0 -> digs 16 s1 -> dvalA 16 0 s1 = n ->
  exists bs, (if negb (len s1 =? k * 2)
              then (t3 <- py_fromhex (str_repeat [0] (k * 2 - len s1) ++ s1) ;; Ok t3)
              else (t4 <- py_fromhex s1 ;; Ok t4)) = Ok bs /\
             length bs = Z.to_nat k /\ dvalA 256 0 (map bz bs) = n.
Proof.
  intros Hk HL Hev Hd Hv.
  destruct (len s1 =? k * 2) eqn:E; cbn [negb].
  - destruct (fromhex_ok (Z.to_nat k) s1 ltac:(unfold len in *; lia) Hd) as (bs & E1 & E2 & E3).
    exists bs. rewrite E1. cbn [bind]. repeat split; auto. rewrite E3. exact Hv.
  - rewrite str_repeat_0.
    destruct (fromhex_ok (Z.to_nat k) (repeat 0 (Z.to_nat (k * 2 - len s1)) ++ s1)) as (bs & E1 & E2 & E3).
    + rewrite app_length, repeat_length. unfold len in *. lia.
    + apply Forall_app. split; [apply digs_zeros|exact Hd].
    + exists bs. rewrite E1. cbn [bind]. repeat split; auto.
      rewrite E3, dvalA_app, dvalA_zeros. exact Hv.
Qed.

(** * Packing bits into octets *)
Lemma pack_nil fuel : pack fuel [] = [].
Proof. destruct fuel; reflexivity. Qed.

Lemma pack_S f l : l <> [] -> pack (S f) l = Z_of_bits 0 (firstn 8 l) :: pack f (skipn 8 l).
Proof. destruct l; [congruence|reflexivity]. Qed.

Lemma pack_spec : forall k fuel l, length l = (8 * k)%nat -> (k <= fuel)%nat ->
  length (pack fuel l) = k /\ digs 256 (pack fuel l) /\
  forall a, dvalA 256 a (pack fuel l) = Z_of_bits a l.
Proof.
  induction k as [|k IH]; intros fuel l HL Hf.
  - destruct l; [|discriminate]. rewrite pack_nil. repeat split. constructor.
  - destruct fuel as [|f]; [lia|].
    rewrite pack_S by (intros ->; discriminate).
    assert (L8 : length (firstn 8 l) = 8%nat) by (rewrite firstn_length; lia).
    destruct (IH f (skipn 8 l)) as (I1 & I2 & I3); [rewrite skipn_length; lia|lia|].
    pose proof (Z_of_bits_bound (firstn 8 l)) as Bx. unfold len in Bx. rewrite L8 in Bx.
    change (2 ^ Z.of_nat 8) with 256 in Bx.
    split; [cbn [length]; lia|]. split; [constructor; [exact Bx|exact I2]|].
    intros a. cbn [dvalA]. rewrite I3.
    rewrite <- (firstn_skipn 8 l) at 3. rewrite Z_of_bits_app.
    rewrite (Z_of_bits_split a (firstn 8 l)). unfold len. rewrite L8.
    change (2 ^ Z.of_nat 8) with 256. f_equal. ring.
Qed.

Lemma cons_inj {A} (a b : A) x y : a :: x = b :: y -> a = b /\ x = y.
Proof. intros H. injection H; auto. Qed.

Lemma unpack : forall k fuel l bs, length l = (8 * k)%nat -> (k <= fuel)%nat ->
  map bz bs = pack fuel l -> bits bs = l.
Proof.
  induction k as [|k IH]; intros fuel l bs HL Hf E.
  - destruct l; [|discriminate]. rewrite pack_nil in E. apply map_eq_nil in E. subst bs. reflexivity.
  - destruct fuel as [|f]; [lia|].
    rewrite pack_S in E by (intros ->; discriminate).
    destruct bs as [|b bs]; [discriminate|]. cbn [map] in E. apply cons_inj in E. destruct E as (E1 & E2).
    assert (L8 : length (firstn 8 l) = 8%nat) by (rewrite firstn_length; lia).
    unfold bits. cbn [flat_map]. fold (bits bs).
    rewrite (IH f (skipn 8 l) bs); [|rewrite skipn_length; lia|lia|exact E2].
    unfold byte_bits. rewrite E1. rewrite <- L8 at 1. rewrite bits_msb_Z_of_bits.
    apply firstn_skipn.
Qed.

(** * Padding *)
Lemma pad_len_lt n : (pad_len n < 8)%nat.
Proof. unfold pad_len. apply Nat.mod_upper_bound. discriminate. Qed.

Lemma pad_len_Z n : Z.of_nat (pad_len n) = (8 - Z.of_nat n mod 8) mod 8.
Proof.
  unfold pad_len. pose proof (Nat.mod_upper_bound n 8 ltac:(discriminate)) as H.
  rewrite Nat2Z.inj_mod, Nat2Z.inj_sub by lia. rewrite Nat2Z.inj_mod. reflexivity.
Qed.

Lemma pad_len_mult n : exists k, (n + pad_len n = 8 * k)%nat.
Proof.
  exists (Z.to_nat ((Z.of_nat n + Z.of_nat (pad_len n)) / 8)).
  pose proof (pad_len_Z n) as H. lia.
Qed.

(** * The encoder *)
Lemma enc_tail_spec hb : 1 <= len hb ->
  let bl := hb ++ repeat true (pad_len (length hb)) in
  exists bs, enc_tail (Z_of_bits 0 hb) (0 + len hb) = Ok bs /\ map bz bs = pack (length bl) bl.
Proof.
  intros HL bl. set (pn := pad_len (length hb)) in *.
  destruct (pad_len_mult (length hb)) as (kn & Hk). fold pn in Hk.
  pose proof (pad_len_Z (length hb)) as Ep. fold pn in Ep.
  assert (Lbl : length bl = (8 * kn)%nat) by (unfold bl; rewrite app_length, repeat_length; exact Hk).
  change (Z.of_nat (length hb)) with (len hb) in Ep.
  unfold enc_tail. cbv zeta. rewrite Z.add_0_l. rewrite <- Ep.
  set (k := (len hb + Z.of_nat pn) / 8).
  assert (Ek : k = Z.of_nat kn) by (unfold k, len; lia).
  rewrite Z.shiftl_1_l.
  pose proof (Z.pow_pos_nonneg 2 (Z.of_nat pn) eq_refl ltac:(lia)) as Hpow.
  rewrite lor_shift by lia.
  rewrite <- Z_of_bits_repeat_true, <- Z_of_bits_app. fold bl.
  set (n := Z_of_bits 0 bl).
  assert (Hn : 0 <= n < 256 ^ k).
  { pose proof (Z_of_bits_bound bl) as B. fold n in B. unfold len in B. rewrite Lbl in B.
    rewrite Ek. change 256 with (2 ^ 8). rewrite <- Z.pow_mul_r by lia.
    replace (8 * Z.of_nat kn) with (Z.of_nat (8 * kn)) by lia. exact B. }
  assert (Hk1 : 1 <= k) by (unfold len in HL; lia).
  destruct (hex_norm n k Hk1 Hn) as (H1 & H2 & H3 & H4).
  set (s1 := if negb (len (py_hex_tail n) mod 2 =? 0) then [0] ++ py_hex_tail n else py_hex_tail n) in *.
  destruct (hex_finish s1 k n ltac:(lia) H1 H2 H3 H4) as (bs & E1 & E2 & E3).
  exists bs. split; [exact E1|].
  destruct (pack_spec kn (length bl) bl Lbl ltac:(lia)) as (P1 & P2 & P3).
  apply (dvalA_inj 256 eq_refl).
  - apply Forall_forall. intros x Hx. apply in_map_iff in Hx. destruct Hx as (b & <- & _). apply bz_range.
  - exact P2.
  - rewrite map_length. lia.
  - rewrite E3, P3. reflexivity.
Qed.

Lemma encoder_exact : forall coder s, codes_cert coder = true ->
  exists bs, HuffmanEncoder_encode coder s = Ok bs /\ map bz bs = huff_enc s.
Proof.
  intros coder s Hc. rewrite encode_unfold. destruct s as [|b t].
  - exists []. split; reflexivity.
  - replace (len (b :: t) =? 0) with false by (unfold len; cbn [length]; lia).
    rewrite enc_loop by exact Hc.
    unfold huff_enc. cbv zeta. apply enc_tail_spec.
    rewrite hbits_cons. pose proof (hcode_len b) as H. unfold len in *. rewrite app_length. lia.
Qed.

Lemma huff_enc_shape : forall s bs, map bz bs = huff_enc s ->
  exists p, (p < 8)%nat /\ bits bs = hbits s ++ repeat true p.
Proof.
  intros s bs E. unfold huff_enc in E. cbv zeta in E.
  exists (pad_len (length (hbits s))). split; [apply pad_len_lt|].
  destruct (pad_len_mult (length (hbits s))) as (k & Hk).
  set (bl := hbits s ++ repeat true (pad_len (length (hbits s)))) in *.
  assert (Lbl : length bl = (8 * k)%nat) by (unfold bl; rewrite app_length, repeat_length; exact Hk).
  apply (unpack k (length bl) bl bs Lbl ltac:(lia) E).
Qed.

Lemma huff_enc_octets : forall s, Forall (fun x => 0 <= x < 256) (huff_enc s).
Proof.
  intros s. unfold huff_enc. cbv zeta.
  destruct (pad_len_mult (length (hbits s))) as (k & Hk).
  set (bl := hbits s ++ repeat true (pad_len (length (hbits s)))) in *.
  assert (Lbl : length bl = (8 * k)%nat) by (unfold bl; rewrite app_length, repeat_length; exact Hk).
  destruct (pack_spec k (length bl) bl Lbl ltac:(lia)) as (_ & P2 & _). exact P2.
Qed.

Lemma encode_empty : huffman_encode_m [] = Ok [].
Proof. reflexivity. Qed.
