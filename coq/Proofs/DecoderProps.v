(** Corollaries of the decoder refinement and invariants of the model's block loop:
    the header-list bound (C07) and the table-size limit (C08). *)
From Coq Require Import ZArith List Bool Lia ZifyBool Arith.
From Coq Require Import Init.Byte.
From HV Require Import Prelude.Py Prelude.State Prelude.Utf8.
From HV Require Import Spec.IntRep Spec.StaticTable Spec.DynTable Spec.SDecoder.
From HV Require Import Model.Data Model.Int Model.Table Model.Decoder Model.Rel.
From HV Require Import Proofs.Int Proofs.Table Proofs.DecoderRefine.
Import ListNotations.
Open Scope Z_scope.

(** * C07: the header list bound *)
Lemma fsize_ge f : 32 <= fsize f.
Proof.
  unfold fsize, esize. cbn [fst snd].
  pose proof (len_nonneg (snd (fst f))). pose proof (len_nonneg (snd f)). lia.
Qed.

Lemma list_size_cons f l : list_size (f :: l) = fsize f + list_size l.
Proof. reflexivity. Qed.

Lemma list_size_ge l : 32 * len l <= list_size l.
Proof.
  induction l as [|f l IH]; [reflexivity|].
  rewrite list_size_cons, len_cons. pose proof (fsize_ge f). lia.
Qed.

Lemma removelast_sizes (hs : list header) :
  list_size (map conv (removelast hs)) <= list_size (map conv hs) /\
  32 * (len hs - 1) <= list_size (map conv (removelast hs)).
Proof.
  destruct hs as [|h0 l].
  - cbn [removelast map]. unfold list_size, len. cbn [fold_right length]. lia.
  - destruct (@exists_last _ (h0 :: l) ltac:(discriminate)) as (l' & a & ->).
    rewrite removelast_last, map_app. cbn [map]. rewrite list_size_app, len_app.
    pose proof (fsize_ge (conv a)). pose proof (list_size_ge (map conv l')) as HG.
    rewrite len_map in HG. change (len [a]) with 1. lia.
Qed.

(** the invariant of the model's loop, for ANY decoder state, data and fuel *)
Lemma loop_sizes data L : forall fuel d hs infl idx,
  infl = list_size (map conv hs) -> list_size (map conv hs) <= Z.max 0 (d_max_list d) ->
  match while_fuel fuel (decode_body data L) (d, hs, infl, idx) with
  | Done (d', hs', infl', _) | Exhausted (d', hs', infl', _) =>
      infl' = list_size (map conv hs') /\ list_size (map conv hs') <= Z.max 0 (d_max_list d)
  | Raised e (d', hs', infl', _) =>
      infl' = list_size (map conv hs') /\
      list_size (map conv (removelast hs')) <= Z.max 0 (d_max_list d)
  | Returned _ _ => False
  end.
Proof.
  induction fuel as [|fuel IH]; intros d hs infl idx Hinfl Hle; [split; assumption|].
  rewrite while_fuel_S. pose proof (body_shape data L d hs infl idx) as HB.
  destruct (decode_body data L (d, hs, infl, idx))
    as [[[[d' hs'] infl'] idx']|st|? ?|e [[[d' hs'] infl'] idx']]; try contradiction.
  - destruct HB as [[HF _] HB]. rewrite <- HF.
    destruct HB as [[-> ->]|(h & -> & -> & Hb)].
    + apply IH; [assumption|]. rewrite HF. assumption.
    + apply IH.
      * rewrite map_app. cbn [map]. rewrite list_size_app. subst infl. reflexivity.
      * rewrite map_app. cbn [map]. rewrite list_size_app, HF. subst infl. lia.
  - subst st. split; assumption.
  - destruct HB as (_ & _ & [[-> ->]|(h & -> & ->)]).
    + split; [assumption|]. pose proof (removelast_sizes hs). lia.
    + rewrite removelast_last. split; [|assumption].
      rewrite map_app. cbn [map]. rewrite list_size_app. subst infl. reflexivity.
Qed.

Lemma decode_loop_bound : forall d data fuel d' headers infl idx r,
  while_fuel fuel (decode_body data (len data)) (d, [], 0, 0) = r ->
  (r = Done (d', headers, infl, idx) \/ (exists e, r = Raised e (d', headers, infl, idx)) \/
   r = Exhausted (d', headers, infl, idx)) ->
  infl = list_size (map conv headers) /\
  list_size (map conv (removelast headers)) <= Z.max 0 d.(d_max_list) /\
  32 * (len headers - 1) <= Z.max 0 d.(d_max_list).
Proof.
  intros d data fuel d' headers infl idx r Hr Hcase.
  pose proof (loop_sizes data (len data) fuel d [] 0 0 eq_refl ltac:(change (list_size (map conv [])) with 0; lia)) as HL.
  rewrite Hr in HL. pose proof (removelast_sizes headers) as [HR1 HR2].
  destruct Hcase as [->|[(e & ->)| ->]]; destruct HL as [H1 H2]; (split; [exact H1|]); lia.
Qed.

Lemma decode_list_bound : forall d data raw hs d', dec_ok d ->
  Decoder_decode d data raw = (Ok hs, d') -> list_size (map conv hs) <= Z.max 0 d.(d_max_list).
Proof.
  intros d data raw hs d' _ Hd. unfold Decoder_decode in Hd. cbv zeta in Hd.
  pose proof (loop_sizes data (len data) (S (length data)) d [] 0 0 eq_refl
                ltac:(change (list_size (map conv [])) with 0; lia)) as HL.
  destruct (while_fuel (S (length data)) (decode_body data (len data)) (d, [], 0, 0))
    as [[[[d2 hs2] infl2] idx2]|? ?|e [[[d2 hs2] infl2] idx2]|[[[d2 hs2] infl2] idx2]];
    try contradiction; try discriminate Hd.
  destruct HL as [_ HL].
  destruct (Decoder__assert_valid_table_size d2); cbn [mbind] in Hd; [|discriminate Hd].
  rewrite unicode_all_spec in Hd.
  destruct (raw || forallb hvalid hs2); cbn [catch] in Hd.
  - injection Hd as <- _. exact HL.
  - cbn [exn_eqb] in Hd. discriminate Hd.
Qed.

Lemma exn_of_oversized c : exn_of c = OversizedHeaderListError <-> c = Oversized.
Proof. destruct c; split; intros H; try reflexivity; discriminate H. Qed.

Lemma oversized_iff : forall d data raw, dec_ok d ->
  (fst (Decoder_decode d data raw) = Err OversizedHeaderListError <->
   decode KLIM (ctx_of d) data (negb raw) = SErr Oversized).
Proof.
  intros d data raw Hok. pose proof (decode_refines d data raw Hok) as H.
  destruct (Decoder_decode d data raw) as [[hs|e] d']; cbn [fst].
  - destruct H as [H _]. rewrite H. split; intros X; discriminate X.
  - destruct H as (c & H & ->). rewrite H. split; intros X.
    + injection X as X. apply exn_of_oversized in X. subst c. reflexivity.
    + injection X as ->. reflexivity.
Qed.

Lemma spec_crossing : forall K fuel c b tl acc run never ins name value rest,
  parse_rep K (dyn c) (bz b) (b :: tl) = SOk (Emit never ins name value, rest) ->
  ~ (32 <= bz b < 64) ->
  (list_limit c < run + esize (name, value) ->
     decode_loop K (S fuel) c (b :: tl) acc run = SErr Oversized) /\
  (run + esize (name, value) <= list_limit c ->
     decode_loop K (S fuel) c (b :: tl) acc run =
     decode_loop K fuel (if ins then {| dyn := insert (size c) (name, value) (dyn c); size := size c; limit := limit c; list_limit := list_limit c |} else c)
                 rest (acc ++ [(never, name, value)]) (run + esize (name, value))).
Proof.
  intros K fuel c b tl acc run never ins name value rest HP Hb.
  rewrite dr_loop_S, HP. cbn [sbnd].
  destruct ((bz b <? 64) && (32 <=? bz b)) eqn:EU; [lia|]. cbn [andb].
  split; intros H; destruct (run + esize (name, value) >? list_limit c) eqn:E; try lia; reflexivity.
Qed.

(** * C08: the table size limit *)
Lemma update_above_rejected : forall d data n k,
  decode_integer data 5 = Ok (n, k) -> d.(d_max_allowed) < n ->
  Decoder__update_encoding_context d data = (Err InvalidTableSizeError, d).
Proof.
  intros d data n k Hi Hn. unfold Decoder__update_encoding_context. rewrite Hi. cbn [mbind].
  destruct (n >? d_max_allowed d) eqn:E; [reflexivity|lia].
Qed.

Lemma update_within_applied : forall d data n k, TInv d.(d_tab) ->
  decode_integer data 5 = Ok (n, k) -> n <= d.(d_max_allowed) ->
  exists d', Decoder__update_encoding_context d data = (Ok k, d') /\
    d'.(d_tab).(maxsize) = n /\ d'.(d_tab).(entries) = resize n d.(d_tab).(entries) /\
    d'.(d_max_allowed) = d.(d_max_allowed) /\ d'.(d_max_list) = d.(d_max_list) /\ TInv d'.(d_tab).
Proof.
  intros d data n k Ht Hi Hn. unfold Decoder__update_encoding_context. rewrite Hi. cbn [mbind].
  destruct (n >? d_max_allowed d) eqn:E; [lia|].
  unfold Decoder_set_header_table_size.
  destruct (set_maxsize_spec (d_tab d) n Ht) as (t' & Hs & He & Hm & _ & Ht').
  rewrite Hs. cbn [sbind]. exists (set_d_tab t' d). cbn [set_d_tab d_tab d_max_allowed d_max_list].
  repeat match goal with |- _ /\ _ => split end; try assumption; reflexivity.
Qed.

Lemma loop_maxsize data M : forall fuel d hs infl idx,
  dec_ok d -> 0 <= idx <= len data -> infl = list_size (map conv hs) ->
  maxsize (d_tab d) <= M -> d_max_allowed d <= M ->
  match while_fuel fuel (decode_body data (len data)) (d, hs, infl, idx) with
  | Done (d', _, _, _) | Raised _ (d', _, _, _) | Exhausted (d', _, _, _) => maxsize (d_tab d') <= M
  | Returned _ _ => False
  end.
Proof.
  induction fuel as [|fuel IH]; intros d hs infl idx Hok Hidx Hinfl Hm Ha; [exact Hm|].
  rewrite while_fuel_S.
  destruct (Z.eq_dec idx (len data)) as [He|Hne].
  - rewrite decode_body_eq. destruct (idx <? len data) eqn:EL; [lia|]. exact Hm.
  - pose proof (body_step data d hs infl idx Hok ltac:(lia) Hinfl) as HB.
    destruct (decode_body data (len data) (d, hs, infl, idx))
      as [[[[d' hs'] infl'] idx']|?|? ?|e [[[d' hs'] infl'] idx']]; try contradiction.
    + destruct HB as (Hi' & Hok' & Hinfl' & _ & Hma & _ & Hms).
      apply IH; try assumption; lia.
    + destruct HB as (_ & _ & Hms). lia.
Qed.

Lemma never_above : forall d data raw, dec_ok d ->
  let d' := snd (Decoder_decode d data raw) in
  d'.(d_tab).(maxsize) <= Z.max d.(d_tab).(maxsize) d.(d_max_allowed) /\
  d'.(d_max_allowed) = d.(d_max_allowed).
Proof.
  intros d data raw Hok. cbv zeta. split; [|exact (proj2 (decode_frame d data raw))].
  unfold Decoder_decode. cbv zeta.
  pose proof (loop_maxsize data (Z.max (maxsize (d_tab d)) (d_max_allowed d)) (S (length data)) d [] 0 0 Hok
                ltac:(pose proof (len_nonneg data); lia) eq_refl ltac:(lia) ltac:(lia)) as HL.
  destruct (while_fuel (S (length data)) (decode_body data (len data)) (d, [], 0, 0))
    as [[[[d2 ?] ?] ?]|? ?|? [[[d2 ?] ?] ?]|[[[d2 ?] ?] ?]]; try contradiction; cbn [snd]; try exact HL.
  destruct (Decoder__assert_valid_table_size d2); exact HL.
Qed.

Lemma end_of_block : forall d data raw hs d', dec_ok d ->
  Decoder_decode d data raw = (Ok hs, d') -> d'.(d_tab).(maxsize) <= d'.(d_max_allowed).
Proof.
  intros d data raw hs d' _ Hd. unfold Decoder_decode in Hd. cbv zeta in Hd.
  pose proof (loop_frame data (len data) (S (length data)) d [] 0 0) as HL.
  destruct (while_fuel (S (length data)) (decode_body data (len data)) (d, [], 0, 0))
    as [[[[d2 hs2] infl2] idx2]|? ?|e [[[d2 hs2] infl2] idx2]|[[[d2 hs2] infl2] idx2]];
    try contradiction; try discriminate Hd.
  unfold Decoder__assert_valid_table_size, Decoder_header_table_size in Hd.
  destruct (maxsize (d_tab d2) >? d_max_allowed d2) eqn:E; cbn [mbind] in Hd; [discriminate Hd|].
  injection Hd as _ <-. lia.
Qed.

Lemma empty_block_rejected : forall d raw, d.(d_max_allowed) < d.(d_tab).(maxsize) ->
  Decoder_decode d [] raw = (Err InvalidTableSizeError, d).
Proof.
  intros d raw H. unfold Decoder_decode. cbv zeta.
  change (while_fuel (S (length (@nil byte))) (decode_body [] (len (@nil byte))) (d, [], 0, 0))
    with (@Done dstate (list header) (d, [], 0, 0)).
  cbv iota beta. unfold Decoder__assert_valid_table_size, Decoder_header_table_size.
  destruct (maxsize (d_tab d) >? d_max_allowed d) eqn:E; [reflexivity|lia].
Qed.

Lemma update_after_field_model : forall data d headers infl idx t,
  headers <> [] -> idx < len data -> index_Z data idx = Ok t -> 32 <= bz t < 64 ->
  decode_body data (len data) (d, headers, infl, idx) = Raise HPACKDecodingError (d, headers, infl, idx).
Proof.
  intros data d headers infl idx t Hh Hidx Ht Hb. rewrite decode_body_eq.
  destruct (idx <? len data) eqn:EL; [|lia]. rewrite Ht. unfold arms.
  rewrite bit7. destruct (128 <=? bz t) eqn:E7; [lia|].
  rewrite (bit6 t E7). destruct (64 <=? bz t) eqn:E6; [lia|].
  rewrite (bit5 t E6). destruct (32 <=? bz t) eqn:E5; [|lia].
  destruct headers as [|h l]; [congruence|]. rewrite len_cons.
  pose proof (len_nonneg l). destruct (negb (len l + 1 =? 0)) eqn:EH; [reflexivity|lia].
Qed.
