(** Facts about the SPECIFICATION Spec/HuffmanCode.v only (RFC 7541 Appendix B and
    section 5.2): the code is prefix-free including EOS, EOS is thirty 1-bits, the code is
    complete (Kraft equality); hence [HuffRep] is functional and injective, the executable
    reference decoder [huff_dec] decides it, and [huff_enc] produces its unique
    representative.  Nothing here mentions the model of the Python code. *)
From Coq Require Import ZArith List Bool Lia ZifyBool ZifyNat Arith.
From Coq Require Import Init.Byte.
From HV Require Import Prelude.Py Spec.HuffmanCode.
Import ListNotations.
Open Scope Z_scope.
Ltac Zify.zify_post_hook ::= Z.to_euclidean_division_equations.

#[local] Arguments hcode_Z : simpl never.
#[local] Arguments hcode : simpl never.
#[local] Arguments eos_bits : simpl never.
#[local] Arguments all_bytes : simpl never.
#[local] Arguments appendix_b : simpl never.

Notation allones := (forallb (fun b : bool => b)).

(** the acceptance test of the reference decoder: fewer than 8 bits, all 1 *)
Definition short_ones (l : list bool) : bool := Nat.ltb (length l) 8 && allones l.

(** * Bit lists *)
Lemma strip_prefix_app : forall p r, strip_prefix p (p ++ r) = Some r.
Proof.
  induction p as [|a p IH]; intros r; cbn [strip_prefix app]; [reflexivity|].
  rewrite Bool.eqb_reflx. apply IH.
Qed.

Lemma strip_prefix_Some : forall p l r, strip_prefix p l = Some r -> l = p ++ r.
Proof.
  induction p as [|a p IH]; intros l r H; cbn [strip_prefix] in H.
  - injection H as ->. reflexivity.
  - destruct l as [|b l]; [discriminate|].
    destruct (Bool.eqb a b) eqn:E; [|discriminate].
    apply Bool.eqb_prop in E. subst b. cbn [app]. f_equal. apply IH. exact H.
Qed.

Lemma prefix_comparable {A} : forall (p q r s : list A), p ++ r = q ++ s ->
  (exists t, q = p ++ t) \/ (exists t, p = q ++ t).
Proof.
  induction p as [|a p IH]; intros q r s H.
  - left. exists q. reflexivity.
  - destruct q as [|b q].
    + right. exists (a :: p). reflexivity.
    + cbn [app] in H. injection H as -> H.
      destruct (IH _ _ _ H) as [[t ->]|[t ->]]; [left|right]; exists t; reflexivity.
Qed.

Lemma app_inv_length {A} : forall (a c b d : list A), length a = length c ->
  a ++ b = c ++ d -> a = c /\ b = d.
Proof.
  induction a as [|x a IH]; intros [|y c] b d HL H; try discriminate HL.
  - split; [reflexivity|exact H].
  - cbn [app] in H. injection H as -> H. cbn [length] in HL. injection HL as HL.
    destruct (IH _ _ _ HL H) as [-> ->]. split; reflexivity.
Qed.

Lemma allones_app : forall a b, allones (a ++ b) = allones a && allones b.
Proof. intros a b. apply forallb_app. Qed.

Lemma allones_repeat : forall n, allones (repeat true n) = true.
Proof. induction n as [|n IH]; cbn [repeat forallb]; [reflexivity|exact IH]. Qed.

Lemma allones_eq_repeat : forall l, allones l = true -> l = repeat true (length l).
Proof.
  induction l as [|a l IH]; cbn [forallb length repeat]; intros H; [reflexivity|].
  apply andb_true_iff in H. destruct H as [-> H]. f_equal. apply IH. exact H.
Qed.

Lemma allones_no_zero : forall l, allones l = true -> existsb negb l = false.
Proof.
  induction l as [|a l IH]; cbn [forallb existsb]; intros H; [reflexivity|].
  apply andb_true_iff in H. destruct H as [-> H]. cbn [negb orb]. apply IH. exact H.
Qed.

Lemma byte_bits_length : forall b, length (byte_bits b) = 8%nat.
Proof. intros b. reflexivity. Qed.

Lemma bits_cons : forall b bs, bits (b :: bs) = byte_bits b ++ bits bs.
Proof. reflexivity. Qed.
Lemma hbits_cons : forall a s, hbits (a :: s) = hcode a ++ hbits s.
Proof. reflexivity. Qed.

Lemma bits_app : forall a b, bits (a ++ b) = bits a ++ bits b.
Proof. intros a b. unfold bits. apply flat_map_app. Qed.
Lemma hbits_app : forall a b, hbits (a ++ b) = hbits a ++ hbits b.
Proof. intros a b. unfold hbits. apply flat_map_app. Qed.

Lemma bits_length : forall bs, length (bits bs) = (8 * length bs)%nat.
Proof.
  induction bs as [|b bs IH]; [reflexivity|].
  rewrite bits_cons, app_length, byte_bits_length, IH. cbn [length]. lia.
Qed.

(** * Bytes *)
Lemma bz_range : forall b, 0 <= bz b < 256.
Proof. intros b. unfold bz. pose proof (Byte.to_N_bounded b). lia. Qed.

Lemma bz_inj : forall a b, bz a = bz b -> a = b.
Proof.
  intros a b H. unfold bz in H. apply N2Z.inj in H.
  pose proof (Byte.of_to_N a) as Ha. rewrite H, Byte.of_to_N in Ha. congruence.
Qed.

Lemma map_bz_inj : forall a b, map bz a = map bz b -> a = b.
Proof.
  induction a as [|x a IH]; intros [|y b] H; try discriminate; [reflexivity|].
  cbn [map] in H. injection H as H1 H2. f_equal; [apply bz_inj; exact H1|apply IH; exact H2].
Qed.

Lemma zb_of_range : forall z, 0 <= z < 256 -> exists b, zb z = Some b /\ bz b = z.
Proof.
  intros z Hz. unfold zb. destruct (z <? 0) eqn:E; [lia|].
  destruct (Byte.of_N (Z.to_N z)) as [b|] eqn:Eb.
  - exists b. split; [reflexivity|]. apply Byte.to_of_N in Eb. unfold bz. rewrite Eb. lia.
  - apply Byte.of_N_None_iff in Eb. lia.
Qed.

Lemma all_bytes_In : forall b, In b all_bytes.
Proof.
  intros b.
  assert (H : existsb (Byte.eqb b) all_bytes = true) by (destruct b; vm_compute; reflexivity).
  apply existsb_exists in H. destruct H as [c [Hc E]].
  apply Byte.byte_dec_bl in E. subst c. exact Hc.
Qed.

Lemma Z_of_byte_bits : forall b, Z_of_bits 0 (byte_bits b) = bz b.
Proof. intros b. destruct b; reflexivity. Qed.

Lemma bits_msb_Z_of_bits8 : forall a1 a2 a3 a4 a5 a6 a7 a8,
  bits_msb 8 (Z_of_bits 0 [a1; a2; a3; a4; a5; a6; a7; a8]) = [a1; a2; a3; a4; a5; a6; a7; a8].
Proof. intros [] [] [] [] [] [] [] []; reflexivity. Qed.

Lemma byte_bits_inj : forall a b, byte_bits a = byte_bits b -> a = b.
Proof. intros a b H. apply bz_inj. rewrite <- !Z_of_byte_bits. rewrite H. reflexivity. Qed.

Lemma bits_inj : forall a b, bits a = bits b -> a = b.
Proof.
  induction a as [|x a IH]; intros [|y b] H; try discriminate; [reflexivity|].
  rewrite !bits_cons in H. apply app_inv_length in H; [|reflexivity].
  destruct H as [H1 H2]. f_equal; [apply byte_bits_inj; exact H1|apply IH; exact H2].
Qed.

(** * Finite sweeps over the 257 codes *)
Definition zrange (n : nat) : list Z := map Z.of_nat (seq 0 n).
Lemma zrange_In : forall n z, 0 <= z < Z.of_nat n -> In z (zrange n).
Proof.
  intros n z H. unfold zrange. apply in_map_iff. exists (Z.to_nat z).
  split; [lia|]. apply in_seq. lia.
Qed.
Lemma zrange_In_inv : forall n z, In z (zrange n) -> 0 <= z < Z.of_nat n.
Proof.
  intros n z H. unfold zrange in H. apply in_map_iff in H. destruct H as [k [<- H]].
  apply in_seq in H. lia.
Qed.

Definition is_none {A} (o : option A) : bool := match o with None => true | Some _ => false end.

(* NB: the checks are stated in unfolded form on purpose: behind a constant the kernel
   would re-evaluate them with its lazy machine when the constant is unfolded. *)
Lemma pf_check_true :
  forallb (fun a => forallb (fun b =>
     (a =? b) || is_none (strip_prefix (hcode_Z a) (hcode_Z b))) (zrange 257)) (zrange 257) = true.
Proof. vm_cast_no_check (eq_refl true). Qed.

(** no code (EOS included) is a prefix of another *)
Lemma code_prefix_free : forall a b, 0 <= a <= 256 -> 0 <= b <= 256 -> a <> b ->
  strip_prefix (hcode_Z a) (hcode_Z b) = None.
Proof.
  intros a b Ha Hb Hab. pose proof pf_check_true as H.
  rewrite forallb_forall in H. specialize (H a (zrange_In 257 a ltac:(lia))).
  rewrite forallb_forall in H. specialize (H b (zrange_In 257 b ltac:(lia))).
  apply orb_true_iff in H. destruct H as [H|H]; [lia|].
  destruct (strip_prefix (hcode_Z a) (hcode_Z b)); [discriminate H|reflexivity].
Qed.

Lemma eos_is_30_ones : eos_bits = repeat true 30.
Proof. vm_compute. reflexivity. Qed.

(** Kraft equality: the code tree is full *)
Lemma code_complete :
  fold_right Z.add 0 (map (fun cl => 2 ^ (30 - snd cl)) appendix_b) = 2 ^ 30.
Proof. vm_compute. reflexivity. Qed.

Lemma appendix_b_length : length appendix_b = 257%nat.
Proof. vm_compute. reflexivity. Qed.

Lemma len_check_true :
  forallb (fun a => (5 <=? length (hcode_Z a))%nat && (length (hcode_Z a) <=? 30)%nat) (zrange 257) = true.
Proof. vm_compute. reflexivity. Qed.
Lemma code_length_bounds : forall a, 0 <= a <= 256 -> (5 <= length (hcode_Z a) <= 30)%nat.
Proof.
  intros a Ha. pose proof len_check_true as H. rewrite forallb_forall in H.
  specialize (H a (zrange_In 257 a ltac:(lia))). lia.
Qed.

Lemma ones_check_true : forallb (fun a => negb (allones (hcode_Z a))) (zrange 256) = true.
Proof. vm_compute. reflexivity. Qed.
(** no octet's code consists of 1-bits only *)
Lemma code_not_allones : forall a, 0 <= a < 256 -> allones (hcode_Z a) = false.
Proof.
  intros a Ha. pose proof ones_check_true as H. rewrite forallb_forall in H.
  specialize (H a (zrange_In 256 a ltac:(lia))). apply negb_true_iff in H. exact H.
Qed.

(** * Consequences for [hcode] *)
Lemma hcode_Z_prefix_eq : forall a b r s, 0 <= a <= 256 -> 0 <= b <= 256 ->
  hcode_Z a ++ r = hcode_Z b ++ s -> a = b.
Proof.
  intros a b r s Ha Hb H. destruct (Z.eq_dec a b) as [E|NE]; [exact E|exfalso].
  destruct (prefix_comparable _ _ _ _ H) as [[t Ht]|[t Ht]].
  - pose proof (code_prefix_free a b Ha Hb NE) as P. rewrite Ht, strip_prefix_app in P. discriminate P.
  - pose proof (code_prefix_free b a Hb Ha (not_eq_sym NE)) as P.
    rewrite Ht, strip_prefix_app in P. discriminate P.
Qed.

Lemma hcode_prefix_eq : forall a b r s, hcode a ++ r = hcode b ++ s -> a = b.
Proof.
  intros a b r s H. apply bz_inj. unfold hcode in H.
  pose proof (bz_range a). pose proof (bz_range b).
  apply (hcode_Z_prefix_eq _ _ r s); [lia|lia|exact H].
Qed.

Lemma hcode_not_eos : forall a r s, hcode a ++ r = eos_bits ++ s -> False.
Proof.
  intros a r s H. unfold hcode, eos_bits in H. pose proof (bz_range a).
  apply hcode_Z_prefix_eq in H; lia.
Qed.

Lemma hcode_not_allones : forall a, allones (hcode a) = false.
Proof. intros a. unfold hcode. apply code_not_allones. apply bz_range. Qed.

Lemma hcode_length : forall a, (5 <= length (hcode a) <= 30)%nat.
Proof. intros a. unfold hcode. apply code_length_bounds. pose proof (bz_range a). lia. Qed.

Lemma eos_length : length eos_bits = 30%nat.
Proof. rewrite eos_is_30_ones. apply repeat_length. Qed.

(** Cancellation: if [hbits s ++ x] also parses as [hbits s' ++ pad] with an all-ones tail
    [pad], then [s] is an initial segment of [s'] and [x] is the rest. *)
Lemma hbits_cancel : forall s s' x pad, allones pad = true ->
  hbits s ++ x = hbits s' ++ pad -> exists s'', s' = s ++ s'' /\ x = hbits s'' ++ pad.
Proof.
  induction s as [|a s IH]; intros s' x pad Hp H.
  - exists s'. split; [reflexivity|exact H].
  - destruct s' as [|a' s'].
    + exfalso. rewrite hbits_cons in H. cbn [hbits flat_map app] in H.
      rewrite <- H, <- app_assoc, allones_app, hcode_not_allones in Hp. discriminate Hp.
    + rewrite !hbits_cons, <- !app_assoc in H.
      pose proof (hcode_prefix_eq _ _ _ _ H) as E. subst a'.
      apply app_inv_head in H. destruct (IH _ _ _ Hp H) as [s'' [-> Hx]].
      exists s''. split; [reflexivity|exact Hx].
Qed.

(** unique decomposition *)
Lemma hbits_pad_unique : forall s s' p p', allones p = true -> allones p' = true ->
  (length p < 8)%nat -> (length p' < 8)%nat ->
  hbits s ++ p = hbits s' ++ p' -> s = s' /\ p = p'.
Proof.
  intros s s' p p' Hp Hp' Lp Lp' H.
  destruct (hbits_cancel _ _ _ _ Hp' H) as [t [-> Ht]].
  destruct t as [|a t].
  - rewrite app_nil_r. split; [reflexivity|exact Ht].
  - exfalso. rewrite hbits_cons, <- app_assoc in Ht.
    rewrite Ht, allones_app, hcode_not_allones in Hp. discriminate Hp.
Qed.

(** * The reference decoder decides [HuffRep] *)
Lemma match_sym_from_sound : forall syms l a r,
  match_sym_from syms l = Some (a, r) -> l = hcode a ++ r.
Proof.
  induction syms as [|s syms IH]; intros l a r H; cbn [match_sym_from] in H; [discriminate H|].
  destruct (strip_prefix (hcode s) l) as [rest|] eqn:E.
  - injection H as <- <-. apply strip_prefix_Some. exact E.
  - apply IH. exact H.
Qed.

Lemma match_sym_from_complete : forall syms a r, In a syms ->
  match_sym_from syms (hcode a ++ r) = Some (a, r).
Proof.
  induction syms as [|s syms IH]; intros a r Hin; [destruct Hin|].
  cbn [match_sym_from].
  destruct (strip_prefix (hcode s) (hcode a ++ r)) as [rest|] eqn:E.
  - apply strip_prefix_Some in E. pose proof (hcode_prefix_eq _ _ _ _ E) as Ea. subst s.
    apply app_inv_head in E. subst rest. reflexivity.
  - destruct Hin as [->|Hin]; [rewrite strip_prefix_app in E; discriminate E|].
    apply IH. exact Hin.
Qed.

Lemma match_sym_sound : forall l a r, match_sym l = Some (a, r) -> l = hcode a ++ r.
Proof. intros l a r. apply match_sym_from_sound. Qed.
Lemma match_sym_complete : forall a r, match_sym (hcode a ++ r) = Some (a, r).
Proof. intros a r. apply match_sym_from_complete. apply all_bytes_In. Qed.

Lemma huff_dec_bits_eq : forall fuel l, huff_dec_bits fuel l =
  if short_ones l then Some []
  else match fuel with
       | O => None
       | S f => match match_sym l with
                | Some (s, rest) => match huff_dec_bits f rest with Some r => Some (s :: r) | None => None end
                | None => None
                end
       end.
Proof. intros [|f] l; reflexivity. Qed.

Lemma huff_dec_bits_sound : forall fuel l s, huff_dec_bits fuel l = Some s ->
  exists pad, l = hbits s ++ pad /\ (length pad < 8)%nat /\ allones pad = true.
Proof.
  induction fuel as [|f IH]; intros l s H; rewrite huff_dec_bits_eq in H;
    destruct (short_ones l) eqn:So.
  - injection H as <-. exists l. unfold short_ones in So. apply andb_true_iff in So.
    destruct So as [L O]. split; [reflexivity|]. split; [apply Nat.ltb_lt; exact L|exact O].
  - discriminate H.
  - injection H as <-. exists l. unfold short_ones in So. apply andb_true_iff in So.
    destruct So as [L O]. split; [reflexivity|]. split; [apply Nat.ltb_lt; exact L|exact O].
  - destruct (match_sym l) as [[a rest]|] eqn:M; [|discriminate H].
    destruct (huff_dec_bits f rest) as [r|] eqn:R; [|discriminate H].
    injection H as <-. apply match_sym_sound in M.
    destruct (IH _ _ R) as [pad [-> [L O]]]. exists pad.
    split; [rewrite hbits_cons, <- app_assoc; exact M|]. split; [exact L|exact O].
Qed.

Lemma huff_dec_bits_complete : forall s fuel pad, (length pad < 8)%nat -> allones pad = true ->
  (length (hbits s ++ pad) <= fuel)%nat -> huff_dec_bits fuel (hbits s ++ pad) = Some s.
Proof.
  induction s as [|a s IH]; intros fuel pad L O F; rewrite huff_dec_bits_eq.
  - cbn [hbits flat_map app]. unfold short_ones. rewrite O.
    apply Nat.ltb_lt in L. rewrite L. reflexivity.
  - assert (So : short_ones (hbits (a :: s) ++ pad) = false).
    { unfold short_ones. rewrite hbits_cons, <- app_assoc, allones_app, hcode_not_allones.
      apply andb_false_r. }
    rewrite So. rewrite hbits_cons, <- app_assoc in F |- *.
    rewrite app_length in F. pose proof (hcode_length a) as La.
    destruct fuel as [|f]; [lia|].
    rewrite match_sym_complete. rewrite IH; [reflexivity|exact L|exact O|lia].
Qed.

Lemma huff_dec_spec : forall bs s, huff_dec bs = Some s <-> HuffRep bs s.
Proof.
  intros bs s. unfold huff_dec, HuffRep. split.
  - intros H. apply huff_dec_bits_sound in H. exact H.
  - intros [pad [E [L O]]]. rewrite E. apply huff_dec_bits_complete; [exact L|exact O|lia].
Qed.

Lemma huff_dec_None : forall bs, huff_dec bs = None <-> ~ exists s, HuffRep bs s.
Proof.
  intros bs. split.
  - intros H [s Hs]. apply huff_dec_spec in Hs. congruence.
  - intros H. destruct (huff_dec bs) as [s|] eqn:E; [|reflexivity].
    exfalso. apply H. exists s. apply huff_dec_spec. exact E.
Qed.

Lemma HuffRep_functional : forall bs s s', HuffRep bs s -> HuffRep bs s' -> s = s'.
Proof.
  intros bs s s' H H'. apply huff_dec_spec in H. apply huff_dec_spec in H'. congruence.
Qed.

Lemma pad_length_unique : forall n p p' k k', (n + p = 8 * k)%nat -> (n + p' = 8 * k')%nat ->
  (p < 8)%nat -> (p' < 8)%nat -> p = p'.
Proof. intros. lia. Qed.

Lemma HuffRep_injective : forall bs bs' s, HuffRep bs s -> HuffRep bs' s -> bs = bs'.
Proof.
  intros bs bs' s [p [E [L O]]] [p' [E' [L' O']]]. apply bits_inj.
  rewrite E, E'. f_equal.
  rewrite (allones_eq_repeat _ O), (allones_eq_repeat _ O'). f_equal.
  pose proof (f_equal (@length bool) E) as HL. pose proof (f_equal (@length bool) E') as HL'.
  rewrite bits_length, app_length in HL, HL'.
  apply (pad_length_unique (length (hbits s)) _ _ (length bs) (length bs')); auto.
Qed.

(** * [pack] inverts [bits]; [huff_enc] *)
Lemma pack_bits : forall bs fuel, (length bs <= fuel)%nat -> pack fuel (bits bs) = map bz bs.
Proof.
  induction bs as [|b bs IH]; intros fuel F.
  - destruct fuel; reflexivity.
  - destruct fuel as [|f]; [cbn [length] in F; lia|].
    rewrite bits_cons. cbn [map]. rewrite <- (Z_of_byte_bits b), <- (IH f) by (cbn [length] in F; lia).
    reflexivity.
Qed.

Lemma pack_cons8 : forall f a1 a2 a3 a4 a5 a6 a7 a8 l,
  pack (S f) (a1 :: a2 :: a3 :: a4 :: a5 :: a6 :: a7 :: a8 :: l) =
  Z_of_bits 0 [a1; a2; a3; a4; a5; a6; a7; a8] :: pack f l.
Proof. reflexivity. Qed.
Lemma cons_inj {A} : forall (a b : A) l m, a :: l = b :: m -> a = b /\ l = m.
Proof. intros a b l m H. injection H as -> ->. split; reflexivity. Qed.

Lemma pack_inv : forall n l fuel bs, length l = (8 * n)%nat -> (n <= fuel)%nat ->
  map bz bs = pack fuel l -> bits bs = l.
Proof.
  induction n as [|n IH]; intros l fuel bs HL F H.
  - destruct l; [|discriminate HL]. destruct fuel; destruct bs; try discriminate H; reflexivity.
  - destruct fuel as [|f]; [lia|].
    destruct l as [|a1 [|a2 [|a3 [|a4 [|a5 [|a6 [|a7 [|a8 l]]]]]]]]; cbn [length] in HL; try lia.
    rewrite pack_cons8 in H. destruct bs as [|b bs]; [discriminate H|].
    cbn [map] in H. apply cons_inj in H. destruct H as [Hb H].
    rewrite bits_cons. unfold byte_bits. rewrite Hb, bits_msb_Z_of_bits8. cbn [app].
    do 8 f_equal. apply (IH l f bs); [lia|lia|exact H].
Qed.

Lemma pad_len_spec : forall n p k, (n + p = 8 * k)%nat -> (p < 8)%nat -> p = pad_len n.
Proof. intros n p k H L. unfold pad_len. lia. Qed.
Lemma pad_len_total : forall n, exists k, (n + pad_len n = 8 * k)%nat /\ (pad_len n < 8)%nat.
Proof. intros n. unfold pad_len. exists ((n + (8 - n mod 8) mod 8) / 8)%nat. lia. Qed.

(** the encoder's output is THE representative *)
Lemma HuffRep_enc : forall bs s, HuffRep bs s -> map bz bs = huff_enc s.
Proof.
  intros bs s [p [E [L O]]]. unfold huff_enc.
  pose proof (f_equal (@length bool) E) as HL. rewrite bits_length, app_length in HL.
  symmetry in HL.
  rewrite <- (pad_len_spec (length (hbits s)) (length p) (length bs) HL L), <- (allones_eq_repeat _ O), <- E.
  symmetry. apply pack_bits. rewrite bits_length. lia.
Qed.

Lemma enc_HuffRep : forall bs s, map bz bs = huff_enc s -> HuffRep bs s.
Proof.
  intros bs s H. unfold huff_enc in H.
  destruct (pad_len_total (length (hbits s))) as [k [Hk Lk]].
  exists (repeat true (pad_len (length (hbits s)))).
  split; [|split; [rewrite repeat_length; exact Lk|apply allones_repeat]].
  apply (pack_inv k _ _ _) in H; [exact H| |].
  - rewrite app_length, repeat_length. exact Hk.
  - rewrite app_length, repeat_length. lia.
Qed.

Lemma huff_dec_enc : forall s bs, map bz bs = huff_enc s -> huff_dec bs = Some s.
Proof. intros s bs H. apply huff_dec_spec. apply enc_HuffRep. exact H. Qed.

Lemma huff_enc_iff : forall bs s, map bz bs = huff_enc s <-> HuffRep bs s.
Proof. intros bs s. split; [apply enc_HuffRep|apply HuffRep_enc]. Qed.

(** * What is NOT a representative *)
(** a complete EOS code anywhere in the string *)
Lemma HuffRep_no_eos : forall bs s rest, bits bs = hbits s ++ eos_bits ++ rest ->
  ~ exists s', HuffRep bs s'.
Proof.
  intros bs s rest E [s' [p [E' [L O]]]]. rewrite E in E'.
  destruct (hbits_cancel _ _ _ _ O E') as [t [-> Ht]].
  destruct t as [|a t].
  - cbn [hbits flat_map app] in Ht. pose proof (f_equal (@length bool) Ht) as HL.
    rewrite app_length, eos_length in HL. lia.
  - rewrite hbits_cons, <- app_assoc in Ht. symmetry in Ht. apply hcode_not_eos in Ht. exact Ht.
Qed.

(** eight or more bits of padding *)
Lemma HuffRep_no_long_padding : forall bs s pad, bits bs = hbits s ++ pad ->
  (8 <= length pad)%nat -> allones pad = true -> ~ exists s', HuffRep bs s'.
Proof.
  intros bs s pad E Lp Op [s' [p [E' [L O]]]]. rewrite E in E'.
  destruct (hbits_cancel _ _ _ _ O E') as [t [-> Ht]].
  destruct t as [|a t].
  - cbn [hbits flat_map app] in Ht. subst pad. lia.
  - rewrite hbits_cons, <- app_assoc in Ht.
    rewrite Ht, allones_app, hcode_not_allones in Op. discriminate Op.
Qed.

(** a 0 bit in a tail that does not start with a code *)
Lemma HuffRep_no_zero_in_padding : forall bs s pad, bits bs = hbits s ++ pad ->
  existsb negb pad = true -> match_sym pad = None -> ~ exists s', HuffRep bs s'.
Proof.
  intros bs s pad E Z M [s' [p [E' [L O]]]]. rewrite E in E'.
  destruct (hbits_cancel _ _ _ _ O E') as [t [-> Ht]].
  destruct t as [|a t].
  - cbn [hbits flat_map app] in Ht. subst pad. rewrite (allones_no_zero _ O) in Z. discriminate Z.
  - rewrite hbits_cons, <- app_assoc in Ht. rewrite Ht, match_sym_complete in M. discriminate M.
Qed.

(** the string ends inside a code, and what was read of it is not valid padding *)
Lemma HuffRep_stuck : forall bs out p k r, bits bs = hbits out ++ p ->
  0 <= k <= 256 -> hcode_Z k = p ++ r -> r <> [] -> short_ones p = false ->
  ~ exists s, HuffRep bs s.
Proof.
  intros bs out p k r E Hk Hc Hr So [s [pad [E' [L O]]]]. rewrite E in E'.
  destruct (hbits_cancel _ _ _ _ O E') as [t [-> Ht]].
  destruct t as [|a t].
  - cbn [hbits flat_map app] in Ht. subst p. unfold short_ones in So.
    rewrite O in So. apply Nat.ltb_lt in L. rewrite L in So. discriminate So.
  - rewrite hbits_cons, <- app_assoc in Ht. rewrite Ht, <- app_assoc in Hc.
    assert (Ek : k = bz a).
    { pose proof (bz_range a). apply (hcode_Z_prefix_eq k (bz a) [] ((hbits t ++ pad) ++ r)); [lia|lia|].
      rewrite app_nil_r. exact Hc. }
    subst k. fold (hcode a) in Hc. rewrite <- (app_nil_r (hcode a)) in Hc at 1.
    apply app_inv_head in Hc. symmetry in Hc. apply app_eq_nil in Hc. destruct Hc as [_ Hc]. contradiction.
Qed.
