(** RFC 7541 section 5.1: integer representation with an N-bit prefix.
    SPECIFICATION (trusted, hand-written, independent of /repo).

    Octets are integers 0..255 here ([list Z]); theorems relate them to the
    model's [bytes] through [map bz]. *)
From Coq Require Import ZArith List Bool.
Import ListNotations.
Open Scope Z_scope.

(** the largest value of an N-bit prefix: 2^N - 1 *)
Definition pmax (N : Z) : Z := 2 ^ N - 1.

(** Encoding, transcribing the pseudo-code of 5.1:
      if I < 2^N - 1, encode I on N bits
      else encode (2^N - 1) on N bits; I = I - (2^N - 1);
           while I >= 128: encode (I % 128 + 128) on 8 bits; I = I / 128
           encode I on 8 bits
    The [nat] argument only bounds the recursion: log2 m + 1 steps always suffice. *)
Fixpoint cont_enc_fuel (f : nat) (m : Z) : list Z :=
  match f with
  | O => [m]
  | S f' => if m <? 128 then [m] else (m mod 128 + 128) :: cont_enc_fuel f' (m / 128)
  end.
Definition cont_enc (m : Z) : list Z := cont_enc_fuel (Z.to_nat (Z.log2 m)) m.
Definition int_enc (N n : Z) : list Z :=
  if n <? pmax N then [n] else pmax N :: cont_enc (n - pmax N).

(** Decoding: the value of the integer that starts a list of octets, and the number
    of octets it occupies; [None] when the list ends before the integer does.
    Written by recursion on the octets (least significant continuation group first):
      value(b :: r) = b                      if b < 128
                    = (b - 128) + 128 * value(r)   otherwise.
    No bound on the number of continuation octets: redundant zero groups are legal. *)
Fixpoint cont_dec (bs : list Z) : option (Z * Z) :=
  match bs with
  | [] => None
  | b :: r =>
      if b <? 128 then Some (b, 1)
      else match cont_dec r with
           | None => None
           | Some (v, k) => Some (b - 128 + 128 * v, k + 1)
           end
  end.
Definition int_dec (N : Z) (bs : list Z) : option (Z * Z) :=
  match bs with
  | [] => None
  | b :: r =>
      let v := b mod 2 ^ N in          (* the bits above the prefix are not part of the integer *)
      if v <? pmax N then Some (v, 1)
      else match cont_dec r with
           | None => None
           | Some (m, k) => Some (pmax N + m, k + 1)
           end
  end.

(** "the input ends before the integer does" *)
Definition int_truncated (N : Z) (bs : list Z) : Prop :=
  match bs with
  | [] => True
  | b :: r => b mod 2 ^ N = pmax N /\ Forall (fun x => 128 <= x) r
  end.

(** the number of continuation octets the implementation is willing to read
    (the latitude C05/C11 grant: "encodings longer than a 64-bit value needs") *)
Definition octet (x : Z) : Prop := 0 <= x < 256.
