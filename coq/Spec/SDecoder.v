(** RFC 7541 sections 3.2, 4.2, 5.2 and 6: decoding a header block against a context.
    SPECIFICATION (trusted, hand-written, independent of /repo).

    Style: rest-passing parsers over lists, [option]-valued lookups, the table as a list
    with [fit]; the first defect in stream order decides the error class. *)
From Coq Require Import ZArith List Bool.
From HV Require Import Prelude.Py Prelude.Utf8.
From HV Require Import Spec.IntRep Spec.HuffmanCode Spec.StaticTable Spec.DynTable.
Import ListNotations.
Open Scope Z_scope.

(** the documented error classes *)
Inductive serr :=
| BadIndex      (* index 0 or past the last entry           -> InvalidTableIndex *)
| BadSize       (* table size above what the application permits -> InvalidTableSizeError *)
| Oversized     (* header list larger than permitted        -> OversizedHeaderListError *)
| Malformed.    (* anything else                            -> HPACKDecodingError *)
Inductive sres (A : Type) := SOk (a : A) | SErr (e : serr).
Arguments SOk {A}. Arguments SErr {A}.
Definition sbnd {A B} (m : sres A) (f : A -> sres B) : sres B :=
  match m with SOk a => f a | SErr e => SErr e end.
Notation "x <-- m ;; k" := (sbnd m (fun x => k)) (at level 61, m at next level, right associativity).
Notation "' p <-- m ;; k" := (sbnd m (fun p => k)) (at level 61, p pattern, m at next level, right associativity).

(** The decoding context. *)
Record ctx := {
  dyn : list entry;      (* dynamic table, newest first *)
  size : Z;              (* its current maximum size (4.2) *)
  limit : Z;             (* the maximum the application permits (SETTINGS_HEADER_TABLE_SIZE) *)
  list_limit : Z         (* the maximum decoded header list size the application permits *)
}.

(** A decoded field: never-indexed?, name, value. *)
Definition sfield := (bool * bytes * bytes)%type.
Definition fsize (f : sfield) : Z := esize (snd (fst f), snd f).
Definition list_size (l : list sfield) : Z := fold_right (fun f a => fsize f + a) 0 l.

Section WithLimit.
(** [K]: the number of continuation octets an implementation is prepared to read in one
    integer (5.1: "an implementation MAY set a limit"; C05/C11 grant exactly this latitude). *)
Variable K : Z.

(** 5.1 on bytes, rest-passing *)
Definition int_k (N : Z) (bs : bytes) : sres (Z * bytes) :=
  match int_dec N (map bz bs) with
  | Some (n, k) => if k - 1 <=? K then SOk (n, skipn (Z.to_nat k) bs) else SErr Malformed
  | None => SErr Malformed
  end.

(** 5.2 string literal: H bit, 7-bit-prefix length, then that many octets, raw or Huffman *)
Definition str_k (bs : bytes) : sres (bytes * bytes) :=
  match bs with
  | [] => SErr Malformed
  | b :: _ =>
      '(n, rest) <-- int_k 7 bs ;;
      if len rest <? n then SErr Malformed
      else let payload := firstn (Z.to_nat n) rest in
           let rest := skipn (Z.to_nat n) rest in
           if 128 <=? bz b
           then match huff_dec payload with Some s => SOk (s, rest) | None => SErr Malformed end
           else SOk (payload, rest)
  end.

(** What one representation (section 6) asks the decoder to do. *)
Inductive action :=
| Emit (never : bool) (insert : bool) (name value : bytes)
| Resize (n : Z).

(** a literal field (6.2.x) whose first octet has an N-bit name-index prefix *)
Definition literal (N : Z) (never insert : bool) (d : list entry) (bs : bytes) : sres (action * bytes) :=
  '(i, rest) <-- int_k N bs ;;
  '(name, rest) <-- (if i =? 0 then str_k rest
                     else match lookup i d with
                          | Some e => SOk (fst e, rest)
                          | None => SErr BadIndex
                          end) ;;
  '(value, rest) <-- str_k rest ;;
  SOk (Emit never insert name value, rest).

(** parse one representation at the head of [bs] (non-empty), resolving indices in [d] *)
Definition parse_rep (d : list entry) (first : Z) (bs : bytes) : sres (action * bytes) :=
  if 128 <=? first then                       (* 1xxxxxxx  6.1 indexed field *)
    '(i, rest) <-- int_k 7 bs ;;
    match lookup i d with
    | Some e => SOk (Emit false false (fst e) (snd e), rest)
    | None => SErr BadIndex
    end
  else if 64 <=? first then literal 6 false true d bs      (* 01xxxxxx  6.2.1 incremental indexing *)
  else if 32 <=? first then                                (* 001xxxxx  6.3 size update *)
    '(n, rest) <-- int_k 5 bs ;; SOk (Resize n, rest)
  else if 16 <=? first then literal 4 true false d bs      (* 0001xxxx  6.2.3 never indexed *)
  else literal 4 false false d bs.                         (* 0000xxxx  6.2.2 without indexing *)

(** one block: [acc] = fields so far (in order), [run] = their list size *)
Fixpoint decode_loop (fuel : nat) (c : ctx) (bs : bytes) (acc : list sfield) (run : Z)
  : sres (list sfield * ctx) :=
  match bs with
  | [] =>
      (* 4.2 / 6.3: at the end of the block the table size must be within the permitted maximum *)
      if size c >? limit c then SErr BadSize else SOk (acc, c)
  | b :: _ =>
      match fuel with
      | O => SErr Malformed
      | S fuel =>
          let first := bz b in
          (* 4.2: a size update MUST occur at the beginning of a block *)
          if (first <? 64) && (32 <=? first) && negb (len acc =? 0) then SErr Malformed
          else
          '(a, rest) <-- parse_rep (dyn c) first bs ;;
          match a with
          | Resize n =>
              if n >? limit c then SErr BadSize
              else decode_loop fuel
                     {| dyn := resize n (dyn c); size := n; limit := limit c; list_limit := list_limit c |}
                     rest acc run
          | Emit never ins name value =>
              let run := run + esize (name, value) in
              if run >? list_limit c then SErr Oversized
              else decode_loop fuel
                     (if ins
                      then {| dyn := insert (size c) (name, value) (dyn c); size := size c;
                              limit := limit c; list_limit := list_limit c |}
                      else c)
                     rest (acc ++ [(never, name, value)]) run
          end
      end
  end.

(** [text]: the application asked for text; names and values must then be valid UTF-8 *)
Definition decode (c : ctx) (bs : bytes) (text : bool) : sres (list sfield * ctx) :=
  '(fs, c') <-- decode_loop (S (length bs)) c bs [] 0 ;;
  if text && negb (forallb (fun f => utf8_valid (snd (fst f)) && utf8_valid (snd f)) fs)
  then SErr Malformed
  else SOk (fs, c').

End WithLimit.

(** * The declarative layer: representations as syntax (section 6), and what a well-formed
      sequence of them MEANS for a context, with no parsing involved. *)
Inductive nameref := NameIdx (i : Z) | NameLit (s : bytes).
Inductive lmode := WithIndexing | WithoutIndexing | NeverIndexed.
Inductive rep :=
| RIndexed (i : Z)
| RLiteral (m : lmode) (nm : nameref) (v : bytes)
| RSizeUpdate (n : Z).

(** the meaning of a sequence of representations: fields produced and context afterwards;
    [None] when the sequence is not well-formed for the context *)
Definition resolve (d : list entry) (nm : nameref) : option bytes :=
  match nm with
  | NameLit s => Some s
  | NameIdx i => if i =? 0 then None else option_map fst (lookup i d)
  end.
Fixpoint sem (c : ctx) (rs : list rep) (acc : list sfield) : option (list sfield * ctx) :=
  match rs with
  | [] => if size c >? limit c then None else Some (acc, c)
  | RIndexed i :: r =>
      match lookup i (dyn c) with
      | Some e =>
          let acc := acc ++ [(false, fst e, snd e)] in
          if list_size acc >? list_limit c then None else sem c r acc
      | None => None
      end
  | RLiteral m nm v :: r =>
      match resolve (dyn c) nm with
      | Some name =>
          let acc := acc ++ [(match m with NeverIndexed => true | _ => false end, name, v)] in
          if list_size acc >? list_limit c then None
          else sem (match m with
                    | WithIndexing => {| dyn := insert (size c) (name, v) (dyn c); size := size c;
                                         limit := limit c; list_limit := list_limit c |}
                    | _ => c
                    end) r acc
      | None => None
      end
  | RSizeUpdate n :: r =>
      match acc with
      | [] => if n >? limit c then None
              else sem {| dyn := resize n (dyn c); size := n; limit := limit c; list_limit := list_limit c |} r acc
      | _ => None
      end
  end.

(** Wire forms (sections 5.1, 5.2, 6): EVERY octet string the RFC allows for a representation.
    An integer may be written with redundant zero continuation octets (5.1's decoding does not
    forbid them) -- up to [K] continuation octets in all; a string may be raw or Huffman-coded,
    independently for name and value; the bits above an integer's prefix are the pattern bits
    of the representation (first octet) or the H bit (strings). *)
Section Wire.
Variable K : Z.

Definition wire_int (N : Z) (n : Z) (w : list Z) : Prop :=
  int_dec N w = Some (n, len w) /\ len w - 1 <= K.
Definition hbit (w : bytes) : bool := match w with b :: _ => 128 <=? bz b | [] => false end.
Definition wire_str (s : bytes) (w : bytes) : Prop :=
  exists lenw payload, w = lenw ++ payload /\ wire_int 7 (len payload) (map bz lenw) /\
    (if hbit lenw then HuffRep payload s else payload = s).
(** first-octet pattern bits of each representation kind *)
Definition first_in (lo hi : Z) (w : bytes) : Prop :=
  match w with b :: _ => lo <= bz b < hi | [] => False end.
Definition wire_rep (r : rep) (w : bytes) : Prop :=
  match r with
  | RIndexed i => first_in 128 256 w /\ wire_int 7 i (map bz w)
  | RSizeUpdate n => first_in 32 64 w /\ wire_int 5 n (map bz w)
  | RLiteral m nm v =>
      let '(lo, hi, N) := match m with
                          | WithIndexing => (64, 128, 6)
                          | WithoutIndexing => (0, 16, 4)
                          | NeverIndexed => (16, 32, 4)
                          end in
      exists wi wn wv, w = wi ++ wn ++ wv /\ first_in lo hi wi /\
        match nm with
        | NameIdx i => 0 < i /\ wire_int N i (map bz wi) /\ wn = []
        | NameLit s => wire_int N 0 (map bz wi) /\ wire_str s wn
        end /\ wire_str v wv
  end.
(** a block is the concatenation of wire forms of its representations *)
Inductive wire_block : list rep -> bytes -> Prop :=
| wb_nil : wire_block [] []
| wb_cons r w rs ws : wire_rep r w -> wire_block rs ws -> wire_block (r :: rs) (w ++ ws).
End Wire.
