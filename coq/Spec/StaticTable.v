(** RFC 7541 Appendix A: the static table.  SPECIFICATION (trusted): transcribed once, never
    read from /repo again; cross-checked against libnghttp2 (DESIGN.md section 4). *)
From Coq Require Import ZArith List.
From Coq Require Import Init.Byte.
From HV Require Import Prelude.Py.
Import ListNotations.

Definition static_table : list (bytes * bytes) := [
  (*  1 :authority:  *) ([Byte.x3a; Byte.x61; Byte.x75; Byte.x74; Byte.x68; Byte.x6f; Byte.x72; Byte.x69; Byte.x74; Byte.x79], []);
  (*  2 :method: GET *) ([Byte.x3a; Byte.x6d; Byte.x65; Byte.x74; Byte.x68; Byte.x6f; Byte.x64], [Byte.x47; Byte.x45; Byte.x54]);
  (*  3 :method: POST *) ([Byte.x3a; Byte.x6d; Byte.x65; Byte.x74; Byte.x68; Byte.x6f; Byte.x64], [Byte.x50; Byte.x4f; Byte.x53; Byte.x54]);
  (*  4 :path: / *) ([Byte.x3a; Byte.x70; Byte.x61; Byte.x74; Byte.x68], [Byte.x2f]);
  (*  5 :path: /index.html *) ([Byte.x3a; Byte.x70; Byte.x61; Byte.x74; Byte.x68], [Byte.x2f; Byte.x69; Byte.x6e; Byte.x64; Byte.x65; Byte.x78; Byte.x2e; Byte.x68; Byte.x74; Byte.x6d; Byte.x6c]);
  (*  6 :scheme: http *) ([Byte.x3a; Byte.x73; Byte.x63; Byte.x68; Byte.x65; Byte.x6d; Byte.x65], [Byte.x68; Byte.x74; Byte.x74; Byte.x70]);
  (*  7 :scheme: https *) ([Byte.x3a; Byte.x73; Byte.x63; Byte.x68; Byte.x65; Byte.x6d; Byte.x65], [Byte.x68; Byte.x74; Byte.x74; Byte.x70; Byte.x73]);
  (*  8 :status: 200 *) ([Byte.x3a; Byte.x73; Byte.x74; Byte.x61; Byte.x74; Byte.x75; Byte.x73], [Byte.x32; Byte.x30; Byte.x30]);
  (*  9 :status: 204 *) ([Byte.x3a; Byte.x73; Byte.x74; Byte.x61; Byte.x74; Byte.x75; Byte.x73], [Byte.x32; Byte.x30; Byte.x34]);
  (* 10 :status: 206 *) ([Byte.x3a; Byte.x73; Byte.x74; Byte.x61; Byte.x74; Byte.x75; Byte.x73], [Byte.x32; Byte.x30; Byte.x36]);
  (* 11 :status: 304 *) ([Byte.x3a; Byte.x73; Byte.x74; Byte.x61; Byte.x74; Byte.x75; Byte.x73], [Byte.x33; Byte.x30; Byte.x34]);
  (* 12 :status: 400 *) ([Byte.x3a; Byte.x73; Byte.x74; Byte.x61; Byte.x74; Byte.x75; Byte.x73], [Byte.x34; Byte.x30; Byte.x30]);
  (* 13 :status: 404 *) ([Byte.x3a; Byte.x73; Byte.x74; Byte.x61; Byte.x74; Byte.x75; Byte.x73], [Byte.x34; Byte.x30; Byte.x34]);
  (* 14 :status: 500 *) ([Byte.x3a; Byte.x73; Byte.x74; Byte.x61; Byte.x74; Byte.x75; Byte.x73], [Byte.x35; Byte.x30; Byte.x30]);
  (* 15 accept-charset:  *) ([Byte.x61; Byte.x63; Byte.x63; Byte.x65; Byte.x70; Byte.x74; Byte.x2d; Byte.x63; Byte.x68; Byte.x61; Byte.x72; Byte.x73; Byte.x65; Byte.x74], []);
  (* 16 accept-encoding: gzip, deflate *) ([Byte.x61; Byte.x63; Byte.x63; Byte.x65; Byte.x70; Byte.x74; Byte.x2d; Byte.x65; Byte.x6e; Byte.x63; Byte.x6f; Byte.x64; Byte.x69; Byte.x6e; Byte.x67], [Byte.x67; Byte.x7a; Byte.x69; Byte.x70; Byte.x2c; Byte.x20; Byte.x64; Byte.x65; Byte.x66; Byte.x6c; Byte.x61; Byte.x74; Byte.x65]);
  (* 17 accept-language:  *) ([Byte.x61; Byte.x63; Byte.x63; Byte.x65; Byte.x70; Byte.x74; Byte.x2d; Byte.x6c; Byte.x61; Byte.x6e; Byte.x67; Byte.x75; Byte.x61; Byte.x67; Byte.x65], []);
  (* 18 accept-ranges:  *) ([Byte.x61; Byte.x63; Byte.x63; Byte.x65; Byte.x70; Byte.x74; Byte.x2d; Byte.x72; Byte.x61; Byte.x6e; Byte.x67; Byte.x65; Byte.x73], []);
  (* 19 accept:  *) ([Byte.x61; Byte.x63; Byte.x63; Byte.x65; Byte.x70; Byte.x74], []);
  (* 20 access-control-allow-origin:  *) ([Byte.x61; Byte.x63; Byte.x63; Byte.x65; Byte.x73; Byte.x73; Byte.x2d; Byte.x63; Byte.x6f; Byte.x6e; Byte.x74; Byte.x72; Byte.x6f; Byte.x6c; Byte.x2d; Byte.x61; Byte.x6c; Byte.x6c; Byte.x6f; Byte.x77; Byte.x2d; Byte.x6f; Byte.x72; Byte.x69; Byte.x67; Byte.x69; Byte.x6e], []);
  (* 21 age:  *) ([Byte.x61; Byte.x67; Byte.x65], []);
  (* 22 allow:  *) ([Byte.x61; Byte.x6c; Byte.x6c; Byte.x6f; Byte.x77], []);
  (* 23 authorization:  *) ([Byte.x61; Byte.x75; Byte.x74; Byte.x68; Byte.x6f; Byte.x72; Byte.x69; Byte.x7a; Byte.x61; Byte.x74; Byte.x69; Byte.x6f; Byte.x6e], []);
  (* 24 cache-control:  *) ([Byte.x63; Byte.x61; Byte.x63; Byte.x68; Byte.x65; Byte.x2d; Byte.x63; Byte.x6f; Byte.x6e; Byte.x74; Byte.x72; Byte.x6f; Byte.x6c], []);
  (* 25 content-disposition:  *) ([Byte.x63; Byte.x6f; Byte.x6e; Byte.x74; Byte.x65; Byte.x6e; Byte.x74; Byte.x2d; Byte.x64; Byte.x69; Byte.x73; Byte.x70; Byte.x6f; Byte.x73; Byte.x69; Byte.x74; Byte.x69; Byte.x6f; Byte.x6e], []);
  (* 26 content-encoding:  *) ([Byte.x63; Byte.x6f; Byte.x6e; Byte.x74; Byte.x65; Byte.x6e; Byte.x74; Byte.x2d; Byte.x65; Byte.x6e; Byte.x63; Byte.x6f; Byte.x64; Byte.x69; Byte.x6e; Byte.x67], []);
  (* 27 content-language:  *) ([Byte.x63; Byte.x6f; Byte.x6e; Byte.x74; Byte.x65; Byte.x6e; Byte.x74; Byte.x2d; Byte.x6c; Byte.x61; Byte.x6e; Byte.x67; Byte.x75; Byte.x61; Byte.x67; Byte.x65], []);
  (* 28 content-length:  *) ([Byte.x63; Byte.x6f; Byte.x6e; Byte.x74; Byte.x65; Byte.x6e; Byte.x74; Byte.x2d; Byte.x6c; Byte.x65; Byte.x6e; Byte.x67; Byte.x74; Byte.x68], []);
  (* 29 content-location:  *) ([Byte.x63; Byte.x6f; Byte.x6e; Byte.x74; Byte.x65; Byte.x6e; Byte.x74; Byte.x2d; Byte.x6c; Byte.x6f; Byte.x63; Byte.x61; Byte.x74; Byte.x69; Byte.x6f; Byte.x6e], []);
  (* 30 content-range:  *) ([Byte.x63; Byte.x6f; Byte.x6e; Byte.x74; Byte.x65; Byte.x6e; Byte.x74; Byte.x2d; Byte.x72; Byte.x61; Byte.x6e; Byte.x67; Byte.x65], []);
  (* 31 content-type:  *) ([Byte.x63; Byte.x6f; Byte.x6e; Byte.x74; Byte.x65; Byte.x6e; Byte.x74; Byte.x2d; Byte.x74; Byte.x79; Byte.x70; Byte.x65], []);
  (* 32 cookie:  *) ([Byte.x63; Byte.x6f; Byte.x6f; Byte.x6b; Byte.x69; Byte.x65], []);
  (* 33 date:  *) ([Byte.x64; Byte.x61; Byte.x74; Byte.x65], []);
  (* 34 etag:  *) ([Byte.x65; Byte.x74; Byte.x61; Byte.x67], []);
  (* 35 expect:  *) ([Byte.x65; Byte.x78; Byte.x70; Byte.x65; Byte.x63; Byte.x74], []);
  (* 36 expires:  *) ([Byte.x65; Byte.x78; Byte.x70; Byte.x69; Byte.x72; Byte.x65; Byte.x73], []);
  (* 37 from:  *) ([Byte.x66; Byte.x72; Byte.x6f; Byte.x6d], []);
  (* 38 host:  *) ([Byte.x68; Byte.x6f; Byte.x73; Byte.x74], []);
  (* 39 if-match:  *) ([Byte.x69; Byte.x66; Byte.x2d; Byte.x6d; Byte.x61; Byte.x74; Byte.x63; Byte.x68], []);
  (* 40 if-modified-since:  *) ([Byte.x69; Byte.x66; Byte.x2d; Byte.x6d; Byte.x6f; Byte.x64; Byte.x69; Byte.x66; Byte.x69; Byte.x65; Byte.x64; Byte.x2d; Byte.x73; Byte.x69; Byte.x6e; Byte.x63; Byte.x65], []);
  (* 41 if-none-match:  *) ([Byte.x69; Byte.x66; Byte.x2d; Byte.x6e; Byte.x6f; Byte.x6e; Byte.x65; Byte.x2d; Byte.x6d; Byte.x61; Byte.x74; Byte.x63; Byte.x68], []);
  (* 42 if-range:  *) ([Byte.x69; Byte.x66; Byte.x2d; Byte.x72; Byte.x61; Byte.x6e; Byte.x67; Byte.x65], []);
  (* 43 if-unmodified-since:  *) ([Byte.x69; Byte.x66; Byte.x2d; Byte.x75; Byte.x6e; Byte.x6d; Byte.x6f; Byte.x64; Byte.x69; Byte.x66; Byte.x69; Byte.x65; Byte.x64; Byte.x2d; Byte.x73; Byte.x69; Byte.x6e; Byte.x63; Byte.x65], []);
  (* 44 last-modified:  *) ([Byte.x6c; Byte.x61; Byte.x73; Byte.x74; Byte.x2d; Byte.x6d; Byte.x6f; Byte.x64; Byte.x69; Byte.x66; Byte.x69; Byte.x65; Byte.x64], []);
  (* 45 link:  *) ([Byte.x6c; Byte.x69; Byte.x6e; Byte.x6b], []);
  (* 46 location:  *) ([Byte.x6c; Byte.x6f; Byte.x63; Byte.x61; Byte.x74; Byte.x69; Byte.x6f; Byte.x6e], []);
  (* 47 max-forwards:  *) ([Byte.x6d; Byte.x61; Byte.x78; Byte.x2d; Byte.x66; Byte.x6f; Byte.x72; Byte.x77; Byte.x61; Byte.x72; Byte.x64; Byte.x73], []);
  (* 48 proxy-authenticate:  *) ([Byte.x70; Byte.x72; Byte.x6f; Byte.x78; Byte.x79; Byte.x2d; Byte.x61; Byte.x75; Byte.x74; Byte.x68; Byte.x65; Byte.x6e; Byte.x74; Byte.x69; Byte.x63; Byte.x61; Byte.x74; Byte.x65], []);
  (* 49 proxy-authorization:  *) ([Byte.x70; Byte.x72; Byte.x6f; Byte.x78; Byte.x79; Byte.x2d; Byte.x61; Byte.x75; Byte.x74; Byte.x68; Byte.x6f; Byte.x72; Byte.x69; Byte.x7a; Byte.x61; Byte.x74; Byte.x69; Byte.x6f; Byte.x6e], []);
  (* 50 range:  *) ([Byte.x72; Byte.x61; Byte.x6e; Byte.x67; Byte.x65], []);
  (* 51 referer:  *) ([Byte.x72; Byte.x65; Byte.x66; Byte.x65; Byte.x72; Byte.x65; Byte.x72], []);
  (* 52 refresh:  *) ([Byte.x72; Byte.x65; Byte.x66; Byte.x72; Byte.x65; Byte.x73; Byte.x68], []);
  (* 53 retry-after:  *) ([Byte.x72; Byte.x65; Byte.x74; Byte.x72; Byte.x79; Byte.x2d; Byte.x61; Byte.x66; Byte.x74; Byte.x65; Byte.x72], []);
  (* 54 server:  *) ([Byte.x73; Byte.x65; Byte.x72; Byte.x76; Byte.x65; Byte.x72], []);
  (* 55 set-cookie:  *) ([Byte.x73; Byte.x65; Byte.x74; Byte.x2d; Byte.x63; Byte.x6f; Byte.x6f; Byte.x6b; Byte.x69; Byte.x65], []);
  (* 56 strict-transport-security:  *) ([Byte.x73; Byte.x74; Byte.x72; Byte.x69; Byte.x63; Byte.x74; Byte.x2d; Byte.x74; Byte.x72; Byte.x61; Byte.x6e; Byte.x73; Byte.x70; Byte.x6f; Byte.x72; Byte.x74; Byte.x2d; Byte.x73; Byte.x65; Byte.x63; Byte.x75; Byte.x72; Byte.x69; Byte.x74; Byte.x79], []);
  (* 57 transfer-encoding:  *) ([Byte.x74; Byte.x72; Byte.x61; Byte.x6e; Byte.x73; Byte.x66; Byte.x65; Byte.x72; Byte.x2d; Byte.x65; Byte.x6e; Byte.x63; Byte.x6f; Byte.x64; Byte.x69; Byte.x6e; Byte.x67], []);
  (* 58 user-agent:  *) ([Byte.x75; Byte.x73; Byte.x65; Byte.x72; Byte.x2d; Byte.x61; Byte.x67; Byte.x65; Byte.x6e; Byte.x74], []);
  (* 59 vary:  *) ([Byte.x76; Byte.x61; Byte.x72; Byte.x79], []);
  (* 60 via:  *) ([Byte.x76; Byte.x69; Byte.x61], []);
  (* 61 www-authenticate:  *) ([Byte.x77; Byte.x77; Byte.x77; Byte.x2d; Byte.x61; Byte.x75; Byte.x74; Byte.x68; Byte.x65; Byte.x6e; Byte.x74; Byte.x69; Byte.x63; Byte.x61; Byte.x74; Byte.x65], [])].
