(** RFC 7541 Appendix B: the static Huffman code, and section 5.2's use of it.
    SPECIFICATION (trusted).  The 257 (code, length) pairs below were transcribed ONCE
    (from the pinned tree's huffman_constants.py, cross-checked against the independently
    derived nghttp2 decoding table and libnghttp2 itself, see DESIGN.md section 4) and are
    never read from /repo again.  Proofs/HuffSpec.v proves the internal sanity facts: the code
    is prefix-free including EOS, complete (Kraft sum 1), EOS is thirty 1-bits. *)
From Coq Require Import ZArith List Bool.
From Coq Require Import Init.Byte.
From HV Require Import Prelude.Py.
Import ListNotations.
Open Scope Z_scope.

(** entry i (0..255) is the code of octet i, as (code value, length in bits); entry 256 is EOS *)
Definition appendix_b : list (Z * Z) := [
  (8184, 13);
  (8388568, 23);
  (268435426, 28);
  (268435427, 28);
  (268435428, 28);
  (268435429, 28);
  (268435430, 28);
  (268435431, 28);
  (268435432, 28);
  (16777194, 24);
  (1073741820, 30);
  (268435433, 28);
  (268435434, 28);
  (1073741821, 30);
  (268435435, 28);
  (268435436, 28);
  (268435437, 28);
  (268435438, 28);
  (268435439, 28);
  (268435440, 28);
  (268435441, 28);
  (268435442, 28);
  (1073741822, 30);
  (268435443, 28);
  (268435444, 28);
  (268435445, 28);
  (268435446, 28);
  (268435447, 28);
  (268435448, 28);
  (268435449, 28);
  (268435450, 28);
  (268435451, 28);
  (20, 6);
  (1016, 10);
  (1017, 10);
  (4090, 12);
  (8185, 13);
  (21, 6);
  (248, 8);
  (2042, 11);
  (1018, 10);
  (1019, 10);
  (249, 8);
  (2043, 11);
  (250, 8);
  (22, 6);
  (23, 6);
  (24, 6);
  (0, 5);
  (1, 5);
  (2, 5);
  (25, 6);
  (26, 6);
  (27, 6);
  (28, 6);
  (29, 6);
  (30, 6);
  (31, 6);
  (92, 7);
  (251, 8);
  (32764, 15);
  (32, 6);
  (4091, 12);
  (1020, 10);
  (8186, 13);
  (33, 6);
  (93, 7);
  (94, 7);
  (95, 7);
  (96, 7);
  (97, 7);
  (98, 7);
  (99, 7);
  (100, 7);
  (101, 7);
  (102, 7);
  (103, 7);
  (104, 7);
  (105, 7);
  (106, 7);
  (107, 7);
  (108, 7);
  (109, 7);
  (110, 7);
  (111, 7);
  (112, 7);
  (113, 7);
  (114, 7);
  (252, 8);
  (115, 7);
  (253, 8);
  (8187, 13);
  (524272, 19);
  (8188, 13);
  (16380, 14);
  (34, 6);
  (32765, 15);
  (3, 5);
  (35, 6);
  (4, 5);
  (36, 6);
  (5, 5);
  (37, 6);
  (38, 6);
  (39, 6);
  (6, 5);
  (116, 7);
  (117, 7);
  (40, 6);
  (41, 6);
  (42, 6);
  (7, 5);
  (43, 6);
  (118, 7);
  (44, 6);
  (8, 5);
  (9, 5);
  (45, 6);
  (119, 7);
  (120, 7);
  (121, 7);
  (122, 7);
  (123, 7);
  (32766, 15);
  (2044, 11);
  (16381, 14);
  (8189, 13);
  (268435452, 28);
  (1048550, 20);
  (4194258, 22);
  (1048551, 20);
  (1048552, 20);
  (4194259, 22);
  (4194260, 22);
  (4194261, 22);
  (8388569, 23);
  (4194262, 22);
  (8388570, 23);
  (8388571, 23);
  (8388572, 23);
  (8388573, 23);
  (8388574, 23);
  (16777195, 24);
  (8388575, 23);
  (16777196, 24);
  (16777197, 24);
  (4194263, 22);
  (8388576, 23);
  (16777198, 24);
  (8388577, 23);
  (8388578, 23);
  (8388579, 23);
  (8388580, 23);
  (2097116, 21);
  (4194264, 22);
  (8388581, 23);
  (4194265, 22);
  (8388582, 23);
  (8388583, 23);
  (16777199, 24);
  (4194266, 22);
  (2097117, 21);
  (1048553, 20);
  (4194267, 22);
  (4194268, 22);
  (8388584, 23);
  (8388585, 23);
  (2097118, 21);
  (8388586, 23);
  (4194269, 22);
  (4194270, 22);
  (16777200, 24);
  (2097119, 21);
  (4194271, 22);
  (8388587, 23);
  (8388588, 23);
  (2097120, 21);
  (2097121, 21);
  (4194272, 22);
  (2097122, 21);
  (8388589, 23);
  (4194273, 22);
  (8388590, 23);
  (8388591, 23);
  (1048554, 20);
  (4194274, 22);
  (4194275, 22);
  (4194276, 22);
  (8388592, 23);
  (4194277, 22);
  (4194278, 22);
  (8388593, 23);
  (67108832, 26);
  (67108833, 26);
  (1048555, 20);
  (524273, 19);
  (4194279, 22);
  (8388594, 23);
  (4194280, 22);
  (33554412, 25);
  (67108834, 26);
  (67108835, 26);
  (67108836, 26);
  (134217694, 27);
  (134217695, 27);
  (67108837, 26);
  (16777201, 24);
  (33554413, 25);
  (524274, 19);
  (2097123, 21);
  (67108838, 26);
  (134217696, 27);
  (134217697, 27);
  (67108839, 26);
  (134217698, 27);
  (16777202, 24);
  (2097124, 21);
  (2097125, 21);
  (67108840, 26);
  (67108841, 26);
  (268435453, 28);
  (134217699, 27);
  (134217700, 27);
  (134217701, 27);
  (1048556, 20);
  (16777203, 24);
  (1048557, 20);
  (2097126, 21);
  (4194281, 22);
  (2097127, 21);
  (2097128, 21);
  (8388595, 23);
  (4194282, 22);
  (4194283, 22);
  (33554414, 25);
  (33554415, 25);
  (16777204, 24);
  (16777205, 24);
  (67108842, 26);
  (8388596, 23);
  (67108843, 26);
  (134217702, 27);
  (67108844, 26);
  (67108845, 26);
  (134217703, 27);
  (134217704, 27);
  (134217705, 27);
  (134217706, 27);
  (134217707, 27);
  (268435454, 28);
  (134217708, 27);
  (134217709, 27);
  (134217710, 27);
  (134217711, 27);
  (134217712, 27);
  (67108846, 26);
  (1073741823, 30)].

(** the [len] low bits of [code], most significant first *)
Fixpoint bits_msb (len : nat) (code : Z) : list bool :=
  match len with
  | O => []
  | S k => Z.testbit code (Z.of_nat k) :: bits_msb k code
  end.
Definition code_bits (cl : Z * Z) : list bool := bits_msb (Z.to_nat (snd cl)) (fst cl).

Definition hcode_Z (sym : Z) : list bool := code_bits (nth (Z.to_nat sym) appendix_b (0, 0)).
Definition hcode (b : byte) : list bool := hcode_Z (bz b).
Definition eos_bits : list bool := hcode_Z 256.

(** the bit string of a byte string, and the Huffman bit string of a symbol string *)
Definition byte_bits (b : byte) : list bool := bits_msb 8 (bz b).
Definition bits (bs : bytes) : list bool := flat_map byte_bits bs.
Definition hbits (s : bytes) : list bool := flat_map hcode s.

(** Section 5.2: [bs] is a Huffman-encoded string literal for [s] when its bits are the codes
    of [s] followed by fewer than 8 padding bits, all 1 (a prefix of EOS). *)
Definition HuffRep (bs s : bytes) : Prop :=
  exists pad, bits bs = hbits s ++ pad /\ (length pad < 8)%nat /\ forallb (fun b => b) pad = true.

(** An executable reference decoder, bit by bit (greedy: the code is prefix-free). *)
Fixpoint strip_prefix (p l : list bool) : option (list bool) :=
  match p, l with
  | [], _ => Some l
  | a :: p', b :: l' => if Bool.eqb a b then strip_prefix p' l' else None
  | _ :: _, [] => None
  end.
Fixpoint match_sym_from (syms : list byte) (l : list bool) : option (byte * list bool) :=
  match syms with
  | [] => None
  | s :: r => match strip_prefix (hcode s) l with
              | Some rest => Some (s, rest)
              | None => match_sym_from r l
              end
  end.
Definition all_bytes : list byte :=
  flat_map (fun n => match Byte.of_N n with Some b => [b] | None => [] end) (map N.of_nat (seq 0 256)).
Definition match_sym (l : list bool) : option (byte * list bool) := match_sym_from all_bytes l.
(** fuel = number of bits is enough: every code has at least one bit *)
Fixpoint huff_dec_bits (fuel : nat) (l : list bool) : option bytes :=
  if (Nat.ltb (length l) 8) && forallb (fun b => b) l then Some []
  else match fuel with
       | O => None
       | S f => match match_sym l with
                | Some (s, rest) => match huff_dec_bits f rest with Some r => Some (s :: r) | None => None end
                | None => None
                end
       end.
Definition huff_dec (bs : bytes) : option bytes := huff_dec_bits (length (bits bs)) (bits bs).

(** packing a bit string whose length is a multiple of 8 into octets; encoding with padding *)
Fixpoint Z_of_bits (acc : Z) (l : list bool) : Z :=
  match l with [] => acc | b :: r => Z_of_bits (2 * acc + (if b then 1 else 0)) r end.
Fixpoint pack (fuel : nat) (l : list bool) : list Z :=
  match fuel, l with
  | S f, _ :: _ => Z_of_bits 0 (firstn 8 l) :: pack f (skipn 8 l)
  | _, _ => []
  end.
Definition pad_len (n : nat) : nat := ((8 - n mod 8) mod 8)%nat.
Definition huff_enc (s : bytes) : list Z :=
  let b := hbits s in
  let b := b ++ repeat true (pad_len (length b)) in
  pack (length b) b.
