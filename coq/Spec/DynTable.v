(** RFC 7541 sections 2.3 and 4: the dynamic table and the index address space.
    SPECIFICATION (trusted, hand-written, independent of /repo).

    The dynamic table is a list of entries, NEWEST FIRST.  Its behaviour is specified by one
    function: [fit m l], the longest prefix of [l] (i.e. the most recent entries) whose total
    size is at most [m] -- eviction drops the oldest entries and only as many as needed. *)
From Coq Require Import ZArith List Bool.
From HV Require Import Prelude.Py Spec.StaticTable.
Import ListNotations.
Open Scope Z_scope.

Definition entry := (bytes * bytes)%type.

(** 4.1: the size of an entry is the sum of its name's and value's length in octets plus 32 *)
Definition esize (e : entry) : Z := 32 + len (fst e) + len (snd e).
Definition tsize (l : list entry) : Z := fold_right (fun e a => esize e + a) 0 l.

Fixpoint fit (m : Z) (l : list entry) : list entry :=
  match l with
  | [] => []
  | e :: r => if esize e <=? m then e :: fit (m - esize e) r else []
  end.

(** 4.4: inserting into a table of maximum size m: evict until the new entry fits; an entry
    larger than m empties the table and is not stored.  4.3: a new maximum evicts likewise. *)
Definition insert (m : Z) (e : entry) (l : list entry) : list entry := fit m (e :: l).
Definition resize (m : Z) (l : list entry) : list entry := fit m l.

(** 2.3.3: one address space; 1..61 static, 62.. dynamic with 62 the newest; 0 is not an index.
    (The range test before [nth_error] keeps the function executable on astronomically large
    indices: [Z.to_nat] is never applied to a number larger than the table.) *)
Definition lookup (i : Z) (dyn : list entry) : option entry :=
  if (1 <=? i) && (i <=? 61) then nth_error static_table (Z.to_nat (i - 1))
  else if (62 <=? i) && (i - 62 <? len dyn) then nth_error dyn (Z.to_nat (i - 62))
  else None.
