(** Extraction of the regenerated translation (Gen/), so that the translator's own output --
    not only the frozen model -- is run against the implementation (a translator bug is a
    model bug). *)
From Coq Require Extraction ExtrOcamlBasic.
From HV Require Gen.GData Gen.GInt Gen.GTable Gen.GHuff Gen.GDecoder Gen.GEncoder Gen.GInit Gen.GApi.
Extraction Language OCaml.
Set Extraction KeepSingleton.
Separate Extraction
  GData.REQUEST_CODES GData.REQUEST_CODES_LENGTH GData.DEFAULT_SIZE
  GInt.encode_integer GInt.decode_integer
  GTable.table_entry_size GTable.HeaderTable_add GTable.HeaderTable_set_maxsize
  GTable.HeaderTable_get_by_index GTable.HeaderTable_search
  GHuff.HuffmanEncoder_encode GHuff.decode_huffman
  GDecoder._unicode_if_needed GDecoder.Decoder_header_table_size GDecoder.Decoder_set_header_table_size
  GDecoder.Decoder__assert_valid_table_size GDecoder.Decoder__update_encoding_context
  GDecoder.Decoder__decode_indexed GDecoder.Decoder__decode_literal
  GDecoder.Decoder__decode_literal_no_index GDecoder.Decoder__decode_literal_index GDecoder.Decoder_decode
  GEncoder.Encoder_header_table_size GEncoder.Encoder_set_header_table_size
  GEncoder.Encoder__encode_indexed GEncoder.Encoder__encode_literal GEncoder.Encoder__encode_indexed_literal
  GEncoder.Encoder__encode_table_size_change GEncoder.Encoder_add
  GInit.HeaderTable_init GInit.Decoder_init GInit.Encoder_init
  GApi._to_bytes GApi._dict_to_iterable GApi.Encoder_encode.
