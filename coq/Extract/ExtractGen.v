(** Extraction of the regenerated translation (Gen/), so that the translator's own output --
    not only the frozen model -- is run against the implementation (a translator bug is a
    model bug). *)
From Coq Require Extraction ExtrOcamlBasic.
From HV Require Gen.GData Gen.GInt Gen.GTable Gen.GHuff.
Extraction Language OCaml.
Set Extraction KeepSingleton.
Separate Extraction
  GData.REQUEST_CODES GData.REQUEST_CODES_LENGTH GData.DEFAULT_SIZE
  GInt.encode_integer GInt.decode_integer
  GTable.table_entry_size GTable.HeaderTable_add GTable.HeaderTable_set_maxsize
  GTable.HeaderTable_get_by_index GTable.HeaderTable_search
  GHuff.HuffmanEncoder_encode GHuff.decode_huffman.
