(** Extraction of the executable specification, the frozen model and (when it compiled) the
    regenerated translation to OCaml, for the correspondence harness.
    Only ExtrOcamlBasic (Extract Inductive for bool, option, unit, list, prod, sumbool, sumor;
    no constant is remapped): Z, positive, N, nat and byte stay the extracted inductive types. *)
From Coq Require Extraction ExtrOcamlBasic.
From HV Require Import Prelude.Py Prelude.State Prelude.Utf8.
From HV Require Spec.IntRep Spec.HuffmanCode Spec.StaticTable Spec.DynTable Spec.SDecoder.
From HV Require Model.Api.
From HV Require Model.Data Model.Int Model.Table Model.HuffEnc Model.HuffDec Model.Decoder Model.Encoder Model.Rel.
Extraction Language OCaml.
Set Extraction KeepSingleton.
Separate Extraction
  Py.bz Py.zb Py.len
  IntRep.int_enc IntRep.int_dec
  HuffmanCode.huff_enc HuffmanCode.huff_dec
  StaticTable.static_table DynTable.fit DynTable.lookup DynTable.tsize
  SDecoder.decode
  Int.encode_integer Int.decode_integer
  Table.table_entry_size Table.HeaderTable_add Table.HeaderTable_set_maxsize
  Table.HeaderTable_get_by_index Table.HeaderTable_search Table.HeaderTable__shrink
  HuffEnc.HuffmanEncoder_encode HuffDec.decode_huffman
  Decoder.Decoder_init Decoder.dstep Decoder.decode_huffman_m Decoder.HeaderTable_init
  Encoder.Encoder_init Encoder.estep Encoder.huffman_encode_m
  Rel.ctx_of Api.Encoder_encode_api Data.DEFAULT_MAX_HEADER_LIST_SIZE
  BinInt.Z.of_nat BinInt.Z.to_nat BinInt.Z.add BinInt.Z.mul.
