(** Object states of the library, as records with functional setters.
    One record per Python class that has instance attributes. *)
From Coq Require Import ZArith List Bool.
From HV Require Import Prelude.Py.
Import ListNotations.
Open Scope Z_scope.

(** hpack.table.HeaderTable: _maxsize, _current_size, resized, dynamic_entries
    (a deque whose left end -- the newest entry -- is the head of the list) *)
Record table := { maxsize : Z; cursize : Z; resized : bool; entries : list (bytes * bytes) }.
Definition set_maxsize v t := {| maxsize := v; cursize := t.(cursize); resized := t.(resized); entries := t.(entries) |}.
Definition set_cursize v t := {| maxsize := t.(maxsize); cursize := v; resized := t.(resized); entries := t.(entries) |}.
Definition set_resized v t := {| maxsize := t.(maxsize); cursize := t.(cursize); resized := v; entries := t.(entries) |}.
Definition set_entries v t := {| maxsize := t.(maxsize); cursize := t.(cursize); resized := t.(resized); entries := v |}.

(** hpack.huffman.HuffmanEncoder: the two code lists it was constructed with *)
Record hcoder := { hc_codes : list Z; hc_lens : list Z }.

(** hpack.hpack.Encoder: header_table, table_size_changes
    (huffman_coder is constructed from module constants and never assigned again) *)
Record encoder := { e_tab : table; e_changes : list Z }.
Definition set_e_tab v e := {| e_tab := v; e_changes := e.(e_changes) |}.
Definition set_e_changes v e := {| e_tab := e.(e_tab); e_changes := v |}.

(** hpack.hpack.Decoder: header_table, max_header_list_size, max_allowed_table_size *)
Record decoder := { d_tab : table; d_max_list : Z; d_max_allowed : Z }.
Definition set_d_tab v d := {| d_tab := v; d_max_list := d.(d_max_list); d_max_allowed := d.(d_max_allowed) |}.
Definition set_d_max_list v d := {| d_tab := d.(d_tab); d_max_list := v; d_max_allowed := d.(d_max_allowed) |}.
Definition set_d_max_allowed v d := {| d_tab := d.(d_tab); d_max_list := d.(d_max_list); d_max_allowed := v |}.
