(** UTF-8 validity as enforced by CPython's strict "utf-8" codec = RFC 3629:
    no overlong forms, no surrogates (U+D800..DFFF), nothing above U+10FFFF.
    TRUSTED as a rendering of [bytes.decode("utf-8")] succeeding; validated by
    the correspondence harness (exhaustively for 1-3 byte sequences in the thorough tier). *)
From Coq Require Import ZArith List Bool.
From HV Require Import Prelude.Py.
Import ListNotations.
Open Scope Z_scope.

Definition in_range (lo hi x : Z) : bool := (lo <=? x) && (x <=? hi).
Definition cont_byte (x : Z) : bool := in_range 128 191 x.

Fixpoint utf8_valid_Z (l : list Z) : bool :=
  match l with
  | [] => true
  | b0 :: r =>
      if b0 <? 128 then utf8_valid_Z r
      else if in_range 194 223 b0 then
        match r with b1 :: r' => cont_byte b1 && utf8_valid_Z r' | _ => false end
      else if in_range 224 239 b0 then
        match r with
        | b1 :: b2 :: r' =>
            (if b0 =? 224 then in_range 160 191 b1
             else if b0 =? 237 then in_range 128 159 b1
             else cont_byte b1) && cont_byte b2 && utf8_valid_Z r'
        | _ => false
        end
      else if in_range 240 244 b0 then
        match r with
        | b1 :: b2 :: b3 :: r' =>
            (if b0 =? 240 then in_range 144 191 b1
             else if b0 =? 244 then in_range 128 143 b1
             else cont_byte b1) && cont_byte b2 && cont_byte b3 && utf8_valid_Z r'
        | _ => false
        end
      else false
  end.

Definition utf8_valid (s : bytes) : bool := utf8_valid_Z (map bz s).
(** [s.decode("utf-8")]: the text is represented by its (now validated) UTF-8 encoding *)
Definition py_decode_utf8 (s : bytes) : outcome bytes :=
  if utf8_valid s then Ok s else Err UnicodeDecodeError.
