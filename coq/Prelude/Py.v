(** Prelude: the fragment of Python semantics that the translated code uses.

    Everything here is TRUSTED as a rendering of CPython behaviour (see
    DESIGN.md section 10) and is validated, not proved, by the correspondence
    harness on every run.  Nothing in this file mentions hpack. *)
From Coq Require Import ZArith List Bool Lia ZifyBool.
From Coq Require Import Init.Byte.
Import ListNotations.
Open Scope Z_scope.

Definition bytes := list byte.

(** * Exceptions as values *)
Inductive exn :=
| HPACKDecodingError | InvalidTableIndex | OversizedHeaderListError | InvalidTableSizeError
| ValueError | IndexError | UnicodeDecodeError | TypeError | OutOfFuel.

Definition exn_eqb (a b : exn) : bool :=
  match a, b with
  | HPACKDecodingError, HPACKDecodingError | InvalidTableIndex, InvalidTableIndex
  | OversizedHeaderListError, OversizedHeaderListError | InvalidTableSizeError, InvalidTableSizeError
  | ValueError, ValueError | IndexError, IndexError | UnicodeDecodeError, UnicodeDecodeError
  | TypeError, TypeError | OutOfFuel, OutOfFuel => true
  | _, _ => false
  end.

(** The documented decoding-error family: HPACKDecodingError and its subclasses. *)
Definition documented (e : exn) : bool :=
  match e with
  | HPACKDecodingError | InvalidTableIndex | OversizedHeaderListError | InvalidTableSizeError => true
  | _ => false
  end.

Inductive outcome (A : Type) := Ok (a : A) | Err (e : exn).
Arguments Ok {A}. Arguments Err {A}.

Definition bind {A B} (m : outcome A) (f : A -> outcome B) : outcome B :=
  match m with Ok a => f a | Err e => Err e end.
Notation "x <- m ;; k" := (bind m (fun x => k))
  (at level 61, m at next level, right associativity).
Notation "' p <- m ;; k" := (bind m (fun p => k))
  (at level 61, p pattern, m at next level, right associativity).

(** [try: m except from: raise to] *)
Definition catch {A} (from to : exn) (m : outcome A) : outcome A :=
  match m with Err e => if exn_eqb e from then Err to else Err e | x => x end.

(** Stateful code: [outcome A * S]; the state after an exception is kept. *)
Definition mbind {S A B} (m : outcome A) (s : S) (f : A -> outcome B * S) : outcome B * S :=
  match m with Ok a => f a | Err e => (Err e, s) end.
Definition sbind {S A B} (m : outcome A * S) (f : A -> S -> outcome B * S) : outcome B * S :=
  match m with (Ok a, s) => f a s | (Err e, s) => (Err e, s) end.

(** * Loops.  Every exit carries the loop state. *)
Inductive ctl (S R : Type) :=
| Next (s : S) | Break (s : S) | Return (r : R) (s : S) | Raise (e : exn) (s : S).
Arguments Next {S R}. Arguments Break {S R}. Arguments Return {S R}. Arguments Raise {S R}.
Inductive lres (S R : Type) :=
| Done (s : S) | Returned (r : R) (s : S) | Raised (e : exn) (s : S) | Exhausted (s : S).
Arguments Done {S R}. Arguments Returned {S R}. Arguments Raised {S R}. Arguments Exhausted {S R}.

Fixpoint while_fuel {S R} (fuel : nat) (body : S -> ctl S R) (s : S) : lres S R :=
  match fuel with
  | O => Exhausted s
  | Datatypes.S f =>
      match body s with
      | Next s' => while_fuel f body s'
      | Break s' => Done s'
      | Return r s' => Returned r s'
      | Raise e s' => Raised e s'
      end
  end.

Fixpoint for_each {A S R} (xs : list A) (body : A -> S -> ctl S R) (s : S) : lres S R :=
  match xs with
  | [] => Done s
  | x :: r =>
      match body x s with
      | Next s' => for_each r body s'
      | Break s' => Done s'
      | Return v s' => Returned v s'
      | Raise e s' => Raised e s'
      end
  end.

(** * Integers *)
(** ["%d" % n], [f"{n}"]: CPython >= 3.11 refuses to format an int of more than
    4300 decimal digits (sys.int_max_str_digits default) with ValueError. *)
Definition py_format_d (n : Z) : outcome unit :=
  if 10 ^ 4300 <=? Z.abs n then Err ValueError else Ok tt.

(** truthiness of an int *)
Definition truthy (n : Z) : bool := negb (n =? 0).

(** * Bytes *)
Definition bz (b : byte) : Z := Z.of_N (Byte.to_N b).
Definition zb (z : Z) : option byte := if z <? 0 then None else Byte.of_N (Z.to_N z).
Definition len {A} (l : list A) : Z := Z.of_nat (length l).

(** [l[i]] for sequences, with Python's negative-index rule. *)
Definition index_Z {A} (l : list A) (i : Z) : outcome A :=
  let i' := if i <? 0 then i + len l else i in
  if i' <? 0 then Err IndexError else
  match nth_error l (Z.to_nat i') with Some x => Ok x | None => Err IndexError end.

(** [l[a:b]], [l[a:]] with Python's clamping rules (step 1). *)
Definition clamp_idx (n i : Z) : Z :=
  let i := if i <? 0 then i + n else i in
  if i <? 0 then 0 else if i >? n then n else i.
Definition slice_Z {A} (l : list A) (a b : Z) : list A :=
  let n := len l in
  let a := clamp_idx n a in let b := clamp_idx n b in
  firstn (Z.to_nat (b - a)) (skipn (Z.to_nat a) l).
Definition slice_from {A} (l : list A) (a : Z) : list A :=
  skipn (Z.to_nat (clamp_idx (len l) a)) l.

(** [bytearray([...ints...])], [bytearray.append(int)]: ValueError outside 0..255 *)
Fixpoint bytearray_of (l : list Z) : outcome bytes :=
  match l with
  | [] => Ok []
  | z :: r => match zb z with
              | None => Err ValueError
              | Some b => rest <- bytearray_of r ;; Ok (b :: rest)
              end
  end.
Definition append_byte (l : bytes) (z : Z) : outcome bytes :=
  match zb z with None => Err ValueError | Some b => Ok (l ++ [b]) end.

Definition byte_eqb (a b : byte) : bool := Byte.eqb a b.
Fixpoint bytes_eqb (a b : bytes) : bool :=
  match a, b with
  | [], [] => true
  | x :: a', y :: b' => Byte.eqb x y && bytes_eqb a' b'
  | _, _ => false
  end.

(** * deque (left = newest = head of the list) *)
Definition pop_right {A} (l : list A) : outcome (A * list A) :=
  match rev l with [] => Err IndexError | x :: r => Ok (x, rev r) end.

(** [enumerate(xs, start)] *)
Fixpoint enumerate_from {A} (i : Z) (xs : list A) : list (Z * A) :=
  match xs with [] => [] | x :: r => (i, x) :: enumerate_from (i + 1) r end.

(** * dict with bytes keys, as an insertion-ordered association list *)
Fixpoint assoc_bytes {V} (k : bytes) (d : list (bytes * V)) : option V :=
  match d with
  | [] => None
  | (k', v) :: r => if bytes_eqb k k' then Some v else assoc_bytes k r
  end.

(** * Hexadecimal strings.  A string over [0-9a-f] is the list of its digit
      values; any other character is 16. *)
Definition hexstr := list Z.
Fixpoint hex_digits_pos (p : positive) (acc : hexstr) : hexstr :=
  match p with
  | xH => 1 :: acc
  | xO xH => 2 :: acc | xI xH => 3 :: acc
  | xO (xO xH) => 4 :: acc | xI (xO xH) => 5 :: acc | xO (xI xH) => 6 :: acc | xI (xI xH) => 7 :: acc
  | xO (xO (xO xH)) => 8 :: acc | xI (xO (xO xH)) => 9 :: acc
  | xO (xI (xO xH)) => 10 :: acc | xI (xI (xO xH)) => 11 :: acc
  | xO (xO (xI xH)) => 12 :: acc | xI (xO (xI xH)) => 13 :: acc
  | xO (xI (xI xH)) => 14 :: acc | xI (xI (xI xH)) => 15 :: acc
  | xO (xO (xO (xO q))) => hex_digits_pos q (0 :: acc)
  | xI (xO (xO (xO q))) => hex_digits_pos q (1 :: acc)
  | xO (xI (xO (xO q))) => hex_digits_pos q (2 :: acc)
  | xI (xI (xO (xO q))) => hex_digits_pos q (3 :: acc)
  | xO (xO (xI (xO q))) => hex_digits_pos q (4 :: acc)
  | xI (xO (xI (xO q))) => hex_digits_pos q (5 :: acc)
  | xO (xI (xI (xO q))) => hex_digits_pos q (6 :: acc)
  | xI (xI (xI (xO q))) => hex_digits_pos q (7 :: acc)
  | xO (xO (xO (xI q))) => hex_digits_pos q (8 :: acc)
  | xI (xO (xO (xI q))) => hex_digits_pos q (9 :: acc)
  | xO (xI (xO (xI q))) => hex_digits_pos q (10 :: acc)
  | xI (xI (xO (xI q))) => hex_digits_pos q (11 :: acc)
  | xO (xO (xI (xI q))) => hex_digits_pos q (12 :: acc)
  | xI (xO (xI (xI q))) => hex_digits_pos q (13 :: acc)
  | xO (xI (xI (xI q))) => hex_digits_pos q (14 :: acc)
  | xI (xI (xI (xI q))) => hex_digits_pos q (15 :: acc)
  end.
(** [hex(n)[2:]]: the digits for n >= 0; for n < 0 the text is "x…", never valid hex. *)
Definition py_hex_tail (n : Z) : hexstr :=
  match n with
  | Z0 => [0]
  | Zpos p => hex_digits_pos p []
  | Zneg p => 16 :: hex_digits_pos p []
  end.
(** ["0" * n] *)
Definition str_repeat (c : hexstr) (n : Z) : hexstr :=
  concat (repeat c (Z.to_nat n)).
(** [bytes.fromhex(s)] for a string without whitespace *)
Fixpoint py_fromhex (s : hexstr) : outcome bytes :=
  match s with
  | [] => Ok []
  | [_] => Err ValueError
  | h :: l :: r =>
      if (h <? 0) || (15 <? h) || (l <? 0) || (15 <? l) then Err ValueError
      else match zb (16 * h + l) with
           | None => Err ValueError
           | Some b => rest <- py_fromhex r ;; Ok (b :: rest)
           end
  end.

(** * n-tuples are left-nested pairs *)
Definition opt_truthy {A} (o : option A) : bool := match o with Some _ => true | None => false end.

(** [b[0] |= m] on a bytearray *)
Definition or_first (l : bytes) (m : Z) : outcome bytes :=
  match l with
  | [] => Err IndexError
  | b :: r => match zb (Z.lor (bz b) m) with None => Err ValueError | Some b' => Ok (b' :: r) end
  end.
(** [ord(b)] for a bytes object *)
Definition ord_bytes (l : bytes) : outcome Z :=
  match l with [b] => Ok (bz b) | _ => Err TypeError end.
