(** Prelude, continued: two more combinators used by the translation of the classes that hold
    other objects (hpack.hpack.Decoder / Encoder).  TRUSTED like Prelude/Py.v as a rendering of
    CPython behaviour; nothing here mentions hpack. *)
From Coq Require Import ZArith List Bool.
From Coq Require Import Init.Byte.
From HV Require Import Prelude.Py.
Import ListNotations.
Open Scope Z_scope.

(** [[f(x) for x in xs]] where [f] can raise: the elements are computed from left to right and
    the first exception ends the comprehension. *)
Fixpoint traverse {A B} (f : A -> outcome B) (xs : list A) : outcome (list B) :=
  match xs with
  | [] => Ok []
  | x :: r => y <- f x ;; r' <- traverse f r ;; Ok (y :: r')
  end.

(** A mutating call on an object [o] held in a field of [self]: [m] is the result of the call
    together with the new state of [o]; [put] stores that state back into [self] -- also when the
    call raised, since the object is shared, not copied -- and the code goes on with the new [self]. *)
Definition nbind {S T A B} (m : outcome A * T) (put : T -> S) (f : A -> S -> outcome B * S) : outcome B * S :=
  match m with
  | (Ok a, t) => f a (put t)
  | (Err e, t) => (Err e, put t)
  end.

(** [sorted(xs, key=f)] for a key [f] whose values are False / True: False < True and CPython's sort
    is stable, so the elements with key False come first, each group in its original order. *)
Definition stable_sort_by {A} (key : A -> bool) (xs : list A) : list A :=
  filter (fun x => negb (key x)) xs ++ filter key xs.

(** [s.startswith(p)] for bytes objects *)
Fixpoint bytes_startswith (s p : bytes) : bool :=
  match p with
  | [] => true
  | b :: p' => match s with [] => false | a :: s' => Byte.eqb a b && bytes_startswith s' p' end
  end.

(** truthiness of a value that is True, False or None *)
Definition flag_truthy (f : option bool) : bool := match f with Some true => true | _ => false end.

(** * Hexadecimal strings, continued: [format(n, "x")] / [f"{n:x}"] and [s.zfill(w)].

    Prelude/Py.v renders a string over [0-9a-f] as the list of its digit values and every other
    character as 16 (the "x" of [hex(-5)[2:] == "x5"]).  [str.zfill] is sign-aware, so the two sign
    characters have to be told apart from the other non-digits.  Refinement of the convention, used
    from here on: "-" is 17, "+" is 18, every other non-digit character stays 16.  (No translated
    expression produces "+"; "-" is produced by [py_format_x] only.)  All of 16, 17, 18 are
    outside 0..15, so [py_fromhex] refuses them alike -- as CPython does:
    [bytes.fromhex("-5")], [bytes.fromhex("x5")]: ValueError, non-hexadecimal number found. *)
Definition hex_minus : Z := 17.
Definition hex_plus : Z := 18.

(** [format(n, "x")], [f"{n:x}"] for an int n: the lower-case hexadecimal digits of abs(n), no prefix,
    preceded by "-" when n < 0.  CPython: format(0,"x") == "0", format(255,"x") == "ff",
    format(-5,"x") == "-5", format(-255,"x") == "-ff" (whereas hex(-5)[2:] == "x5": [py_hex_tail]).
    Never raises: sys.int_max_str_digits does not apply to power-of-two bases. *)
Definition py_format_x (n : Z) : hexstr :=
  match n with
  | Z0 => [0]
  | Zpos p => hex_digits_pos p []
  | Zneg p => hex_minus :: hex_digits_pos p []
  end.

(** [s.zfill(w)].  CPython (Objects/unicodeobject.c, unicode_zfill_impl): if len(s) >= w the string
    is returned unchanged; otherwise it is left-filled with w - len(s) characters "0", and if the
    first character of s is "+" or "-" that sign is moved in front of the fill:
    "5".zfill(3) == "005", "-5".zfill(4) == "-005", "+5".zfill(4) == "+005", "x5".zfill(4) == "00x5",
    "".zfill(2) == "00", "-".zfill(3) == "-00", "abc".zfill(3) == "abc".zfill(-1) == "abc".
    (As for ["0" * n], the limits on the size of an object -- OverflowError / MemoryError for
    w >= 2**63 or more characters than there is memory -- are not rendered.) *)
Definition str_zfill (s : hexstr) (w : Z) : hexstr :=
  if w <=? len s then s
  else let fill := str_repeat [0] (w - len s) in
       match s with
       | c :: r => if (c =? hex_minus) || (c =? hex_plus) then c :: fill ++ r else fill ++ s
       | [] => fill
       end.

Example py_format_x_0 : py_format_x 0 = [0]. Proof. vm_compute. reflexivity. Qed.
Example py_format_x_15 : py_format_x 15 = [15]. Proof. vm_compute. reflexivity. Qed.
Example py_format_x_16 : py_format_x 16 = [1; 0]. Proof. vm_compute. reflexivity. Qed.
Example py_format_x_255 : py_format_x 255 = [15; 15]. Proof. vm_compute. reflexivity. Qed.
Example py_format_x_256 : py_format_x 256 = [1; 0; 0]. Proof. vm_compute. reflexivity. Qed.
Example py_format_x_big : py_format_x 3735928559 = [13; 14; 10; 13; 11; 14; 14; 15]. Proof. vm_compute. reflexivity. Qed.
Example py_format_x_m1 : py_format_x (-1) = [17; 1]. Proof. vm_compute. reflexivity. Qed.
Example py_format_x_m5 : py_format_x (-5) = [17; 5]. Proof. vm_compute. reflexivity. Qed.
Example py_format_x_m255 : py_format_x (-255) = [17; 15; 15]. Proof. vm_compute. reflexivity. Qed.
Example py_format_x_m256 : py_format_x (-256) = [17; 1; 0; 0]. Proof. vm_compute. reflexivity. Qed.
(* the two spellings differ on the negative integers, and only there *)
Example py_hex_tail_m5 : py_hex_tail (-5) = [16; 5]. Proof. vm_compute. reflexivity. Qed.
Example py_format_x_hex_tail_255 : py_format_x 255 = py_hex_tail 255. Proof. vm_compute. reflexivity. Qed.

Example str_zfill_smaller : str_zfill [10; 11; 12] 2 = [10; 11; 12]. Proof. vm_compute. reflexivity. Qed.
Example str_zfill_equal : str_zfill [10; 11; 12] 3 = [10; 11; 12]. Proof. vm_compute. reflexivity. Qed.
Example str_zfill_larger1 : str_zfill [10; 11; 12] 4 = [0; 10; 11; 12]. Proof. vm_compute. reflexivity. Qed.
Example str_zfill_larger : str_zfill [10; 11; 12] 6 = [0; 0; 0; 10; 11; 12]. Proof. vm_compute. reflexivity. Qed.
Example str_zfill_zero : str_zfill [10; 11; 12] 0 = [10; 11; 12]. Proof. vm_compute. reflexivity. Qed.
Example str_zfill_negative : str_zfill [10; 11; 12] (-4) = [10; 11; 12]. Proof. vm_compute. reflexivity. Qed.
Example str_zfill_empty : str_zfill [] 2 = [0; 0]. Proof. vm_compute. reflexivity. Qed.
Example str_zfill_empty0 : str_zfill [] 0 = []. Proof. vm_compute. reflexivity. Qed.
Example str_zfill_minus : str_zfill (py_format_x (-5)) 4 = [17; 0; 0; 5]. Proof. vm_compute. reflexivity. Qed.
Example str_zfill_minus_equal : str_zfill (py_format_x (-5)) 2 = [17; 5]. Proof. vm_compute. reflexivity. Qed.
Example str_zfill_minus_smaller : str_zfill (py_format_x (-5)) 1 = [17; 5]. Proof. vm_compute. reflexivity. Qed.
Example str_zfill_minus_only : str_zfill [17] 3 = [17; 0; 0]. Proof. vm_compute. reflexivity. Qed.
Example str_zfill_plus : str_zfill [18; 5] 4 = [18; 0; 0; 5]. Proof. vm_compute. reflexivity. Qed.
Example str_zfill_other : str_zfill (py_hex_tail (-5)) 4 = [0; 0; 16; 5]. Proof. vm_compute. reflexivity. Qed.
Example str_zfill_inner_sign : str_zfill [5; 17; 5] 5 = [0; 0; 5; 17; 5]. Proof. vm_compute. reflexivity. Qed.
