(** Prelude, continued: two more combinators used by the translation of the classes that hold
    other objects (hpack.hpack.Decoder / Encoder).  TRUSTED like Prelude/Py.v as a rendering of
    CPython behaviour; nothing here mentions hpack. *)
From Coq Require Import ZArith List Bool.
From Coq Require Import Init.Byte.
From HV Require Import Prelude.Py.
Import ListNotations.
Open Scope Z_scope.

(** [[f(x) for x in xs]] where [f] can raise: the elements are computed from left to right and
    the first exception ends the comprehension. *)
Fixpoint traverse {A B} (f : A -> outcome B) (xs : list A) : outcome (list B) :=
  match xs with
  | [] => Ok []
  | x :: r => y <- f x ;; r' <- traverse f r ;; Ok (y :: r')
  end.

(** A mutating call on an object [o] held in a field of [self]: [m] is the result of the call
    together with the new state of [o]; [put] stores that state back into [self] -- also when the
    call raised, since the object is shared, not copied -- and the code goes on with the new [self]. *)
Definition nbind {S T A B} (m : outcome A * T) (put : T -> S) (f : A -> S -> outcome B * S) : outcome B * S :=
  match m with
  | (Ok a, t) => f a (put t)
  | (Err e, t) => (Err e, put t)
  end.

(** [sorted(xs, key=f)] for a key [f] whose values are False / True: False < True and CPython's sort
    is stable, so the elements with key False come first, each group in its original order. *)
Definition stable_sort_by {A} (key : A -> bool) (xs : list A) : list A :=
  filter (fun x => negb (key x)) xs ++ filter key xs.

(** [s.startswith(p)] for bytes objects *)
Fixpoint bytes_startswith (s p : bytes) : bool :=
  match p with
  | [] => true
  | b :: p' => match s with [] => false | a :: s' => Byte.eqb a b && bytes_startswith s' p' end
  end.

(** truthiness of a value that is True, False or None *)
Definition flag_truthy (f : option bool) : bool := match f with Some true => true | _ => false end.
