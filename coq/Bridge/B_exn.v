(** exceptions.py: the class hierarchy of the source (regenerated: Gen/GExn.v) gives the model's exception
    values the meaning the theorems use.

    - [b_documented_is_family]: the model's [documented e] IS "the class of e inherits from
      HPACKDecodingError" in the hierarchy that exceptions.py defines NOW, for every value the model can
      produce (so C04/C05's "only the documented decoding-error family" is a statement about what an
      application's `except HPACKDecodingError:` catches);
    - [b_family_is_hpack_error]: each of them is also an HPACKError and an Exception;
    - [b_handlers_exact]: every `except T:` that Gen/ renders as [catch T] names a class that, in the
      regenerated hierarchy, catches exactly the constructor T among the model's exceptions;
    - [b_exn_sub]: the regenerated subclass relation between the model's exceptions is the frozen one. *)
From Coq Require Import List Bool String.
From HV Require Import Prelude.Py Model.Exn.
From HV Require Gen.GExn Gen.GExnUse.
Import ListNotations.
Open Scope string_scope.

Lemma b_documented_is_family : forall e,
  documented e = subclass_of (hierarchy GExn.EXC_BASES) (exn_class e) "HPACKDecodingError".
Proof. intros []; vm_compute; reflexivity. Qed.

Lemma b_family_is_hpack_error : forall e, documented e = true ->
  subclass_of (hierarchy GExn.EXC_BASES) (exn_class e) "HPACKError" = true /\
  subclass_of (hierarchy GExn.EXC_BASES) (exn_class e) "Exception" = true.
Proof. intros [] H; try discriminate H; vm_compute; split; reflexivity. Qed.

(** no built-in error the library handles internally is a member, and no member is a built-in one *)
Lemma b_family_disjoint_from_builtins : forall e d, documented e = true -> documented d = false ->
  caught_by (hierarchy GExn.EXC_BASES) e d = false /\ caught_by (hierarchy GExn.EXC_BASES) d e = false.
Proof. intros [] [] H1 H2; try discriminate H1; try discriminate H2; vm_compute; split; reflexivity. Qed.

Lemma b_exn_sub : forall e d, caught_by (hierarchy GExn.EXC_BASES) e d = exn_sub e d.
Proof. intros [] []; vm_compute; reflexivity. Qed.

Lemma b_handlers_exact :
  forallb (fun d => forallb (fun e => Bool.eqb (caught_by (hierarchy GExn.EXC_BASES) e d) (exn_eqb e d)) all_exn)
          GExnUse.HANDLER_LEAVES = true.
Proof. vm_compute. reflexivity. Qed.

Lemma b_handler_exact : forall d, In d GExnUse.HANDLER_LEAVES ->
  forall e, caught_by (hierarchy GExn.EXC_BASES) e d = exn_eqb e d.
Proof.
  intros d Hd e. pose proof b_handlers_exact as H. rewrite forallb_forall in H. specialize (H d Hd).
  rewrite forallb_forall in H. specialize (H e (all_exn_complete e)). apply Bool.eqb_prop in H. exact H.
Qed.

(** a handler on any class, in the regenerated hierarchy, is the model's general handler *)
Lemma b_catch_h : forall A d to (m : outcome A),
  catch_h (hierarchy GExn.EXC_BASES) d to m = catch_sub d to m.
Proof. intros A d to [a|e]; unfold catch_h, catch_sub; [reflexivity|]. rewrite b_exn_sub. reflexivity. Qed.
