(** the encoder's code and length lists of the source are the frozen model's (257 entries each),
    so that the Huffman coder object of the regenerated Encoder is the model's *)
From Coq Require Import ZArith List.
From HV Require Import Prelude.Py Prelude.State.
From HV Require Gen.GData Gen.GHuff Model.Data Model.HuffEnc Model.Decoder Model.Encoder Bridge.B_HuffmanEncoder_encode.
Lemma b_REQUEST_CODES : GData.REQUEST_CODES = Data.REQUEST_CODES.
Proof. vm_compute. reflexivity. Qed.
Lemma b_REQUEST_CODES_LENGTH : GData.REQUEST_CODES_LENGTH = Data.REQUEST_CODES_LENGTH.
Proof. vm_compute. reflexivity. Qed.
Lemma b_huffman_coder :
  {| hc_codes := GData.REQUEST_CODES; hc_lens := GData.REQUEST_CODES_LENGTH |} = Encoder.huffman_coder.
Proof. unfold Encoder.huffman_coder. rewrite b_REQUEST_CODES, b_REQUEST_CODES_LENGTH. reflexivity. Qed.
(** self.huffman_coder.encode(s) of the regenerated Encoder = the model's huffman_encode_m *)
Lemma b_huffman_encode_m : forall s,
  GHuff.HuffmanEncoder_encode {| hc_codes := GData.REQUEST_CODES; hc_lens := GData.REQUEST_CODES_LENGTH |} s
  = Encoder.huffman_encode_m s.
Proof.
  intros s. unfold Encoder.huffman_encode_m.
  rewrite B_HuffmanEncoder_encode.b_HuffmanEncoder_encode, b_huffman_coder. reflexivity.
Qed.
Print Assumptions b_REQUEST_CODES.
Print Assumptions b_REQUEST_CODES_LENGTH.
Print Assumptions b_huffman_coder.
Print Assumptions b_huffman_encode_m.
