From Coq Require Import ZArith List Bool Lia ZifyBool.
From HV Require Import Prelude.Py Prelude.State Bridge.BridgeConsts.
From HV Require Gen.GData Gen.GInt Gen.GTable Gen.GHuff Model.Data Model.Int Model.Table Model.HuffEnc Model.HuffDec.
Open Scope Z_scope.
Lemma b_decode_huffman : forall s, GHuff.decode_huffman s = HuffDec.decode_huffman GData.HUFFMAN_TABLE GData.HUFFMAN_COMPLETE GData.HUFFMAN_EMIT_SYMBOL GData.HUFFMAN_FAIL s.
Proof. bridge. Qed.
Print Assumptions b_decode_huffman.
