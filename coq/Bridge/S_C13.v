(** The property theorems RESTATED OVER THE REGENERATED DEFINITIONS (Gen/: what /repo's
    source says now), obtained from the theorems about the frozen model by rewriting with the
    bridge lemmas.  When this file checks, the kernel has checked the properties about the
    translation of the current source itself, not only about the frozen model. *)
From Coq Require Import ZArith List Bool.
From HV Require Import Prelude.Py Prelude.State Prelude.Utf8.
From HV Require Import Spec.IntRep Spec.HuffmanCode Spec.StaticTable Spec.DynTable Spec.SDecoder.
From HV Require Model.Data Model.Int Model.Table Model.HuffEnc Model.HuffDec Model.Decoder Model.Encoder.
From HV Require Import Model.Rel Model.RelEnc.
From HV Require Gen.GData Gen.GInt Gen.GTable Gen.GHuff Gen.GDecoder Gen.GEncoder.
From HV Require Import Proofs.Int Proofs.Table Proofs.HuffSpec Proofs.HuffEnc Proofs.HuffDec Proofs.HuffRound
                       Proofs.DecoderRefine Proofs.EncoderMeaning.
From HV Require Import Bridge.B_decode_huffman Bridge.B_hufftable.
Import ListNotations.
Open Scope Z_scope.

(** The property theorems RESTATED OVER THE REGENERATED DEFINITIONS (Gen/: what /repo's
    source says now), obtained from the theorems about the frozen model by rewriting with the
    bridge lemmas.  When this file checks, the kernel has checked the properties about the
    translation of the current source itself, not only about the frozen model. *)
From Coq Require Import ZArith List Bool.
From HV Require Import Prelude.Py Prelude.State Prelude.Utf8.
From HV Require Import Spec.IntRep Spec.HuffmanCode Spec.StaticTable Spec.DynTable Spec.SDecoder.
From HV Require Model.Data Model.Int Model.Table Model.HuffEnc Model.HuffDec Model.Decoder Model.Encoder.
From HV Require Import Model.Rel Model.RelEnc.
From HV Require Gen.GData Gen.GInt Gen.GTable Gen.GHuff Gen.GDecoder Gen.GEncoder.
From HV Require Import Proofs.Int Proofs.Table Proofs.HuffSpec Proofs.HuffEnc Proofs.HuffDec Proofs.HuffRound
                       Proofs.DecoderRefine Proofs.EncoderMeaning.
From HV Require Import Bridge.B_HuffmanEncoder_encode Bridge.B_decode_huffman Bridge.B_hufftable Bridge.B_huffcodes.
Import ListNotations.
Open Scope Z_scope.

(** C13 on the source: the decoder WITH THE SOURCE'S OWN 4096-entry table *)
Theorem src_C13_decoder_exact : forall bs,
  GHuff.decode_huffman bs = match huff_dec bs with Some s => Ok s | None => Err HPACKDecodingError end.
Proof.
  intros bs. rewrite b_decode_huffman. apply decoder_exact. exact b_HUFFMAN_TABLE_cert.
Qed.

Print Assumptions src_C13_decoder_exact.
