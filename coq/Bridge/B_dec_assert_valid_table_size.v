From Coq Require Import ZArith List Bool Lia ZifyBool.
From HV Require Import Prelude.Py Prelude.State Prelude.Utf8 Prelude.PyExtra Bridge.B_dec_lib.
From HV Require Gen.GData Gen.GInt Gen.GTable Gen.GHuff Gen.GDecoder Gen.GEncoder.
From HV Require Model.Data Model.Int Model.Table Model.HuffEnc Model.HuffDec Model.Decoder Model.Encoder.
Import ListNotations.
Open Scope Z_scope.
From HV Require Import Bridge.B_dec_header_table_size.
Lemma b_Decoder__assert_valid_table_size : forall d, GDecoder.Decoder__assert_valid_table_size d = Decoder.Decoder__assert_valid_table_size d.
Proof. intros; unfold GDecoder.Decoder__assert_valid_table_size, Decoder.Decoder__assert_valid_table_size; rewrite b_Decoder_header_table_size; crush. Qed.
Print Assumptions b_Decoder__assert_valid_table_size.
