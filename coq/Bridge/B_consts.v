(** small constants of the source = the frozen model's *)
From Coq Require Import ZArith List.
From HV Require Import Prelude.Py Gen.GData Model.Data.
Lemma b_PREFIX_BIT_MAX_NUMBERS : GData._PREFIX_BIT_MAX_NUMBERS = Data._PREFIX_BIT_MAX_NUMBERS. Proof. reflexivity. Qed.
Lemma b_MAX_INTEGER_CONTINUATION_OCTETS : GData._MAX_INTEGER_CONTINUATION_OCTETS = Data._MAX_INTEGER_CONTINUATION_OCTETS. Proof. reflexivity. Qed.
Lemma b_INDEX_NONE : GData.INDEX_NONE = Data.INDEX_NONE. Proof. reflexivity. Qed.
Lemma b_INDEX_NEVER : GData.INDEX_NEVER = Data.INDEX_NEVER. Proof. reflexivity. Qed.
Lemma b_INDEX_INCREMENTAL : GData.INDEX_INCREMENTAL = Data.INDEX_INCREMENTAL. Proof. reflexivity. Qed.
Lemma b_DEFAULT_MAX_HEADER_LIST_SIZE : GData.DEFAULT_MAX_HEADER_LIST_SIZE = Data.DEFAULT_MAX_HEADER_LIST_SIZE. Proof. reflexivity. Qed.
Lemma b_DEFAULT_SIZE : GData.DEFAULT_SIZE = Data.DEFAULT_SIZE. Proof. reflexivity. Qed.
Lemma b_STATIC_TABLE_LENGTH : GData.STATIC_TABLE_LENGTH = Data.STATIC_TABLE_LENGTH. Proof. reflexivity. Qed.
