(** The property theorems RESTATED OVER THE REGENERATED DEFINITIONS (Gen/: what /repo's
    source says now), obtained from the theorems about the frozen model by rewriting with the
    bridge lemmas.  When this file checks, the kernel has checked the properties about the
    translation of the current source itself, not only about the frozen model. *)
From Coq Require Import ZArith List Bool.
From HV Require Import Prelude.Py Prelude.State Prelude.Utf8.
From HV Require Import Spec.IntRep Spec.HuffmanCode Spec.StaticTable Spec.DynTable Spec.SDecoder.
From HV Require Import Model.Data Model.Int Model.Table Model.Decoder Model.Encoder Model.Api.
From HV Require Import Model.Rel Model.RelEnc Model.Histories.
From HV Require Gen.GData Gen.GInt Gen.GTable Gen.GHuff Gen.GDecoder Gen.GEncoder Gen.GApi Gen.GInit.
From HV Require Import Proofs.Table Proofs.TableLift Proofs.DecoderRefine.
From HV Require Import Bridge.B_dec_decode Bridge.B_dec_set_header_table_size Bridge.B_init_Decoder.
From HV Require Import Model.Exn Bridge.B_exn.
From HV Require Gen.GExn.
From Coq Require Import String.
Import ListNotations.
Open Scope Z_scope.

(** C04 on the source: the translation of Decoder.decode fails only with the documented family *)
Theorem src_C04_decode_documented : forall d data raw, dec_ok d ->
  match fst (GDecoder.Decoder_decode d data raw) with
  | Ok _ => True
  | Err e => documented e = true
  end.
Proof. intros d data raw H. rewrite b_Decoder_decode. exact (decode_documented d data raw H). Qed.

(** one operation of a decoder history (Model.Decoder.dstep, drun), over the regenerated steps *)
Definition g_dstep (self : decoder) (o : dop) : outcome (list header) * decoder :=
  match o with
  | DSetMaxAllowed v => (Ok [], set_d_max_allowed v self)
  | DSetTableSize v =>
      match GDecoder.Decoder_set_header_table_size self v with (Ok _, s) => (Ok [], s) | (Err e, s) => (Err e, s) end
  | DSetMaxList v => (Ok [], set_d_max_list v self)
  | DDecode data raw => GDecoder.Decoder_decode self data raw
  end.
Definition g_drun (ops : list dop) (d : decoder) : decoder :=
  fold_left (fun d o => snd (g_dstep d o)) ops d.
Lemma g_dstep_eq : forall d o, g_dstep d o = dstep d o.
Proof.
  intros d [v|v|v|data raw]; unfold g_dstep, dstep;
    rewrite ?b_Decoder_set_header_table_size, ?b_Decoder_decode; reflexivity.
Qed.
Lemma g_drun_eq : forall ops d, g_drun ops d = drun ops d.
Proof.
  unfold g_drun, drun. induction ops as [|o r IH]; intros d; cbn [fold_left]; [reflexivity|].
  rewrite g_dstep_eq. apply IH.
Qed.

(** every history: a fresh Decoder (the translation of Decoder.__init__) after ANY sequence of
    operations, each performed by the translated code *)
Definition sane_op (o : dop) : Prop :=
  match o with DSetMaxList v => Z.abs v < 10 ^ 4300 | _ => True end.
Theorem src_C04_every_history : forall L ops data raw, Z.abs L < 10 ^ 4300 -> Forall sane_op ops ->
  match fst (GDecoder.Decoder_decode (g_drun ops (GInit.Decoder_init L)) data raw) with
  | Ok _ => True
  | Err e => documented e = true
  end.
Proof.
  intros L ops data raw H1 H2. rewrite b_Decoder_decode, g_drun_eq, b_Decoder_init.
  exact (decode_documented_history L ops data raw H1 H2).
Qed.

(** ... stated with the class hierarchy of the source's exceptions.py itself: whatever the translation of
    Decoder.decode raises, after any history, is caught by `except HPACKDecodingError:` (and by
    `except HPACKError:`), in the subclass relation that the class headers of exceptions.py define now *)
Theorem src_C04_family_of_the_source : forall L ops data raw, Z.abs L < 10 ^ 4300 -> Forall sane_op ops ->
  match fst (GDecoder.Decoder_decode (g_drun ops (GInit.Decoder_init L)) data raw) with
  | Ok _ => True
  | Err e => subclass_of (hierarchy GExn.EXC_BASES) (exn_class e) "HPACKDecodingError" = true /\
             subclass_of (hierarchy GExn.EXC_BASES) (exn_class e) "HPACKError" = true
  end.
Proof.
  intros L ops data raw H1 H2. pose proof (src_C04_every_history L ops data raw H1 H2) as H.
  destruct (fst (GDecoder.Decoder_decode (g_drun ops (GInit.Decoder_init L)) data raw)) as [x|e]; [exact I|].
  split; [rewrite <- b_documented_is_family; exact H | exact (proj1 (b_family_is_hpack_error e H))].
Qed.

Print Assumptions src_C04_decode_documented.
Print Assumptions src_C04_family_of_the_source.
Print Assumptions src_C04_every_history.
