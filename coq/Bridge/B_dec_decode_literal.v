From Coq Require Import ZArith List Bool Lia ZifyBool.
From HV Require Import Prelude.Py Prelude.State Prelude.Utf8 Prelude.PyExtra Bridge.B_dec_lib.
From HV Require Gen.GData Gen.GInt Gen.GTable Gen.GHuff Gen.GDecoder Gen.GEncoder.
From HV Require Model.Data Model.Int Model.Table Model.HuffEnc Model.HuffDec Model.Decoder Model.Encoder.
Import ListNotations.
Open Scope Z_scope.
Lemma b_Decoder__decode_literal : forall d data should_index, GDecoder.Decoder__decode_literal d data should_index = Decoder.Decoder__decode_literal d data should_index.
Proof. intros; unfold GDecoder.Decoder__decode_literal, Decoder.Decoder__decode_literal, Decoder.decode_string; crush. Qed.
Print Assumptions b_Decoder__decode_literal.
