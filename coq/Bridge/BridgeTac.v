(** The bridge cascade: [G.f x = M.f x] for a regenerated definition G.f and its frozen model
    M.f.  First [reflexivity] (succeeds whenever the regenerated text is convertible with the
    frozen one: renamed locals, reordered lets, extracted helpers); otherwise a
    structure-following tactic: same-scrutinee case analysis, congruence under binds, loops
    and catch, and [lia]-proved rewrites between boolean comparisons. *)
From Coq Require Import ZArith List Bool Lia ZifyBool Btauto.
From Coq Require Import Init.Byte.
From HV Require Import Prelude.Py Prelude.State.
Import ListNotations.
Open Scope Z_scope.
Ltac Zify.zify_post_hook ::= Z.to_euclidean_division_equations.

Lemma while_fuel_ext {S R} (f g : S -> ctl S R) :
  (forall s, f s = g s) -> forall fuel s, while_fuel fuel f s = while_fuel fuel g s.
Proof.
  intros H fuel; induction fuel as [|k IH]; intros s; cbn [while_fuel]; [reflexivity|].
  rewrite H. destruct (g s); auto.
Qed.
Lemma for_each_ext {A S R} (f g : A -> S -> ctl S R) :
  (forall a s, f a s = g a s) -> forall xs s, for_each xs f s = for_each xs g s.
Proof.
  intros H xs; induction xs as [|x xs IH]; intros s; cbn [for_each]; [reflexivity|].
  rewrite H. destruct (g x s); auto.
Qed.
Lemma bind_cong {A B} (m1 m2 : outcome A) (k1 k2 : A -> outcome B) :
  m1 = m2 -> (forall x, k1 x = k2 x) -> bind m1 k1 = bind m2 k2.
Proof. intros -> H. destruct m2; cbn; auto. Qed.
Lemma mbind_cong {S A B} (m1 m2 : outcome A) (s : S) (k1 k2 : A -> outcome B * S) :
  m1 = m2 -> (forall x, k1 x = k2 x) -> mbind m1 s k1 = mbind m2 s k2.
Proof. intros -> H. destruct m2; cbn; auto. Qed.
Lemma sbind_cong {S A B} (m1 m2 : outcome A * S) (k1 k2 : A -> S -> outcome B * S) :
  m1 = m2 -> (forall x s, k1 x s = k2 x s) -> sbind m1 k1 = sbind m2 k2.
Proof. intros -> H. destruct m2 as [[a|e] s]; cbn; auto. Qed.

(* equivalent spellings of integer tests and masks *)
Lemma cmp_gt_ge x c : (x >? c) = (x >=? c + 1). Proof. lia. Qed.
Lemma cmp_ge_gt x c : (x >=? c) = (x >? c - 1). Proof. lia. Qed.
Lemma cmp_lt_le x c : (x <? c) = (x <=? c - 1). Proof. lia. Qed.
Lemma cmp_le_lt x c : (x <=? c) = (x <? c + 1). Proof. lia. Qed.
Lemma cmp_gt_lt x y : (x >? y) = (y <? x). Proof. lia. Qed.
Lemma cmp_ge_le x y : (x >=? y) = (y <=? x). Proof. lia. Qed.
Lemma cmp_ne_lt x y : negb (x =? y) = ((x <? y) || (y <? x)). Proof. lia. Qed.

Ltac norm_cmp :=
  repeat match goal with
  | |- context [?x >? ?y] => rewrite (cmp_gt_lt x y)
  | |- context [?x >=? ?y] => rewrite (cmp_ge_le x y)
  end.
(** * The second pass ("x-mode").
    Every cascade is first run as it always was; only if that FAILS is it run again with the marker [XMode] in the
    context, which switches on the (dearer) steps that see through respellings of integer / bit tests: bit masks,
    constant shifts and the truthiness of integers as arithmetic facts for [lia], in the hypotheses as well as in the
    goal ([bitfacts], below), [1 << k] as [2 ** k], tests that are equivalent under what is known identified before
    they are analysed.  The marker is a hypothesis, so it is inherited by every subgoal and nothing has to be
    threaded through the tactics; a definition whose regenerated text is the frozen one never pays for it. *)
Inductive XMode : Prop := XModeOn.
Ltac xmode_on := lazymatch goal with _ : XMode |- _ => idtac | _ => pose proof XModeOn end.
Ltac if_x tac := idtac; lazymatch goal with _ : XMode |- _ => tac | _ => fail end.
(* redefined below, once the arithmetic layer is there *)
Ltac zleaf_x := fail.

Ltac bool_eq := solve [ reflexivity | lia | (norm_cmp; lia) | if_x ltac:(zleaf_x) ].

Ltac destruct_pairs :=
  repeat match goal with p : (_ * _)%type |- _ => destruct p end.

(* redefined below ([zcong]), for the second pass *)
Ltac zcong_x := fail.
Ltac arith_eq := solve [ reflexivity | lia | (f_equal; lia) | (norm_cmp; lia) | if_x ltac:(zcong_x) ].

Ltac bstep :=
  match goal with
  | |- ?a = ?a => reflexivity
  (* local definitions, one at a time: equal bound terms (up to arithmetic) are identified first *)
  | |- (let x := ?a in @?f x) = (let y := ?b in @?g y) =>
      first [ constr_eq a b | replace a with b by arith_eq | idtac ];
      match goal with |- (let x := ?a' in @?f' x) = (let y := ?b' in @?g' y) => change (f' a' = g' b') end; cbv beta
  | |- (let x := ?a in @?f x) = ?r => change (f a = r); cbv beta
  | |- ?l = (let y := ?b in @?g y) => change (l = g b); cbv beta
  | |- (if ?c then _ else _) = (if ?c then _ else _) => destruct c eqn:?
  | |- (if negb ?c then _ else _) = _ => destruct c eqn:?; cbn [negb]
  | |- _ = (if negb ?c then _ else _) => destruct c eqn:?; cbn [negb]
  | |- (if ?c then _ else _) = (if ?d then _ else _) =>
      let H := fresh in assert (H : c = d) by bool_eq; rewrite H; clear H
  | |- bind ?m _ = bind ?m _ => destruct m eqn:?; cbn [bind]
  | |- bind _ _ = bind _ _ => apply bind_cong; [|intros; destruct_pairs]
  | |- mbind _ ?s _ = mbind _ ?s _ => apply mbind_cong; [|intros; destruct_pairs]
  | |- sbind _ _ = sbind _ _ => apply sbind_cong; [|intros; destruct_pairs]
  | |- catch ?a ?b _ = catch ?a ?b _ => f_equal
  | |- Ok _ = Ok _ => f_equal
  | |- (_, _) = (_, _) => f_equal
  | |- match while_fuel ?n ?f ?s with _ => _ end = match while_fuel ?n ?g ?s with _ => _ end =>
        rewrite (while_fuel_ext f g) by (intros; destruct_pairs; repeat (cbv beta iota; bstep))
  | |- match for_each ?xs ?f ?s with _ => _ end = match for_each ?xs ?g ?s with _ => _ end =>
        rewrite (for_each_ext f g) by (intros; destruct_pairs; repeat (cbv beta iota; bstep))
  | |- match ?m with _ => _ end = match ?m with _ => _ end => destruct m eqn:?
  | |- Next _ = Next _ => f_equal
  | |- Break _ = Break _ => f_equal
  | |- Return _ _ = Return _ _ => f_equal
  | |- Raise _ _ = Raise _ _ => f_equal
  | |- _ = _ => solve [ lia | (f_equal; lia) | (repeat f_equal; lia) | reflexivity | if_x ltac:(zcong_x) ]
  end.

Ltac head_of t := match t with ?f _ => head_of f | _ => t end.

(** * Loops whose states are the same variables in another order *)
Definition map_ctl {S T R} (f : S -> T) (c : ctl S R) : ctl T R :=
  match c with Next s => Next (f s) | Break s => Break (f s) | Return r s => Return r (f s) | Raise e s => Raise e (f s) end.
Definition map_lres {S T R} (f : S -> T) (c : lres S R) : lres T R :=
  match c with Done s => Done (f s) | Returned r s => Returned r (f s) | Raised e s => Raised e (f s)
             | Exhausted s => Exhausted (f s) end.

Lemma while_fuel_map {S T R} (f : S -> T) (g : S -> ctl S R) (h : T -> ctl T R) :
  (forall s, h (f s) = map_ctl f (g s)) ->
  forall fuel s, while_fuel fuel h (f s) = map_lres f (while_fuel fuel g s).
Proof.
  intros H fuel; induction fuel as [|k IH]; intros s; cbn [while_fuel map_lres]; [reflexivity|].
  rewrite H. destruct (g s); cbn [map_ctl map_lres]; auto.
Qed.

Lemma for_each_map {A S T R} (f : S -> T) (g : A -> S -> ctl S R) (h : A -> T -> ctl T R) :
  (forall a s, h a (f s) = map_ctl f (g a s)) ->
  forall xs s, for_each xs h (f s) = map_lres f (for_each xs g s).
Proof.
  intros H xs; induction xs as [|x xs IH]; intros s; cbn [for_each map_lres]; [reflexivity|].
  rewrite H. destruct (g x s); cbn [map_ctl map_lres]; auto.
Qed.


(** the permutations of pairs, triples and quadruples (the state of a loop is the tuple of the variables
    its body assigns, in the order the translator meets them: an edit of the body can permute it) *)
Definition tperm2_21 {A1 A2} (p : A1 * A2) : A2 * A1 := let '(x1, x2) := p in (x2, x1).
Definition tperm3_132 {A1 A2 A3} (p : A1 * A2 * A3) : A1 * A3 * A2 := let '(x1, x2, x3) := p in (x1, x3, x2).
Definition tperm3_213 {A1 A2 A3} (p : A1 * A2 * A3) : A2 * A1 * A3 := let '(x1, x2, x3) := p in (x2, x1, x3).
Definition tperm3_231 {A1 A2 A3} (p : A1 * A2 * A3) : A2 * A3 * A1 := let '(x1, x2, x3) := p in (x2, x3, x1).
Definition tperm3_312 {A1 A2 A3} (p : A1 * A2 * A3) : A3 * A1 * A2 := let '(x1, x2, x3) := p in (x3, x1, x2).
Definition tperm3_321 {A1 A2 A3} (p : A1 * A2 * A3) : A3 * A2 * A1 := let '(x1, x2, x3) := p in (x3, x2, x1).
Definition tperm4_1243 {A1 A2 A3 A4} (p : A1 * A2 * A3 * A4) : A1 * A2 * A4 * A3 := let '(x1, x2, x3, x4) := p in (x1, x2, x4, x3).
Definition tperm4_1324 {A1 A2 A3 A4} (p : A1 * A2 * A3 * A4) : A1 * A3 * A2 * A4 := let '(x1, x2, x3, x4) := p in (x1, x3, x2, x4).
Definition tperm4_1342 {A1 A2 A3 A4} (p : A1 * A2 * A3 * A4) : A1 * A3 * A4 * A2 := let '(x1, x2, x3, x4) := p in (x1, x3, x4, x2).
Definition tperm4_1423 {A1 A2 A3 A4} (p : A1 * A2 * A3 * A4) : A1 * A4 * A2 * A3 := let '(x1, x2, x3, x4) := p in (x1, x4, x2, x3).
Definition tperm4_1432 {A1 A2 A3 A4} (p : A1 * A2 * A3 * A4) : A1 * A4 * A3 * A2 := let '(x1, x2, x3, x4) := p in (x1, x4, x3, x2).
Definition tperm4_2134 {A1 A2 A3 A4} (p : A1 * A2 * A3 * A4) : A2 * A1 * A3 * A4 := let '(x1, x2, x3, x4) := p in (x2, x1, x3, x4).
Definition tperm4_2143 {A1 A2 A3 A4} (p : A1 * A2 * A3 * A4) : A2 * A1 * A4 * A3 := let '(x1, x2, x3, x4) := p in (x2, x1, x4, x3).
Definition tperm4_2314 {A1 A2 A3 A4} (p : A1 * A2 * A3 * A4) : A2 * A3 * A1 * A4 := let '(x1, x2, x3, x4) := p in (x2, x3, x1, x4).
Definition tperm4_2341 {A1 A2 A3 A4} (p : A1 * A2 * A3 * A4) : A2 * A3 * A4 * A1 := let '(x1, x2, x3, x4) := p in (x2, x3, x4, x1).
Definition tperm4_2413 {A1 A2 A3 A4} (p : A1 * A2 * A3 * A4) : A2 * A4 * A1 * A3 := let '(x1, x2, x3, x4) := p in (x2, x4, x1, x3).
Definition tperm4_2431 {A1 A2 A3 A4} (p : A1 * A2 * A3 * A4) : A2 * A4 * A3 * A1 := let '(x1, x2, x3, x4) := p in (x2, x4, x3, x1).
Definition tperm4_3124 {A1 A2 A3 A4} (p : A1 * A2 * A3 * A4) : A3 * A1 * A2 * A4 := let '(x1, x2, x3, x4) := p in (x3, x1, x2, x4).
Definition tperm4_3142 {A1 A2 A3 A4} (p : A1 * A2 * A3 * A4) : A3 * A1 * A4 * A2 := let '(x1, x2, x3, x4) := p in (x3, x1, x4, x2).
Definition tperm4_3214 {A1 A2 A3 A4} (p : A1 * A2 * A3 * A4) : A3 * A2 * A1 * A4 := let '(x1, x2, x3, x4) := p in (x3, x2, x1, x4).
Definition tperm4_3241 {A1 A2 A3 A4} (p : A1 * A2 * A3 * A4) : A3 * A2 * A4 * A1 := let '(x1, x2, x3, x4) := p in (x3, x2, x4, x1).
Definition tperm4_3412 {A1 A2 A3 A4} (p : A1 * A2 * A3 * A4) : A3 * A4 * A1 * A2 := let '(x1, x2, x3, x4) := p in (x3, x4, x1, x2).
Definition tperm4_3421 {A1 A2 A3 A4} (p : A1 * A2 * A3 * A4) : A3 * A4 * A2 * A1 := let '(x1, x2, x3, x4) := p in (x3, x4, x2, x1).
Definition tperm4_4123 {A1 A2 A3 A4} (p : A1 * A2 * A3 * A4) : A4 * A1 * A2 * A3 := let '(x1, x2, x3, x4) := p in (x4, x1, x2, x3).
Definition tperm4_4132 {A1 A2 A3 A4} (p : A1 * A2 * A3 * A4) : A4 * A1 * A3 * A2 := let '(x1, x2, x3, x4) := p in (x4, x1, x3, x2).
Definition tperm4_4213 {A1 A2 A3 A4} (p : A1 * A2 * A3 * A4) : A4 * A2 * A1 * A3 := let '(x1, x2, x3, x4) := p in (x4, x2, x1, x3).
Definition tperm4_4231 {A1 A2 A3 A4} (p : A1 * A2 * A3 * A4) : A4 * A2 * A3 * A1 := let '(x1, x2, x3, x4) := p in (x4, x2, x3, x1).
Definition tperm4_4312 {A1 A2 A3 A4} (p : A1 * A2 * A3 * A4) : A4 * A3 * A1 * A2 := let '(x1, x2, x3, x4) := p in (x4, x3, x1, x2).
Definition tperm4_4321 {A1 A2 A3 A4} (p : A1 * A2 * A3 * A4) : A4 * A3 * A2 * A1 := let '(x1, x2, x3, x4) := p in (x4, x3, x2, x1).

Ltac unfold_tperms := cbv beta iota delta [tperm2_21 tperm3_132 tperm3_213 tperm3_231 tperm3_312 tperm3_321 tperm4_1243 tperm4_1324 tperm4_1342 tperm4_1423 tperm4_1432 tperm4_2134 tperm4_2143 tperm4_2314 tperm4_2341 tperm4_2413 tperm4_2431 tperm4_3124 tperm4_3142 tperm4_3214 tperm4_3241 tperm4_3412 tperm4_3421 tperm4_4123 tperm4_4132 tperm4_4213 tperm4_4231 tperm4_4312 tperm4_4321].
(** continue with each permutation in turn (those of the wrong arity or types fail at once) *)
Ltac each_tperm k :=
  first
    [ k uconstr:(tperm2_21)
    | k uconstr:(tperm3_132)
    | k uconstr:(tperm3_213)
    | k uconstr:(tperm3_231)
    | k uconstr:(tperm3_312)
    | k uconstr:(tperm3_321)
    | k uconstr:(tperm4_1243)
    | k uconstr:(tperm4_1324)
    | k uconstr:(tperm4_1342)
    | k uconstr:(tperm4_1423)
    | k uconstr:(tperm4_1432)
    | k uconstr:(tperm4_2134)
    | k uconstr:(tperm4_2143)
    | k uconstr:(tperm4_2314)
    | k uconstr:(tperm4_2341)
    | k uconstr:(tperm4_2413)
    | k uconstr:(tperm4_2431)
    | k uconstr:(tperm4_3124)
    | k uconstr:(tperm4_3142)
    | k uconstr:(tperm4_3214)
    | k uconstr:(tperm4_3241)
    | k uconstr:(tperm4_3412)
    | k uconstr:(tperm4_3421)
    | k uconstr:(tperm4_4123)
    | k uconstr:(tperm4_4132)
    | k uconstr:(tperm4_4213)
    | k uconstr:(tperm4_4231)
    | k uconstr:(tperm4_4312)
    | k uconstr:(tperm4_4321) ].

(** * Loops compared by what the rest of the function OBSERVES of them, under an invariant
    [while_fuel_map] wants the two bodies to leave the same state at every exit.  That is more than a bridge needs:
    a statement moved across an independent [if] ([i += consumed] before or after the block that can raise) changes
    the state in which the loop is left by a [raise] -- a state of which the function then reads only [self]; and a
    test may read a local that was initialised, before the loop, from an attribute that no iteration changes
    ([maxsize = self._maxsize] hoisted) -- equal to the attribute only under the invariant "the loop leaves that
    field alone".  So: [P1], [P2] are the CONTEXTS of the two loops (what the function does with their results),
    the iterations are compared through [obs_ctl]: same next state (up to [f]), or exits on which the contexts
    agree -- whatever the kind of exit and the final state; all of it for the states that satisfy [I], which the
    first body preserves. *)
Inductive octl (T A : Type) := ONext (t : T) | OStop (a : A).
Arguments ONext {T A}. Arguments OStop {T A}.

Definition obs_ctl {S T R A} (f : S -> T) (P : lres S R -> A) (c : ctl S R) : octl T A :=
  match c with
  | Next s => ONext (f s)
  | Break s => OStop (P (Done s))
  | Return r s => OStop (P (Returned r s))
  | Raise e s => OStop (P (Raised e s))
  end.

(** the body [g] preserves [I] from one iteration to the next *)
Definition pres {S R} (g : S -> ctl S R) (I : S -> Prop) : Prop :=
  forall s, I s -> match g s with Next s' => I s' | _ => True end.
Lemma pres_true {S R} (g : S -> ctl S R) : pres g (fun _ => True).
Proof. intros s _. destruct (g s); exact Logic.I. Qed.
Lemma pres_conj {S R} (g : S -> ctl S R) (I J : S -> Prop) : pres g I -> pres g J -> pres g (fun s => I s /\ J s).
Proof. intros HI HJ s [A B]. specialize (HI s A). specialize (HJ s B). destruct (g s); auto. Qed.

Lemma while_fuel_obs {S T R1 R2 A} (f : S -> T) (I : S -> Prop)
      (g : S -> ctl S R1) (h : T -> ctl T R2) (P1 : lres S R1 -> A) (P2 : lres T R2 -> A) :
  (forall s, I s -> P1 (Exhausted s) = P2 (Exhausted (f s))) ->
  (forall s, I s -> obs_ctl f P1 (g s) = obs_ctl (fun t => t) P2 (h (f s))) ->
  pres g I ->
  forall n s, I s -> P1 (while_fuel n g s) = P2 (while_fuel n h (f s)).
Proof.
  intros HX HB HP n; induction n as [|k IH]; intros s Hs; cbn [while_fuel]; [apply HX; exact Hs|].
  specialize (HB s Hs). specialize (HP s Hs).
  destruct (g s) as [s1|s1|r1 s1|e1 s1], (h (f s)) as [t2|t2|r2 t2|e2 t2]; cbn [obs_ctl] in HB;
    try discriminate HB; try (injection HB as HB; exact HB).
  injection HB as <-. apply IH. exact HP.
Qed.
Lemma while_fuel_obs_at {S T R1 R2 A} (f : S -> T) (I : S -> Prop)
      (g : S -> ctl S R1) (h : T -> ctl T R2) (P1 : lres S R1 -> A) (P2 : lres T R2 -> A) n s t :
  (forall s, I s -> P1 (Exhausted s) = P2 (Exhausted (f s))) ->
  (forall s, I s -> obs_ctl f P1 (g s) = obs_ctl (fun t => t) P2 (h (f s))) ->
  pres g I -> t = f s -> I s -> P1 (while_fuel n g s) = P2 (while_fuel n h t).
Proof. intros HX HB HP -> Hs. apply while_fuel_obs with (I := I); assumption. Qed.

(** the same for [for x in xs]: the end of the list is one more exit *)
Definition pres_e {A S R} (g : A -> S -> ctl S R) (I : S -> Prop) : Prop := forall a, pres (g a) I.
Lemma pres_e_true {A S R} (g : A -> S -> ctl S R) : pres_e g (fun _ => True).
Proof. intros a. apply pres_true. Qed.
Lemma pres_e_conj {A S R} (g : A -> S -> ctl S R) (I J : S -> Prop) :
  pres_e g I -> pres_e g J -> pres_e g (fun s => I s /\ J s).
Proof. intros HI HJ a. apply pres_conj; [apply HI|apply HJ]. Qed.
Lemma for_each_obs_at {A S T R1 R2 B} (f : S -> T) (I : S -> Prop)
      (g : A -> S -> ctl S R1) (h : A -> T -> ctl T R2) (P1 : lres S R1 -> B) (P2 : lres T R2 -> B) xs s t :
  (forall s, I s -> P1 (Done s) = P2 (Done (f s))) ->
  (forall a s, I s -> obs_ctl f P1 (g a s) = obs_ctl (fun t => t) P2 (h a (f s))) ->
  pres_e g I -> t = f s -> I s -> P1 (for_each xs g s) = P2 (for_each xs h t).
Proof.
  intros HD HB HP -> Hs. revert s Hs. induction xs as [|x r IH]; intros s Hs; cbn [for_each]; [apply HD; exact Hs|].
  specialize (HB x s Hs). specialize (HP x s Hs).
  destruct (g x s) as [s1|s1|r1 s1|e1 s1], (h x (f s)) as [t2|t2|r2 t2|e2 t2]; cbn [obs_ctl] in HB;
    try discriminate HB; try (injection HB as HB; exact HB).
  injection HB as <-. apply IH. exact HP.
Qed.

(** * Bit operations as arithmetic, for [lia] (with the euclidean post-hook above) *)
Lemma bz_range_ b : 0 <= bz b < 256.
Proof. unfold bz. pose proof (Byte.to_N_bounded b). lia. Qed.
Lemma shiftl_mul_c a n p : (0 <=? n) = true -> (2 ^ n =? p) = true -> Z.shiftl a n = a * p.
Proof. intros Hn Hp. apply Z.leb_le in Hn. apply Z.eqb_eq in Hp. subst p. apply Z.shiftl_mul_pow2. exact Hn. Qed.
Lemma shiftr_div_c a n p : (0 <=? n) = true -> (2 ^ n =? p) = true -> Z.shiftr a n = a / p.
Proof. intros Hn Hp. apply Z.leb_le in Hn. apply Z.eqb_eq in Hp. subst p. apply Z.shiftr_div_pow2. exact Hn. Qed.
Lemma land_mod_c a m k p : (0 <=? k) = true -> (Z.ones k =? m) = true -> (2 ^ k =? p) = true -> Z.land a m = a mod p.
Proof.
  intros Hk Hm Hp. apply Z.leb_le in Hk. apply Z.eqb_eq in Hm. apply Z.eqb_eq in Hp. subst m p.
  apply Z.land_ones. exact Hk.
Qed.
Lemma land_mod_c' a m k p : (0 <=? k) = true -> (Z.ones k =? m) = true -> (2 ^ k =? p) = true -> Z.land m a = a mod p.
Proof. intros. rewrite Z.land_comm. eapply land_mod_c; eassumption. Qed.
Lemma lor_add_c a p x k : (0 <=? k) = true -> (2 ^ k =? p) = true -> 0 <= x < p -> Z.lor (a * p) x = a * p + x.
Proof.
  intros Hk Hp Hx. apply Z.leb_le in Hk. apply Z.eqb_eq in Hp. subst p.
  assert (D : forall i, 0 <= i -> Z.testbit (a * 2 ^ k) i && Z.testbit x i = false).
  { intros i Hi. destruct (Z_lt_le_dec i k) as [L|L].
    - rewrite Z.mul_pow2_bits_low by lia. reflexivity.
    - assert (H : Z.testbit x i = false).
      { destruct (Z.eq_dec x 0) as [->|Hx0]; [apply Z.bits_0|].
        pose proof (Z.pow_le_mono_r 2 k i ltac:(lia) L).
        apply Z.bits_above_log2; [lia|]. apply Z.log2_lt_pow2; lia. }
      rewrite H. apply andb_false_r. }
  assert (L0 : Z.land (a * 2 ^ k) x = 0).
  { apply Z.bits_inj'. intros i Hi. rewrite Z.land_spec, Z.bits_0. apply D. exact Hi. }
  rewrite (Z.add_nocarry_lxor _ _ L0).
  apply Z.bits_inj'. intros i Hi. rewrite Z.lor_spec, Z.lxor_spec.
  specialize (D i Hi). destruct (Z.testbit (a * 2 ^ k) i), (Z.testbit x i); try reflexivity; discriminate D.
Qed.
Lemma lor_add_num x c k p : (0 <=? k) = true -> (2 ^ k =? p) = true -> (c mod p =? 0) = true -> 0 <= x < p ->
  Z.lor x c = x + c.
Proof.
  intros Hk Hp Hc Hx. pose proof Hp as Hp'. apply Z.eqb_eq in Hp'. apply Z.eqb_eq in Hc.
  assert (0 < p) by (subst p; apply Z.pow_pos_nonneg; [lia|apply Z.leb_le; exact Hk]).
  assert (E : c = (c / p) * p) by (rewrite (Z.div_mod c p) at 1 by lia; lia).
  rewrite E. rewrite Z.lor_comm, (lor_add_c (c / p) p x k Hk Hp Hx). lia.
Qed.

Ltac znum t :=
  lazymatch t with
  | Z0 => idtac
  | Zpos ?p => pnum p
  | Zneg ?p => pnum p
  end
with pnum p := lazymatch p with xH => idtac | xO ?q => pnum q | xI ?q => pnum q end.

Ltac bz_facts :=
  repeat match goal with
  | |- context [bz ?b] => lazymatch goal with _ : 0 <= bz b < 256 |- _ => fail | _ => pose proof (bz_range_ b) end
  | _ : context [bz ?b] |- _ => lazymatch goal with _ : 0 <= bz b < 256 |- _ => fail | _ => pose proof (bz_range_ b) end
  end.

(** shifts by a constant, masks 2^k - 1 and the union of disjoint bit ranges, as *, /, mod, + *)
Ltac bitnorm :=
  bz_facts;
  repeat match goal with
  | |- context [Z.shiftl ?a ?n] =>
      znum n; let p := eval vm_compute in (2 ^ n) in rewrite (shiftl_mul_c a n p eq_refl eq_refl)
  | |- context [Z.shiftr ?a ?n] =>
      znum n; let p := eval vm_compute in (2 ^ n) in rewrite (shiftr_div_c a n p eq_refl eq_refl)
  | |- context [Z.land ?a ?m] =>
      znum m; let k := eval vm_compute in (Z.log2 (m + 1)) in let p := eval vm_compute in (2 ^ k) in
      rewrite (land_mod_c a m k p eq_refl eq_refl eq_refl)
  | |- context [Z.land ?m ?a] =>
      znum m; let k := eval vm_compute in (Z.log2 (m + 1)) in let p := eval vm_compute in (2 ^ k) in
      rewrite (land_mod_c' a m k p eq_refl eq_refl eq_refl)
  | |- context [Z.lor (?a * ?p) ?x] =>
      znum p; let k := eval vm_compute in (Z.log2 p) in
      rewrite (lor_add_c a p x k eq_refl eq_refl) by lia
  | |- context [Z.lor ?x (?a * ?p)] =>
      znum p; let k := eval vm_compute in (Z.log2 p) in
      rewrite (Z.lor_comm x (a * p)), (lor_add_c a p x k eq_refl eq_refl) by lia
  | |- context [Z.lor ?x ?c] =>
      znum c; let k := eval vm_compute in (Z.log2 (Z.land c (- c))) in let p := eval vm_compute in (2 ^ k) in
      rewrite (lor_add_num x c k p eq_refl eq_refl eq_refl) by lia
  | |- context [Z.lor ?c ?x] =>
      znum c; let k := eval vm_compute in (Z.log2 (Z.land c (- c))) in let p := eval vm_compute in (2 ^ k) in
      rewrite (Z.lor_comm c x), (lor_add_num x c k p eq_refl eq_refl eq_refl) by lia
  end.

(** [1 << k] is [2 ** k] for EVERY integer k (both are 0 for k < 0) *)
Lemma shiftl_1_pow2 k : Z.shiftl 1 k = 2 ^ k.
Proof.
  destruct (Z_le_gt_dec 0 k) as [H|H].
  - rewrite Z.shiftl_mul_pow2 by exact H. lia.
  - rewrite Z.shiftl_div_pow2 by lia. rewrite (Z.pow_neg_r 2 k) by lia.
    apply Z.div_small. split; [lia|]. apply Z.pow_gt_1; lia.
Qed.
(** a mask that is a run of w ones from bit k on (0x80, 0x40, 0x3F, 0x0F, 0x10, ...): the field it selects *)
Lemma land_run_c a m k w p q :
  (0 <=? k) = true -> (0 <=? w) = true -> (2 ^ k =? p) = true -> (2 ^ w =? q) = true -> ((q - 1) * p =? m) = true ->
  Z.land a m = (a / p) mod q * p.
Proof.
  intros Hk Hw Hp Hq Hm. apply Z.leb_le in Hk, Hw. apply Z.eqb_eq in Hp, Hq, Hm. subst p q m.
  replace ((2 ^ w - 1) * 2 ^ k) with (Z.shiftl (Z.ones w) k) by (rewrite Z.shiftl_mul_pow2, Z.ones_equiv by lia; lia).
  replace ((a / 2 ^ k) mod 2 ^ w * 2 ^ k) with (Z.shiftl (Z.land (Z.shiftr a k) (Z.ones w)) k)
    by (rewrite Z.shiftl_mul_pow2, Z.land_ones, Z.shiftr_div_pow2 by lia; reflexivity).
  apply Z.bits_inj'. intros i Hi. rewrite Z.land_spec.
  destruct (Z_lt_le_dec i k) as [L|L].
  - rewrite !Z.shiftl_spec_low by lia. apply andb_false_r.
  - rewrite !Z.shiftl_spec by lia. rewrite Z.land_spec, Z.shiftr_spec by lia.
    replace (i - k + k) with i by lia. reflexivity.
Qed.
Lemma land_run_c' a m k w p q :
  (0 <=? k) = true -> (0 <=? w) = true -> (2 ^ k =? p) = true -> (2 ^ w =? q) = true -> ((q - 1) * p =? m) = true ->
  Z.land m a = (a / p) mod q * p.
Proof. intros H1 H2 H3 H4 H5. rewrite Z.land_comm. exact (land_run_c a m k w p q H1 H2 H3 H4 H5). Qed.
Lemma land_nonneg_c a m : (0 <=? m) = true -> 0 <= Z.land a m.
Proof. intros H. apply Z.leb_le in H. apply Z.land_nonneg. right. exact H. Qed.
Lemma land_nonneg_c' a m : (0 <=? m) = true -> 0 <= Z.land m a.
Proof. intros H. rewrite Z.land_comm. apply land_nonneg_c. exact H. Qed.

(** [bitfacts]: what [bitnorm] does by rewriting the goal, as FACTS -- one equation per mask / constant shift in sight, in
    the goal or in a hypothesis (a test that was analysed earlier) -- so that [lia] reasons about both.  A mask that is
    a run of ones selects a field: [a & 0x40 = (a / 64) mod 2 * 64]; of any other non-negative mask only the sign
    of the result is recorded. *)
Ltac no_fact_for t := lazymatch goal with _ : t = _ |- _ => fail | _ : 0 <= t |- _ => fail | _ => idtac end.
Ltac land_fact a m flip :=
  let k := eval vm_compute in (Z.log2 (Z.land m (- m))) in
  let p := eval vm_compute in (2 ^ k) in
  let w := eval vm_compute in (Z.log2 (m / p + 1)) in
  let q := eval vm_compute in (2 ^ w) in
  lazymatch eval vm_compute in ((0 <? m) && ((q - 1) * p =? m)) with
  | true =>
      lazymatch flip with
      | false => lazymatch k with
                 | 0 => pose proof (land_mod_c a m w q eq_refl eq_refl eq_refl)
                 | _ => pose proof (land_run_c a m k w p q eq_refl eq_refl eq_refl eq_refl eq_refl)
                 end
      | true => lazymatch k with
                | 0 => pose proof (land_mod_c' a m w q eq_refl eq_refl eq_refl)
                | _ => pose proof (land_run_c' a m k w p q eq_refl eq_refl eq_refl eq_refl eq_refl)
                end
      end
  | false =>
      lazymatch eval vm_compute in (0 <=? m) with
      | true => lazymatch flip with
                | false => pose proof (land_nonneg_c a m eq_refl)
                | true => pose proof (land_nonneg_c' a m eq_refl)
                end
      end
  end.
Ltac bitfact_for t :=
  lazymatch t with
  | Z.land ?a ?m => first [ znum m; no_fact_for t; land_fact a m false
                          | znum a; no_fact_for t; land_fact m a true ]
  | Z.shiftr ?a ?n => znum n; no_fact_for t; let p := eval vm_compute in (2 ^ n) in pose proof (shiftr_div_c a n p eq_refl eq_refl)
  | Z.shiftl ?a ?n => znum n; no_fact_for t; let p := eval vm_compute in (2 ^ n) in pose proof (shiftl_mul_c a n p eq_refl eq_refl)
  end.
Ltac bitfacts :=
  repeat match goal with
  | |- context [Z.land ?a ?m] => bitfact_for (Z.land a m)
  | |- context [Z.shiftr ?a ?n] => bitfact_for (Z.shiftr a n)
  | |- context [Z.shiftl ?a ?n] => bitfact_for (Z.shiftl a n)
  | _ : context [Z.land ?a ?m] |- _ => bitfact_for (Z.land a m)
  | _ : context [Z.shiftr ?a ?n] |- _ => bitfact_for (Z.shiftr a n)
  | _ : context [Z.shiftl ?a ?n] |- _ => bitfact_for (Z.shiftl a n)
  end.

(** * Equalities up to arithmetic *)
Lemma len_nonneg_ {A} (l : list A) : 0 <= len l.
Proof. unfold len. lia. Qed.

(** [0 <= len l] for the lengths in sight (an emptiness test may be spelled [len l >? 0]) *)
Ltac len_facts :=
  repeat match goal with
  | |- context [len ?l] =>
      lazymatch goal with _ : 0 <= len l |- _ => fail | _ => pose proof (len_nonneg_ l) end
  | _ : context [len ?l] |- _ =>
      lazymatch goal with _ : 0 <= len l |- _ => fail | _ => pose proof (len_nonneg_ l) end
  end.

Ltac zleaf :=
  len_facts;
  solve [ lia | btauto | (norm_cmp; lia) | apply Z.land_comm | apply Z.lor_comm | apply Z.lxor_comm
        | (bitnorm; lia) | if_x ltac:(zleaf_x) ].

(** the leaf of the second pass (goal: an equation between integers or booleans, or [False]): truthiness of an
    integer as [<> 0], [1 << k] as [2 ** k], the ranges of the octets and lengths, the masks and shifts as facts *)
Ltac zleaf_x ::=
  unfold truthy in *; rewrite ?shiftl_1_pow2 in *;
  bz_facts; len_facts; bitfacts;
  solve [ lia | (bitnorm; lia) ].

(** [a = b] when a and b have the same shape down to integer / boolean sub-terms that are equal by
    arithmetic: congruence first (so that an integer inside an uninterpreted term is found), [lia] or
    [btauto] at the outermost position where the shapes differ. *)
Ltac zcong :=
  lazymatch goal with
  | |- ?a = ?a => reflexivity
  | |- @eq ?T _ _ =>
      first [ solve [ progress f_equal; zcong ]
            | lazymatch T with Z => zleaf | bool => zleaf | nat => zleaf end ]
  end.

Ltac zcong_x ::= zcong.

Ltac same_head a b := let ha := head_of a in let hb := head_of b in constr_eq ha hb.
Ltac differ a b := tryif constr_eq a b then fail else idtac.
Ltac no_match x := lazymatch x with context [match _ with _ => _ end] => fail | _ => idtac end.

(** x is about to be analysed: something equal to it up to arithmetic was analysed before *)
Ltac sync_hyp x :=
  match goal with
  | H : ?y = _ |- _ =>
      differ x y; same_head x y;
      let E := fresh in assert (E : x = y) by zcong; rewrite E; clear E; rewrite H
  end.
(** ... or is another scrutinee of the goal, which is rewritten into x *)
Ltac sync_goal x :=
  repeat match goal with
  | |- context [match ?y with _ => _ end] =>
      differ x y; same_head x y; no_match y;
      let E := fresh in assert (E : y = x) by zcong; rewrite E; clear E
  end.

(** destruct a scrutinee of the goal that contains no other match -- or, when its value is already
    known from an earlier case analysis (the two sides do not always show a scrutinee at the same
    moment), rewrite with what is known.  Scrutinees that differ only by the spelling of an integer
    or boolean sub-term ([a + b] / [b + a]) are identified first. *)
(** second pass: a test on integers has just been analysed; the case that contradicts what is known (the same test,
    respelt, was analysed before: [x & 0x80] / [x >= 128] for an octet x, [n] / [n > 0] for a masked n) ends here *)
Ltac is_int_test x :=
  let T := type of x in constr_eq T bool;
  lazymatch x with
  | context [Z.eqb] => idtac | context [Z.ltb] => idtac | context [Z.leb] => idtac
  | context [Z.gtb] => idtac | context [Z.geb] => idtac | context [truthy] => idtac
  end.
Ltac x_prune x := try (if_x ltac:(is_int_test x; solve [ exfalso; zleaf_x ])).
Ltac break_match :=
  match goal with
  | |- context [match ?x with _ => _ end] =>
      no_match x;
      first [ match goal with H : x = _ |- _ => rewrite H end
            | sync_hyp x
            | sync_goal x; destruct x eqn:?; x_prune x ]
  end.

Ltac units := repeat match goal with u : unit |- _ => destruct u end.

(** equations between constructor forms, left behind by the case analyses *)
Ltac tidy :=
  repeat match goal with
  | H : Ok _ = Ok _ |- _ => inversion H; clear H; try subst
  | H : Err _ = Err _ |- _ => inversion H; clear H; try subst
  | H : Some _ = Some _ |- _ => inversion H; clear H; try subst
  | H : pair _ _ = pair _ _ |- _ => inversion H; clear H; try subst
  | H : Ok _ = Err _ |- _ => discriminate H
  | H : Err _ = Ok _ |- _ => discriminate H
  | H : Some _ = None |- _ => discriminate H
  | H : None = Some _ |- _ => discriminate H
  end.

(** * The fallback of the cascade: case analysis instead of congruence.
    When the two sides do not have the same shape -- a helper was extracted (the regenerated text binds it
    by a local [let h := fun ... in], so that unfolding it is zeta/beta), a [bind] on one side is an explicit
    [match] on the other -- the combinators and the local definitions are unfolded (beta/iota/zeta, delta on
    the combinators only) and an innermost scrutinee is destructed, one at a time, as in Bridge/B_dec_lib.v;
    loops with the same fuel and initial state are compared body against body.  [callees] rewrites with the
    bridges of the definitions that the two sides call (they need not be convertible). *)
Ltac lexpose :=
  cbv beta iota zeta delta [bind mbind sbind catch fst snd map_ctl map_lres obs_ctl truthy]; unfold_tperms.
(* second pass, a goal with no case analysis left: what is known is contradictory (with the bit facts) *)
(* [idtac;]: a tactic that begins with a [match] would be run while it is being passed as an argument (to [if_x]) *)
Ltac x_leaf_false :=
  idtac;
  lazymatch goal with
  | |- context [match _ with _ => _ end] => fail
  | _ => exfalso; zleaf_x
  end.
Ltac lfinish :=
  units; tidy;
  solve [ reflexivity | congruence | (exfalso; len_facts; lia) | (exfalso; congruence) | zcong
        | (exfalso; unfold truthy in *; len_facts; lia)
        | if_x ltac:(x_leaf_false) ].

(** [for x in enumerate(xs, a)]: the index can be shifted into the body *)
Lemma enumerate_from_shift {A} (k : Z) (xs : list A) : forall a,
  enumerate_from (a + k) xs = map (fun ix => (fst ix + k, snd ix)) (enumerate_from a xs).
Proof.
  induction xs as [|x r IH]; intros a; cbn [enumerate_from map fst snd]; [reflexivity|].
  replace (a + k + 1) with (a + 1 + k) by lia. rewrite IH. reflexivity.
Qed.
Lemma for_each_map_list {A B S R} (m : A -> B) (f : B -> S -> ctl S R) : forall xs s,
  for_each (map m xs) f s = for_each xs (fun a => f (m a)) s.
Proof.
  induction xs as [|x r IH]; intros s; cbn [for_each map]; [reflexivity|].
  destruct (f (m x) s); auto.
Qed.
Lemma for_each_enumerate_0 {A S R} (a : Z) (xs : list A) (f : Z * A -> S -> ctl S R) s :
  for_each (enumerate_from a xs) f s = for_each (enumerate_from 0 xs) (fun ix => f (fst ix + a, snd ix)) s.
Proof. rewrite <- (Z.add_0_l a) at 1. rewrite enumerate_from_shift, for_each_map_list. reflexivity. Qed.

(** Two loops of the goal that should be one: same fuel / same list and
    - the same initial state: compared body against body;
    - initial states that are permutations of each other (the state is the tuple of the variables the
      body assigns, in an order that an edit of the body can change): compared under that permutation;
    - [enumerate(xs, a)] against [enumerate(xs)]: the start is moved into the body first. *)
Ltac loop_sync tac :=
  match goal with
  | |- context [for_each (enumerate_from ?a ?xs) ?f ?s] =>
      lazymatch a with 0 => fail | _ => rewrite (for_each_enumerate_0 a xs f s) end
  | |- context [while_fuel ?n ?f ?s] =>
      match goal with |- context [while_fuel n ?g s] =>
        differ f g; rewrite (while_fuel_ext f g) by (intros; destruct_pairs; tac) end
  | |- context [for_each ?xs ?f ?s] =>
      match goal with |- context [for_each xs ?g s] =>
        differ f g; rewrite (for_each_ext f g) by (intros; destruct_pairs; tac) end
  | |- context [while_fuel ?n ?g ?s] =>
      match goal with |- context [while_fuel n ?h ?t] =>
        differ s t;
        each_tperm ltac:(fun f =>
          let E := fresh in
          assert (E : t = f s) by (unfold_tperms; zcong);
          rewrite E; clear E;
          rewrite (while_fuel_map f g h) by (intros; destruct_pairs; unfold_tperms; tac)) end
  | |- context [for_each ?xs ?g ?s] =>
      match goal with |- context [for_each xs ?h ?t] =>
        differ s t;
        each_tperm ltac:(fun f =>
          let E := fresh in
          assert (E : t = f s) by (unfold_tperms; zcong);
          rewrite E; clear E;
          rewrite (for_each_map f g h) by (intros; destruct_pairs; unfold_tperms; tac)) end
  end.
(** [loop_obs tac]: the two loops of the goal (same fuel, initial states equal up to a permutation) are identified
    by [while_fuel_obs].  The contexts are read off the goal ([pattern]); the invariant is the conjunction of the
    equations [p (component of the state) = p x] -- for the terms [p x] of the two bodies in which [x] is a
    variable of the context that is also a component of the initial state, [p] a constant (a field) -- that the
    first body preserves (each candidate is tried, those that are not preserved are dropped). *)
Ltac tuple_has s0 x :=
  lazymatch s0 with
  | (?a, ?b) => first [ constr_eq b x | tuple_has a x ]
  | _ => constr_eq s0 x
  end.
Ltac sel_of T s0 x :=
  lazymatch s0 with
  | (?a, ?b) =>
      lazymatch b with
      | x => constr:(fun s : T => snd s)
      | _ => lazymatch eval cbv beta in T with
             | (?Ta * _)%type => let f := sel_of Ta a x in constr:(fun s : T => f (fst s))
             end
      end
  | _ => constr:(fun s : T => s)
  end.
(** the case analysis of a body, for a goal [match body with Next s' => I s' | _ => True end] *)
Ltac pres_leaf :=
  cbv beta iota delta [fst snd]; first [ exact Logic.I | cbn; solve [ assumption | congruence | lia ] ].
Ltac pres_tac callees :=
  intros; destruct_pairs;
  repeat match goal with H : _ |- _ => progress cbv beta iota delta [fst snd] in H end;
  repeat (lexpose; callees; first [ pres_leaf | break_match ]).
(** [mk]: the preservation statement for a candidate ([pres g] / [pres_e g]); [cj]: the conjunction lemma *)
Ltac grow_inv_gen T s0 bodies callees mk cj :=
  repeat match goal with
  | HP : ?Q |- _ =>
      let I := lazymatch Q with pres _ ?J => J | pres_e _ ?J => J end in
      match bodies with
      | context [?p ?x] =>
          is_var x; let hp := head_of p in is_const hp; tuple_has s0 x;
          let sel := sel_of T s0 x in
          let c := eval cbv beta in (fun s : T => p (sel s) = p x) in
          lazymatch I with context [c] => fail | _ => idtac end;
          let Hc := fresh in
          let stmt := mk c in
          assert (Hc : stmt) by (unfold pres_e, pres; pres_tac callees);
          let HP' := fresh in
          let pf := cj c I Hc HP in
          pose proof pf as HP'; clear HP Hc
      end
  end.
Ltac split_inv :=
  repeat match goal with
  | H : _ /\ _ |- _ => destruct H
  | H : True |- _ => clear H
  end.
Ltac obs_side tac :=
  intros; destruct_pairs;
  repeat match goal with H : _ |- _ => progress cbv beta iota delta [fst snd] in H end;
  split_inv; unfold_tperms; cbv beta iota; tac.
Ltac loop_obs_at callees tac L R n g s h t f :=
  let E := fresh "E" in
  assert (E : t = f s) by (unfold_tperms; cbv beta; zcong);
  let T := type of s in
  let P1 := lazymatch (eval pattern (while_fuel n g s) in L) with ?P _ => P end in
  let P2 := lazymatch (eval pattern (while_fuel n h t) in R) with ?P _ => P end in
  pose proof (pres_true g);
  grow_inv_gen T s (g, h) callees ltac:(fun c => constr:(pres g c)) ltac:(fun c I Hc HP => constr:(pres_conj g c I Hc HP));
  lazymatch goal with
  | HP : pres g ?I |- _ =>
      change (P1 (while_fuel n g s) = P2 (while_fuel n h t));
      apply (while_fuel_obs_at f I g h P1 P2 n s t);
      [ clear HP E; obs_side tac | clear HP E; obs_side tac | exact HP | exact E
      | cbv beta iota delta [fst snd]; repeat split; reflexivity ]
  end.
Ltac loop_obs_at_e callees tac L R xs g s h t f :=
  let E := fresh "E" in
  assert (E : t = f s) by (unfold_tperms; cbv beta; zcong);
  let T := type of s in
  let P1 := lazymatch (eval pattern (for_each xs g s) in L) with ?P _ => P end in
  let P2 := lazymatch (eval pattern (for_each xs h t) in R) with ?P _ => P end in
  pose proof (pres_e_true g);
  grow_inv_gen T s (g, h) callees ltac:(fun c => constr:(pres_e g c)) ltac:(fun c I Hc HP => constr:(pres_e_conj g c I Hc HP));
  lazymatch goal with
  | HP : pres_e g ?I |- _ =>
      change (P1 (for_each xs g s) = P2 (for_each xs h t));
      apply (for_each_obs_at f I g h P1 P2 xs s t);
      [ clear HP E; obs_side tac | clear HP E; obs_side tac | exact HP | exact E
      | cbv beta iota delta [fst snd]; repeat split; reflexivity ]
  end.
(** the views of a tuple type [T] as a tuple type [U]: every component of [U] is some component of [T] (a variable
    that only one of the two loops has -- the octet read by the test of [while (b := data[i]) >= 128:], that the
    code after the loop uses -- is dropped; [while_fuel_obs] does not ask [f] to be a bijection).  The views that do
    not fit the initial states (types, values) are refused at once by [loop_obs_at]. *)
Ltac each_comp T kont :=
  lazymatch T with
  | (?A * ?B)%type =>
      first [ kont constr:(fun s : T => snd s)
            | each_comp A ltac:(fun g => let c := eval cbv beta in (fun s : T => g (fst s)) in kont c) ]
  | _ => kont constr:(fun s : T => s)
  end.
Ltac each_view T U kont :=
  lazymatch U with
  | (?A * ?B)%type =>
      each_view T A ltac:(fun fa =>
        each_comp T ltac:(fun gb =>
          let c := eval cbv beta in (fun s : T => (fa s, gb s)) in kont c))
  | _ => each_comp T kont
  end.
Ltac tuple_arity T := lazymatch T with (?A * _)%type => let n := tuple_arity A in constr:(Datatypes.S n) | _ => constr:(1%nat) end.
Ltac loop_obs_views s t k :=
  let T := type of s in let U := type of t in
  let T := eval cbv beta in T in let U := eval cbv beta in U in
  let a := tuple_arity T in let b := tuple_arity U in
  lazymatch eval vm_compute in (Nat.ltb b a) with
  | true => each_view T U k
  end.
Ltac loop_obs_dir callees tac :=
  lazymatch goal with
  | |- ?L = ?R =>
      lazymatch L with
      | context [while_fuel ?n ?g ?s] =>
          lazymatch R with context [while_fuel n ?h ?t] =>
            differ g h;     (* the same loop on both sides is left to [loop_destruct] *)
            first [ loop_obs_at callees tac L R n g s h t uconstr:(fun x => x)
                  | each_tperm ltac:(fun f => loop_obs_at callees tac L R n g s h t f)
                  | loop_obs_views s t ltac:(fun f => loop_obs_at callees tac L R n g s h t f) ]
          end
      | context [for_each ?xs ?g ?s] =>
          lazymatch R with context [for_each xs ?h ?t] =>
            differ g h;
            first [ loop_obs_at_e callees tac L R xs g s h t uconstr:(fun x => x)
                  | each_tperm ltac:(fun f => loop_obs_at_e callees tac L R xs g s h t f)
                  | loop_obs_views s t ltac:(fun f => loop_obs_at_e callees tac L R xs g s h t f) ]
          end
      end
  end.
Ltac loop_obs callees tac :=
  first [ loop_obs_dir callees tac | (symmetry; loop_obs_dir callees tac) ].

(** a loop that has no counterpart left to be identified with: its result is analysed *)
Ltac loop_destruct :=
  match goal with
  | |- context [while_fuel ?n ?g ?s] => destruct (while_fuel n g s) eqn:?; destruct_pairs
  | |- context [for_each ?xs ?g ?s] => destruct (for_each xs g s) eqn:?; destruct_pairs
  end.

(** * A parameter confined to a small range by a guard: one case per value, then computation.
    ([mask = 0xFF >> (8 - n)] against [2^n - 1] read from a table are equal for n = 1..8 only.) *)
Ltac fold_consts :=
  repeat match goal with
  | |- context [?op ?a ?b] =>
      znum a; znum b; let T := type of (op a b) in constr_eq T Z;
      let v := eval vm_compute in (op a b) in znum v; change (op a b) with v
  | H : context [?op ?a ?b] |- _ =>
      znum a; znum b; let T := type of (op a b) in constr_eq T Z;
      let v := eval vm_compute in (op a b) in znum v; change (op a b) with v in H
  end.
(** [index_Z <constant table> <constant> = Ok v]: v is known *)
Ltac fold_lookups :=
  repeat match goal with
  | H : @index_Z ?T ?l ?i = Ok ?v |- _ =>
      is_var v; znum i;
      let r := eval vm_compute in (@index_Z T l i) in
      lazymatch r with
      | Ok ?c => let E := fresh in
                 assert (E : v = c) by (cut (Ok v = Ok c); [congruence | rewrite <- H; vm_compute; reflexivity]);
                 subst v; clear H
      end
  | H : @index_Z ?T ?l ?i = Err _ |- _ =>
      znum i;
      let r := eval vm_compute in (@index_Z T l i) in
      lazymatch r with Ok ?c => exfalso; cut (@index_Z T l i = Ok c); [congruence | vm_compute; reflexivity] end
  end.
Ltac split_from p a b :=
  let over := eval vm_compute in (b <? a) in
  lazymatch over with
  | true => exfalso; lia
  | false =>
      let a' := eval vm_compute in (a + 1) in
      let H := fresh in
      assert (H : p = a \/ a' <= p) by lia; destruct H as [H|H]; [subst p | split_from p a' b]
  end.
Ltac range_split :=
  match goal with
  | _ : context [?c1 ?p ?a] |- _ =>
      is_var p; znum a; let T := type of p in constr_eq T Z;
      match goal with
      | _ : context [?c2 p ?b] |- _ =>
          znum b;
          let small := eval vm_compute in ((a <=? b) && (b - a <=? 32)) in
          lazymatch small with true => idtac end;
          let R := fresh in
          first [ assert (R : a <= p <= b) by lia | assert (R : a - 1 <= p <= b + 1) by lia ];
          first [ split_from p a b | let a' := eval vm_compute in (a - 1) in let b' := eval vm_compute in (b + 1) in
                                     split_from p a' b' ]
      end
  end; fold_consts; fold_lookups; fold_consts.

(** [lcrush]: every goal must be closed; the first one that cannot be stops everything (a bridge that does not
    hold, or a wrong guess of [loop_sync], fails on its first stuck case instead of exploring them all).
    [lcrush_show] is the same but leaves the stuck goals, for inspection. *)
Ltac lstep callees self :=
  first [ loop_sync ltac:(self) | break_match | loop_obs callees ltac:(self) | loop_destruct | range_split ].
Ltac lcrush callees :=
  lexpose; callees; first [ lfinish | (lstep callees ltac:(lcrush callees); lcrush callees) ].
Ltac lcrush_show callees :=
  repeat (lexpose; callees; first [ lfinish | lstep callees ltac:(lcrush callees) ]).

(* small integer constants of the source and of the model are unfolded to their values, so that
   [lia] can compare tests written against them (redefined in Bridge/BridgeConsts.v) *)
Ltac norm_consts := idtac.
Ltac unfold_heads :=
  match goal with
  | |- ?l = ?r => let hl := head_of l in let hr := head_of r in cbv delta [hl hr]
  end.
Ltac bridge_auto := intros; unfold_heads; norm_consts; repeat (cbv beta iota; bstep).
(** the case analysis; if it fails, once more in x-mode *)
Ltac bridge_crush callees :=
  intros; unfold_heads; norm_consts; first [ lcrush callees | (xmode_on; lcrush callees) ].
(** [bridge_with callees]: the cascade for a definition that calls other bridged definitions *)
Ltac bridge_with callees :=
  first [ reflexivity | (intros; reflexivity) | solve [ bridge_auto ] | solve [ intros; xmode_on; bridge_auto ]
        | solve [ bridge_crush callees ] ].
Ltac bridge := bridge_with idtac.
