(** The bridge cascade: [G.f x = M.f x] for a regenerated definition G.f and its frozen model
    M.f.  First [reflexivity] (succeeds whenever the regenerated text is convertible with the
    frozen one: renamed locals, reordered lets, extracted helpers); otherwise a
    structure-following tactic: same-scrutinee case analysis, congruence under binds, loops
    and catch, and [lia]-proved rewrites between boolean comparisons. *)
From Coq Require Import ZArith List Bool Lia ZifyBool.
From HV Require Import Prelude.Py Prelude.State.
Import ListNotations.
Open Scope Z_scope.
Ltac Zify.zify_post_hook ::= Z.to_euclidean_division_equations.

Lemma while_fuel_ext {S R} (f g : S -> ctl S R) :
  (forall s, f s = g s) -> forall fuel s, while_fuel fuel f s = while_fuel fuel g s.
Proof.
  intros H fuel; induction fuel as [|k IH]; intros s; cbn [while_fuel]; [reflexivity|].
  rewrite H. destruct (g s); auto.
Qed.
Lemma for_each_ext {A S R} (f g : A -> S -> ctl S R) :
  (forall a s, f a s = g a s) -> forall xs s, for_each xs f s = for_each xs g s.
Proof.
  intros H xs; induction xs as [|x xs IH]; intros s; cbn [for_each]; [reflexivity|].
  rewrite H. destruct (g x s); auto.
Qed.
Lemma bind_cong {A B} (m1 m2 : outcome A) (k1 k2 : A -> outcome B) :
  m1 = m2 -> (forall x, k1 x = k2 x) -> bind m1 k1 = bind m2 k2.
Proof. intros -> H. destruct m2; cbn; auto. Qed.
Lemma mbind_cong {S A B} (m1 m2 : outcome A) (s : S) (k1 k2 : A -> outcome B * S) :
  m1 = m2 -> (forall x, k1 x = k2 x) -> mbind m1 s k1 = mbind m2 s k2.
Proof. intros -> H. destruct m2; cbn; auto. Qed.
Lemma sbind_cong {S A B} (m1 m2 : outcome A * S) (k1 k2 : A -> S -> outcome B * S) :
  m1 = m2 -> (forall x s, k1 x s = k2 x s) -> sbind m1 k1 = sbind m2 k2.
Proof. intros -> H. destruct m2 as [[a|e] s]; cbn; auto. Qed.

(* equivalent spellings of integer tests and masks *)
Lemma cmp_gt_ge x c : (x >? c) = (x >=? c + 1). Proof. lia. Qed.
Lemma cmp_ge_gt x c : (x >=? c) = (x >? c - 1). Proof. lia. Qed.
Lemma cmp_lt_le x c : (x <? c) = (x <=? c - 1). Proof. lia. Qed.
Lemma cmp_le_lt x c : (x <=? c) = (x <? c + 1). Proof. lia. Qed.
Lemma cmp_gt_lt x y : (x >? y) = (y <? x). Proof. lia. Qed.
Lemma cmp_ge_le x y : (x >=? y) = (y <=? x). Proof. lia. Qed.
Lemma cmp_ne_lt x y : negb (x =? y) = ((x <? y) || (y <? x)). Proof. lia. Qed.

Ltac norm_cmp :=
  repeat match goal with
  | |- context [?x >? ?y] => rewrite (cmp_gt_lt x y)
  | |- context [?x >=? ?y] => rewrite (cmp_ge_le x y)
  end.
Ltac bool_eq := solve [ reflexivity | lia | (norm_cmp; lia) ].

Ltac destruct_pairs :=
  repeat match goal with p : (_ * _)%type |- _ => destruct p end.

Ltac arith_eq := solve [ reflexivity | lia | (f_equal; lia) | (norm_cmp; lia) ].

Ltac bstep :=
  match goal with
  | |- ?a = ?a => reflexivity
  (* local definitions, one at a time: equal bound terms (up to arithmetic) are identified first *)
  | |- (let x := ?a in @?f x) = (let y := ?b in @?g y) =>
      first [ constr_eq a b | replace a with b by arith_eq | idtac ];
      match goal with |- (let x := ?a' in @?f' x) = (let y := ?b' in @?g' y) => change (f' a' = g' b') end; cbv beta
  | |- (let x := ?a in @?f x) = ?r => change (f a = r); cbv beta
  | |- ?l = (let y := ?b in @?g y) => change (l = g b); cbv beta
  | |- (if ?c then _ else _) = (if ?c then _ else _) => destruct c eqn:?
  | |- (if negb ?c then _ else _) = _ => destruct c eqn:?; cbn [negb]
  | |- _ = (if negb ?c then _ else _) => destruct c eqn:?; cbn [negb]
  | |- (if ?c then _ else _) = (if ?d then _ else _) =>
      let H := fresh in assert (H : c = d) by bool_eq; rewrite H; clear H
  | |- bind ?m _ = bind ?m _ => destruct m eqn:?; cbn [bind]
  | |- bind _ _ = bind _ _ => apply bind_cong; [|intros; destruct_pairs]
  | |- mbind _ ?s _ = mbind _ ?s _ => apply mbind_cong; [|intros; destruct_pairs]
  | |- sbind _ _ = sbind _ _ => apply sbind_cong; [|intros; destruct_pairs]
  | |- catch ?a ?b _ = catch ?a ?b _ => f_equal
  | |- Ok _ = Ok _ => f_equal
  | |- (_, _) = (_, _) => f_equal
  | |- match while_fuel ?n ?f ?s with _ => _ end = match while_fuel ?n ?g ?s with _ => _ end =>
        rewrite (while_fuel_ext f g) by (intros; destruct_pairs; repeat (cbv beta iota; bstep))
  | |- match for_each ?xs ?f ?s with _ => _ end = match for_each ?xs ?g ?s with _ => _ end =>
        rewrite (for_each_ext f g) by (intros; destruct_pairs; repeat (cbv beta iota; bstep))
  | |- match ?m with _ => _ end = match ?m with _ => _ end => destruct m eqn:?
  | |- Next _ = Next _ => f_equal
  | |- Break _ = Break _ => f_equal
  | |- Return _ _ = Return _ _ => f_equal
  | |- Raise _ _ = Raise _ _ => f_equal
  | |- _ = _ => solve [ lia | (f_equal; lia) | (repeat f_equal; lia) | reflexivity ]
  end.

(* small integer constants of the source and of the model are unfolded to their values, so that
   [lia] can compare tests written against them (redefined in Bridge/BridgeConsts.v) *)
Ltac norm_consts := idtac.
Ltac head_of t := match t with ?f _ => head_of f | _ => t end.
Ltac unfold_heads :=
  match goal with
  | |- ?l = ?r => let hl := head_of l in let hr := head_of r in cbv delta [hl hr]
  end.
Ltac bridge_auto := intros; unfold_heads; norm_consts; repeat (cbv beta iota; bstep).
Ltac bridge := first [ reflexivity | (intros; reflexivity) | bridge_auto ].
