(** The bridge cascade: [G.f x = M.f x] for a regenerated definition G.f and its frozen model
    M.f.  First [reflexivity] (succeeds whenever the regenerated text is convertible with the
    frozen one: renamed locals, reordered lets, extracted helpers); otherwise a
    structure-following tactic: same-scrutinee case analysis, congruence under binds, loops
    and catch, and [lia]-proved rewrites between boolean comparisons. *)
From Coq Require Import ZArith List Bool Lia ZifyBool Btauto.
From HV Require Import Prelude.Py Prelude.State.
Import ListNotations.
Open Scope Z_scope.
Ltac Zify.zify_post_hook ::= Z.to_euclidean_division_equations.

Lemma while_fuel_ext {S R} (f g : S -> ctl S R) :
  (forall s, f s = g s) -> forall fuel s, while_fuel fuel f s = while_fuel fuel g s.
Proof.
  intros H fuel; induction fuel as [|k IH]; intros s; cbn [while_fuel]; [reflexivity|].
  rewrite H. destruct (g s); auto.
Qed.
Lemma for_each_ext {A S R} (f g : A -> S -> ctl S R) :
  (forall a s, f a s = g a s) -> forall xs s, for_each xs f s = for_each xs g s.
Proof.
  intros H xs; induction xs as [|x xs IH]; intros s; cbn [for_each]; [reflexivity|].
  rewrite H. destruct (g x s); auto.
Qed.
Lemma bind_cong {A B} (m1 m2 : outcome A) (k1 k2 : A -> outcome B) :
  m1 = m2 -> (forall x, k1 x = k2 x) -> bind m1 k1 = bind m2 k2.
Proof. intros -> H. destruct m2; cbn; auto. Qed.
Lemma mbind_cong {S A B} (m1 m2 : outcome A) (s : S) (k1 k2 : A -> outcome B * S) :
  m1 = m2 -> (forall x, k1 x = k2 x) -> mbind m1 s k1 = mbind m2 s k2.
Proof. intros -> H. destruct m2; cbn; auto. Qed.
Lemma sbind_cong {S A B} (m1 m2 : outcome A * S) (k1 k2 : A -> S -> outcome B * S) :
  m1 = m2 -> (forall x s, k1 x s = k2 x s) -> sbind m1 k1 = sbind m2 k2.
Proof. intros -> H. destruct m2 as [[a|e] s]; cbn; auto. Qed.

(* equivalent spellings of integer tests and masks *)
Lemma cmp_gt_ge x c : (x >? c) = (x >=? c + 1). Proof. lia. Qed.
Lemma cmp_ge_gt x c : (x >=? c) = (x >? c - 1). Proof. lia. Qed.
Lemma cmp_lt_le x c : (x <? c) = (x <=? c - 1). Proof. lia. Qed.
Lemma cmp_le_lt x c : (x <=? c) = (x <? c + 1). Proof. lia. Qed.
Lemma cmp_gt_lt x y : (x >? y) = (y <? x). Proof. lia. Qed.
Lemma cmp_ge_le x y : (x >=? y) = (y <=? x). Proof. lia. Qed.
Lemma cmp_ne_lt x y : negb (x =? y) = ((x <? y) || (y <? x)). Proof. lia. Qed.

Ltac norm_cmp :=
  repeat match goal with
  | |- context [?x >? ?y] => rewrite (cmp_gt_lt x y)
  | |- context [?x >=? ?y] => rewrite (cmp_ge_le x y)
  end.
Ltac bool_eq := solve [ reflexivity | lia | (norm_cmp; lia) ].

Ltac destruct_pairs :=
  repeat match goal with p : (_ * _)%type |- _ => destruct p end.

Ltac arith_eq := solve [ reflexivity | lia | (f_equal; lia) | (norm_cmp; lia) ].

Ltac bstep :=
  match goal with
  | |- ?a = ?a => reflexivity
  (* local definitions, one at a time: equal bound terms (up to arithmetic) are identified first *)
  | |- (let x := ?a in @?f x) = (let y := ?b in @?g y) =>
      first [ constr_eq a b | replace a with b by arith_eq | idtac ];
      match goal with |- (let x := ?a' in @?f' x) = (let y := ?b' in @?g' y) => change (f' a' = g' b') end; cbv beta
  | |- (let x := ?a in @?f x) = ?r => change (f a = r); cbv beta
  | |- ?l = (let y := ?b in @?g y) => change (l = g b); cbv beta
  | |- (if ?c then _ else _) = (if ?c then _ else _) => destruct c eqn:?
  | |- (if negb ?c then _ else _) = _ => destruct c eqn:?; cbn [negb]
  | |- _ = (if negb ?c then _ else _) => destruct c eqn:?; cbn [negb]
  | |- (if ?c then _ else _) = (if ?d then _ else _) =>
      let H := fresh in assert (H : c = d) by bool_eq; rewrite H; clear H
  | |- bind ?m _ = bind ?m _ => destruct m eqn:?; cbn [bind]
  | |- bind _ _ = bind _ _ => apply bind_cong; [|intros; destruct_pairs]
  | |- mbind _ ?s _ = mbind _ ?s _ => apply mbind_cong; [|intros; destruct_pairs]
  | |- sbind _ _ = sbind _ _ => apply sbind_cong; [|intros; destruct_pairs]
  | |- catch ?a ?b _ = catch ?a ?b _ => f_equal
  | |- Ok _ = Ok _ => f_equal
  | |- (_, _) = (_, _) => f_equal
  | |- match while_fuel ?n ?f ?s with _ => _ end = match while_fuel ?n ?g ?s with _ => _ end =>
        rewrite (while_fuel_ext f g) by (intros; destruct_pairs; repeat (cbv beta iota; bstep))
  | |- match for_each ?xs ?f ?s with _ => _ end = match for_each ?xs ?g ?s with _ => _ end =>
        rewrite (for_each_ext f g) by (intros; destruct_pairs; repeat (cbv beta iota; bstep))
  | |- match ?m with _ => _ end = match ?m with _ => _ end => destruct m eqn:?
  | |- Next _ = Next _ => f_equal
  | |- Break _ = Break _ => f_equal
  | |- Return _ _ = Return _ _ => f_equal
  | |- Raise _ _ = Raise _ _ => f_equal
  | |- _ = _ => solve [ lia | (f_equal; lia) | (repeat f_equal; lia) | reflexivity ]
  end.

Ltac head_of t := match t with ?f _ => head_of f | _ => t end.

(** * Equalities up to arithmetic *)
Lemma len_nonneg_ {A} (l : list A) : 0 <= len l.
Proof. unfold len. lia. Qed.

(** [0 <= len l] for the lengths in sight (an emptiness test may be spelled [len l >? 0]) *)
Ltac len_facts :=
  repeat match goal with
  | |- context [len ?l] =>
      lazymatch goal with _ : 0 <= len l |- _ => fail | _ => pose proof (len_nonneg_ l) end
  | _ : context [len ?l] |- _ =>
      lazymatch goal with _ : 0 <= len l |- _ => fail | _ => pose proof (len_nonneg_ l) end
  end.

Ltac zleaf := len_facts; solve [ lia | btauto | (norm_cmp; lia) | apply Z.land_comm | apply Z.lor_comm | apply Z.lxor_comm ].

(** [a = b] when a and b have the same shape down to integer / boolean sub-terms that are equal by
    arithmetic: congruence first (so that an integer inside an uninterpreted term is found), [lia] or
    [btauto] at the outermost position where the shapes differ. *)
Ltac zcong :=
  lazymatch goal with
  | |- ?a = ?a => reflexivity
  | |- @eq ?T _ _ =>
      first [ solve [ progress f_equal; zcong ]
            | lazymatch T with Z => zleaf | bool => zleaf | nat => zleaf end ]
  end.

Ltac same_head a b := let ha := head_of a in let hb := head_of b in constr_eq ha hb.
Ltac differ a b := tryif constr_eq a b then fail else idtac.
Ltac no_match x := lazymatch x with context [match _ with _ => _ end] => fail | _ => idtac end.

(** x is about to be analysed: something equal to it up to arithmetic was analysed before *)
Ltac sync_hyp x :=
  match goal with
  | H : ?y = _ |- _ =>
      differ x y; same_head x y;
      let E := fresh in assert (E : x = y) by zcong; rewrite E; clear E; rewrite H
  end.
(** ... or is another scrutinee of the goal, which is rewritten into x *)
Ltac sync_goal x :=
  repeat match goal with
  | |- context [match ?y with _ => _ end] =>
      differ x y; same_head x y; no_match y;
      let E := fresh in assert (E : y = x) by zcong; rewrite E; clear E
  end.

(** destruct a scrutinee of the goal that contains no other match -- or, when its value is already
    known from an earlier case analysis (the two sides do not always show a scrutinee at the same
    moment), rewrite with what is known.  Scrutinees that differ only by the spelling of an integer
    or boolean sub-term ([a + b] / [b + a]) are identified first. *)
Ltac break_match :=
  match goal with
  | |- context [match ?x with _ => _ end] =>
      no_match x;
      first [ match goal with H : x = _ |- _ => rewrite H end
            | sync_hyp x
            | sync_goal x; destruct x eqn:? ]
  end.

Ltac units := repeat match goal with u : unit |- _ => destruct u end.

(** equations between constructor forms, left behind by the case analyses *)
Ltac tidy :=
  repeat match goal with
  | H : Ok _ = Ok _ |- _ => inversion H; clear H; try subst
  | H : Err _ = Err _ |- _ => inversion H; clear H; try subst
  | H : Some _ = Some _ |- _ => inversion H; clear H; try subst
  | H : pair _ _ = pair _ _ |- _ => inversion H; clear H; try subst
  | H : Ok _ = Err _ |- _ => discriminate H
  | H : Err _ = Ok _ |- _ => discriminate H
  | H : Some _ = None |- _ => discriminate H
  | H : None = Some _ |- _ => discriminate H
  end.

(** * The fallback of the cascade: case analysis instead of congruence.
    When the two sides do not have the same shape -- a helper was extracted (the regenerated text binds it
    by a local [let h := fun ... in], so that unfolding it is zeta/beta), a [bind] on one side is an explicit
    [match] on the other -- the combinators and the local definitions are unfolded (beta/iota/zeta, delta on
    the combinators only) and an innermost scrutinee is destructed, one at a time, as in Bridge/B_dec_lib.v;
    loops with the same fuel and initial state are compared body against body.  [callees] rewrites with the
    bridges of the definitions that the two sides call (they need not be convertible). *)
Ltac lexpose := cbv beta iota zeta delta [bind mbind sbind catch fst snd].
Ltac lfinish :=
  units; tidy;
  solve [ reflexivity | congruence | (exfalso; len_facts; lia) | (exfalso; congruence) | zcong ].
Ltac loop_ext tac :=
  match goal with
  | |- context [while_fuel ?n ?f ?s] =>
      match goal with |- context [while_fuel n ?g s] =>
        differ f g; rewrite (while_fuel_ext f g) by (intros; destruct_pairs; tac) end
  | |- context [for_each ?xs ?f ?s] =>
      match goal with |- context [for_each xs ?g s] =>
        differ f g; rewrite (for_each_ext f g) by (intros; destruct_pairs; tac) end
  end.
Ltac lcrush callees := repeat (lexpose; callees; first [ lfinish | loop_ext ltac:(lcrush callees) | break_match ]).

(* small integer constants of the source and of the model are unfolded to their values, so that
   [lia] can compare tests written against them (redefined in Bridge/BridgeConsts.v) *)
Ltac norm_consts := idtac.
Ltac unfold_heads :=
  match goal with
  | |- ?l = ?r => let hl := head_of l in let hr := head_of r in cbv delta [hl hr]
  end.
Ltac bridge_auto := intros; unfold_heads; norm_consts; repeat (cbv beta iota; bstep).
Ltac bridge_crush callees := intros; unfold_heads; norm_consts; lcrush callees.
(** [bridge_with callees]: the cascade for a definition that calls other bridged definitions *)
Ltac bridge_with callees :=
  first [ reflexivity | (intros; reflexivity) | solve [ bridge_auto ] | solve [ bridge_crush callees ] ].
Ltac bridge := bridge_with idtac.
