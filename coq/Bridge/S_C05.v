(** The property theorems RESTATED OVER THE REGENERATED DEFINITIONS (Gen/: what /repo's
    source says now), obtained from the theorems about the frozen model by rewriting with the
    bridge lemmas.  When this file checks, the kernel has checked the properties about the
    translation of the current source itself, not only about the frozen model. *)
From Coq Require Import ZArith List Bool.
From HV Require Import Prelude.Py Prelude.State Prelude.Utf8.
From HV Require Import Spec.IntRep Spec.HuffmanCode Spec.StaticTable Spec.DynTable Spec.SDecoder.
From HV Require Import Model.Data Model.Int Model.Table Model.Decoder Model.Encoder Model.Api.
From HV Require Import Model.Rel Model.RelEnc Model.Histories.
From HV Require Gen.GData Gen.GInt Gen.GTable Gen.GHuff Gen.GDecoder Gen.GEncoder Gen.GApi Gen.GInit.
From HV Require Import Proofs.Table Proofs.DecoderRefine Proofs.SpecDecoder Proofs.DecoderMeaning Proofs.SpecDecoderConv.
From HV Require Import Bridge.B_dec_decode.
Import ListNotations.
Open Scope Z_scope.

(** C05 on the source: the translation of Decoder.decode accepts exactly what the sequential RFC
    decoder accepts, and otherwise raises the exact error class *)
Theorem src_C05_accept_iff : forall d data raw, dec_ok d ->
  ((exists hs d', GDecoder.Decoder_decode d data raw = (Ok hs, d')) <->
   (exists r, decode KLIM (ctx_of d) data (negb raw) = SOk r)).
Proof. intros d data raw H. rewrite b_Decoder_decode. exact (accept_iff d data raw H). Qed.
Theorem src_C05_error_class : forall d data raw e d', dec_ok d ->
  GDecoder.Decoder_decode d data raw = (Err e, d') ->
  exists c, decode KLIM (ctx_of d) data (negb raw) = SErr c /\ e = exn_of c.
Proof. intros d data raw e d' H. rewrite b_Decoder_decode. exact (error_class d data raw e d' H). Qed.

(** [C05_accepts_iff_wellformed] / [C05_text_accepts_iff] are statements about the RFC decoder
    alone (no model function occurs in them); composed with the two theorems above they give, ON
    THE SOURCE: the Decoder accepts a block if and only if it is well-formed for its current
    context and limits (raw mode), and additionally all names and values are UTF-8 (text mode);
    and what it returns is the meaning of that well-formed sequence. *)
Lemma KLIM_nonneg : 0 <= KLIM. Proof. discriminate. Qed.
Theorem src_C05_accepts_iff_wellformed : forall d data, dec_ok d ->
  ((exists hs d', GDecoder.Decoder_decode d data true = (Ok hs, d')) <->
   (exists rs fs c', wire_block KLIM rs data /\ sem (ctx_of d) rs [] = Some (fs, c'))).
Proof.
  intros d data H. rewrite b_Decoder_decode, (accept_iff d data true H). cbn [negb]. split.
  - intros [[fs c'] Hr]. apply (decode_accepts_iff_wellformed KLIM _ _ _ _ KLIM_nonneg) in Hr.
    destruct Hr as (rs & A & B). exists rs, fs, c'. exact (conj A B).
  - intros (rs & fs & c' & A & B). exists (fs, c').
    apply (decode_accepts_iff_wellformed KLIM _ _ _ _ KLIM_nonneg). exists rs. exact (conj A B).
Qed.
Theorem src_C05_text_accepts_iff : forall d data, dec_ok d ->
  ((exists hs d', GDecoder.Decoder_decode d data false = (Ok hs, d')) <->
   (exists rs fs c', wire_block KLIM rs data /\ sem (ctx_of d) rs [] = Some (fs, c') /\
      forallb (fun f => utf8_valid (snd (fst f)) && utf8_valid (snd f)) fs = true)).
Proof.
  intros d data H. rewrite b_Decoder_decode, (accept_iff d data false H). cbn [negb]. split.
  - intros [[fs c'] Hr]. apply (decode_text_accepts_iff KLIM _ _ _ _ KLIM_nonneg) in Hr.
    destruct Hr as ((rs & A & B) & C). exists rs, fs, c'. exact (conj A (conj B C)).
  - intros (rs & fs & c' & A & B & C). exists (fs, c').
    apply (decode_text_accepts_iff KLIM _ _ _ _ KLIM_nonneg). split; [exists rs; exact (conj A B)|exact C].
Qed.
Theorem src_C05_accepted_meaning : forall d data raw hs d', dec_ok d ->
  GDecoder.Decoder_decode d data raw = (Ok hs, d') ->
  exists rs, wire_block KLIM rs data /\ sem (ctx_of d) rs [] = Some (map conv hs, ctx_of d').
Proof.
  intros d data raw hs d' H E. rewrite b_Decoder_decode in E.
  pose proof (decode_refines d data raw H) as R. rewrite E in R. destruct R as [R _].
  destruct raw; cbn [negb] in R.
  - apply (decode_accepts_iff_wellformed KLIM _ _ _ _ KLIM_nonneg) in R. exact R.
  - apply (decode_text_accepts_iff KLIM _ _ _ _ KLIM_nonneg) in R. exact (proj1 R).
Qed.

Print Assumptions src_C05_accept_iff.
Print Assumptions src_C05_error_class.
Print Assumptions src_C05_accepts_iff_wellformed.
Print Assumptions src_C05_text_accepts_iff.
Print Assumptions src_C05_accepted_meaning.
