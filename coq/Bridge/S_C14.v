(** The property theorems RESTATED OVER THE REGENERATED DEFINITIONS (Gen/: what /repo's
    source says now), obtained from the theorems about the frozen model by rewriting with the
    bridge lemmas.  When this file checks, the kernel has checked the properties about the
    translation of the current source itself, not only about the frozen model. *)
From Coq Require Import ZArith List Bool.
From HV Require Import Prelude.Py Prelude.State Prelude.Utf8.
From HV Require Import Spec.IntRep Spec.HuffmanCode Spec.StaticTable Spec.DynTable Spec.SDecoder.
From HV Require Model.Data Model.Int Model.Table Model.HuffEnc Model.HuffDec Model.Decoder Model.Encoder.
From HV Require Import Model.Rel Model.RelEnc.
From HV Require Gen.GData Gen.GInt Gen.GTable Gen.GHuff Gen.GDecoder Gen.GEncoder.
From HV Require Import Proofs.Int Proofs.Table Proofs.HuffSpec Proofs.HuffEnc Proofs.HuffDec Proofs.HuffRound
                       Proofs.DecoderRefine Proofs.EncoderMeaning.
From HV Require Import Bridge.B_HeaderTable_get_by_index Bridge.B_HeaderTable_search Bridge.B_static.
Import ListNotations.
Open Scope Z_scope.

Theorem src_C14_get_by_index : forall t i, Z.abs i < 10 ^ 4300 ->
  GTable.HeaderTable_get_by_index t i =
    match lookup i t.(entries) with Some e => Ok e | None => Err InvalidTableIndex end.
Proof. intros t i H. rewrite b_HeaderTable_get_by_index. exact (get_by_index_spec t i H). Qed.
Theorem src_C14_static : GData.STATIC_TABLE = static_table.
Proof. exact b_STATIC_TABLE. Qed.
Theorem src_C14_search_complete : forall t n v i, lookup i t.(entries) = Some (n, v) ->
  exists i', GTable.HeaderTable_search t n v = Ok (Some (i', n, Some v)).
Proof. intros t n v i H. rewrite b_HeaderTable_search. exact (search_complete t n v i H). Qed.

Print Assumptions src_C14_get_by_index.
Print Assumptions src_C14_static.
Print Assumptions src_C14_search_complete.
