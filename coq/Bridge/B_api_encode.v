(** Encoder.encode of the source, under the typed view of its arguments (Model.Api: container, hform,
    pystr), is the hand model Api.Encoder_encode_api = Model.Encoder.Encoder_encode on the header
    arguments of the container. *)
From Coq Require Import ZArith List Bool Lia ZifyBool.
From HV Require Import Prelude.Py Prelude.State Prelude.Utf8 Prelude.PyExtra Bridge.B_dec_lib.
From HV Require Gen.GData Gen.GInt Gen.GTable Gen.GHuff Gen.GEncoder Gen.GApi.
From HV Require Model.Data Model.Int Model.Table Model.HuffEnc Model.HuffDec Model.Decoder Model.Encoder Model.Api.
From HV Require Import Bridge.B_enc_add Bridge.B_enc_encode_table_size_change
  Bridge.B_api_to_bytes Bridge.B_api_dict_to_iterable.
Import ListNotations.
Open Scope Z_scope.

Ltac view := cbv beta iota zeta delta
  [GApi.pystr_is_bytes GApi.pystr_payload GApi.form_is_header_tuple GApi.form_indexable GApi.form_len
   GApi.form_item0 GApi.form_item1 GApi.form_item2 flag_truthy GApi.container_is_dict
   GApi.container_items GApi.container_forms
   Api.header_args Api.flag_truthy Api.container_headers negb bind mbind sbind fst snd].

(** the two loops, whose states are (header_block, self) and (self, header_block), run in lockstep:
    both end Done with the same state or Raised with the same exception and the same encoder *)
Definition same_end {R R'} (g : lres (list bytes * encoder) R) (m : lres (encoder * list bytes) R') : Prop :=
  match g, m with
  | Done (hb, s), Done (s', hb') => s = s' /\ hb = hb'
  | Raised x (_, s), Raised x' (s', _) => x = x' /\ s = s'
  | _, _ => False
  end.

Lemma b_Encoder_encode : forall e c huffman,
  GApi.Encoder_encode e c huffman = Api.Encoder_encode_api e c huffman.
Proof.
  intros e c huffman.
  unfold GApi.Encoder_encode, Api.Encoder_encode_api, Encoder.Encoder_encode, Encoder.encode_fields.
  (* helpers, local definitions and combinators inlined once and for all: the loop bodies keep this form *)
  expose.
  (* the loop *)
  match goal with
  | |- context [for_each (map Api.header_args _) ?mbody _] =>
    match goal with
    | |- context [for_each (GApi.container_forms c) ?gbody _] =>
        assert (L : forall hs hb s, same_end (for_each hs gbody (hb, s))
                                             (for_each (map Api.header_args hs) mbody (s, hb)))
    end
  end.
  { induction hs as [|h r IH]; intros hb s; cbn [for_each map]; [split; reflexivity|].
    assert (A : forall n v sens,
      GEncoder.Encoder_add s (GApi._to_bytes n, GApi._to_bytes v) sens huffman
      = Encoder.Encoder_add s (Api._to_bytes n) (Api._to_bytes v) sens huffman)
      by (intros; rewrite !b_to_bytes; apply b_Encoder_add).
    destruct h as [n v|n v [[|]|]|n v|n v]; view; rewrite A;
      match goal with |- context [Encoder.Encoder_add ?a ?b ?c ?d ?f] =>
        destruct (Encoder.Encoder_add a b c d f) as [[bl|x] s'] end;
      cbv beta iota; first [ apply IH | split; reflexivity ]. }
  (* before and after the loop, for each kind of container *)
  rewrite ?b_Encoder__encode_table_size_change.
  destruct c as [l|l|items];
    cbv beta iota delta [GApi.container_is_dict GApi.container_items GApi.container_forms Api.container_headers];
    (destruct (resized (e_tab e)); expose;
     [ destruct (Encoder.Encoder__encode_table_size_change e) as [[bl|x] s]; expose; [|reflexivity] | ]);
    rewrite ?b_dict_to_iterable;
    match goal with |- context [for_each ?hs _ (?hb, ?s0)] => specialize (L hs hb s0) end;
    unfold same_end in L;
    repeat match goal with
    | L : match ?X with _ => _ end |- _ => destruct X as [[? ?]|? [? ?]|? [? ?]|[? ?]]
    end; try contradiction; destruct L as [-> ->]; reflexivity.
Qed.
Print Assumptions b_Encoder_encode.
