(** C06 on the source, over histories: every state an Encoder or a Decoder can reach when every step (constructor
    included) is performed by the REGENERATED code satisfies the table invariant -- size accounting exact, within the
    maximum, entries = the longest fitting prefix.  (An obligation of C06: the property speaks of both classes, and a method that
    reached into the table behind HeaderTable's back would leave the table bridges intact.) *)
From Coq Require Import ZArith List Bool.
From HV Require Import Prelude.Py Prelude.State Spec.DynTable.
From HV Require Import Model.Data Model.Table Model.Decoder Model.Encoder Model.Api.
From HV Require Gen.GDecoder Gen.GEncoder Gen.GApi Gen.GInit.
From HV Require Import Proofs.Table Proofs.TableLift.
From HV Require Import Bridge.B_init_Encoder Bridge.B_init_Decoder Bridge.S_C04 Bridge.S_C09.
Import ListNotations.
Open Scope Z_scope.

Definition g_erun (ops : list eop) (e : encoder) : encoder := fold_left (fun e o => snd (g_estep e o)) ops e.
Lemma g_erun_eq : forall ops e, g_erun ops e = erun ops e.
Proof.
  unfold g_erun, erun. induction ops as [|o r IH]; intros e; cbn [fold_left]; [reflexivity|].
  rewrite g_estep_eq. apply IH.
Qed.

Theorem src_C06_decoder_always : forall ops L, TInv (g_drun ops (GInit.Decoder_init L)).(d_tab).
Proof. intros ops L. rewrite g_drun_eq, b_Decoder_init. exact (decoder_TInv ops L). Qed.

Theorem src_C06_encoder_always : forall ops, TInv (g_erun ops GInit.Encoder_init).(e_tab).
Proof. intros ops. rewrite g_erun_eq, b_Encoder_init. exact (encoder_TInv ops). Qed.

Print Assumptions src_C06_decoder_always.
Print Assumptions src_C06_encoder_always.
