(** Tactics for the bridges of hpack.Decoder / hpack.Encoder (regenerated Gen/GDecoder.v, Gen/GEncoder.v
    = hand-written Model/Decoder.v, Model/Encoder.v).

    The two sides differ in shape (join-point functions, order of lets, combinators against explicit
    matches) but scrutinise the same things in the same order.  [crush] therefore
      1. rewrites the leaf functions of the regenerated side (GInt, GTable, GHuff, GData) into the
         model's, with the bridges already proved for them, wherever their arguments are in scope;
      2. exposes the structure (combinators unfolded, lets and join points inlined: beta/iota/zeta
         only, never delta on arithmetic or data);
      3. destructs an innermost scrutinee occurring in the goal, one at a time, and loops;
    and closes each leaf by reflexivity, or by [lia] when the two sides spell a test differently. *)
From Coq Require Import ZArith List Bool Lia ZifyBool Btauto.
From HV Require Import Prelude.Py Prelude.State Prelude.Utf8 Prelude.PyExtra.
From HV Require Gen.GData Gen.GInt Gen.GTable Gen.GHuff.
From HV Require Model.Data Model.Int Model.Table Model.HuffEnc Model.HuffDec Model.Decoder Model.Encoder.
From HV Require Export Bridge.BridgeTac.
From HV Require Export Bridge.B_consts Bridge.B_decode_integer Bridge.B_encode_integer Bridge.B_table_entry_size
  Bridge.B_HeaderTable_add Bridge.B_HeaderTable_get_by_index Bridge.B_HeaderTable_search
  Bridge.B_HeaderTable_set_maxsize Bridge.B_HeaderTable__shrink Bridge.B_dec_huffman_m Bridge.B_codes_eq.
Import ListNotations.
Open Scope Z_scope.

(** * Loops whose states are the same variables in another order *)
Definition map_ctl {S T R} (f : S -> T) (c : ctl S R) : ctl T R :=
  match c with Next s => Next (f s) | Break s => Break (f s) | Return r s => Return r (f s) | Raise e s => Raise e (f s) end.
Definition map_lres {S T R} (f : S -> T) (c : lres S R) : lres T R :=
  match c with Done s => Done (f s) | Returned r s => Returned r (f s) | Raised e s => Raised e (f s)
             | Exhausted s => Exhausted (f s) end.

Lemma while_fuel_map {S T R} (f : S -> T) (g : S -> ctl S R) (h : T -> ctl T R) :
  (forall s, h (f s) = map_ctl f (g s)) ->
  forall fuel s, while_fuel fuel h (f s) = map_lres f (while_fuel fuel g s).
Proof.
  intros H fuel; induction fuel as [|k IH]; intros s; cbn [while_fuel map_lres]; [reflexivity|].
  rewrite H. destruct (g s); cbn [map_ctl map_lres]; auto.
Qed.

Lemma for_each_map {A S T R} (f : S -> T) (g : A -> S -> ctl S R) (h : A -> T -> ctl T R) :
  (forall a s, h a (f s) = map_ctl f (g a s)) ->
  forall xs s, for_each xs h (f s) = map_lres f (for_each xs g s).
Proof.
  intros H xs; induction xs as [|x xs IH]; intros s; cbn [for_each map_lres]; [reflexivity|].
  rewrite H. destruct (g x s); cbn [map_ctl map_lres]; auto.
Qed.

(** Nothing below may depend on the regenerated leaves being convertible with the model's (they are
    equal by their bridges, which need not be [reflexivity]), nor unfold a table. *)
Global Opaque GInt.decode_integer GInt.encode_integer GTable.table_entry_size GTable.HeaderTable_add
  GTable.HeaderTable_get_by_index GTable.HeaderTable_search GTable.HeaderTable_set_maxsize
  GTable.HeaderTable__shrink GHuff.decode_huffman GHuff.HuffmanEncoder_encode
  Int.decode_integer Int.encode_integer Table.table_entry_size Table.HeaderTable_add
  Table.HeaderTable_get_by_index Table.HeaderTable_search Table.HeaderTable_set_maxsize
  Table.HeaderTable__shrink HuffDec.decode_huffman HuffEnc.HuffmanEncoder_encode
  Decoder.decode_huffman_m Encoder.huffman_encode_m Encoder.huffman_coder
  GData.HUFFMAN_TABLE Data.HUFFMAN_TABLE GData.REQUEST_CODES GData.REQUEST_CODES_LENGTH
  Data.REQUEST_CODES Data.REQUEST_CODES_LENGTH GData.STATIC_TABLE Data.STATIC_TABLE
  GData.STATIC_TABLE_MAPPING Data.STATIC_TABLE_MAPPING
  GData.INDEX_NONE GData.INDEX_NEVER GData.INDEX_INCREMENTAL Data.INDEX_NONE Data.INDEX_NEVER Data.INDEX_INCREMENTAL.

(** the regenerated leaves, rewritten into the model's *)
Ltac leaf :=
  rewrite ?b_decode_integer, ?b_encode_integer, ?b_table_entry_size,
          ?b_HeaderTable_add, ?b_HeaderTable_get_by_index, ?b_HeaderTable_search,
          ?b_HeaderTable_set_maxsize, ?b_HeaderTable__shrink,
          ?b_decode_huffman_m, ?b_huffman_encode_m,
          ?b_INDEX_NONE, ?b_INDEX_NEVER, ?b_INDEX_INCREMENTAL.

Ltac expose :=
  cbv beta iota zeta delta [bind mbind sbind nbind catch Encoder.lift_tab fst snd map_ctl map_lres
                            Decoder.h_name Decoder.h_value Decoder.h_class].

(* the generic steps (zcong, break_match with scrutinee synchronisation, tidy, ...) are in Bridge/BridgeTac.v *)

Ltac leaf_hyps :=
  try rewrite ?b_table_entry_size in *.

Ltac finish :=
  units; tidy; leaf_hyps;
  solve [ reflexivity | congruence | (exfalso; len_facts; lia) | (exfalso; congruence) | zcong ].

Ltac crush := repeat (expose; leaf; first [ finish | break_match ]).
(** the same with the bridges of the callees (a tactic that rewrites with them where it can) *)
Ltac crush_with callees := repeat (expose; callees; leaf; first [ finish | break_match ]).
