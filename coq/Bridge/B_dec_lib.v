(** Tactics for the bridges of hpack.Decoder / hpack.Encoder (regenerated Gen/GDecoder.v, Gen/GEncoder.v
    = hand-written Model/Decoder.v, Model/Encoder.v).

    The two sides differ in shape (join-point functions, order of lets, combinators against explicit
    matches) but scrutinise the same things in the same order.  [crush] therefore
      1. rewrites the leaf functions of the regenerated side (GInt, GTable, GHuff, GData) into the
         model's, with the bridges already proved for them, wherever their arguments are in scope;
      2. exposes the structure (combinators unfolded, lets and join points inlined: beta/iota/zeta
         only, never delta on arithmetic or data);
      3. destructs an innermost scrutinee occurring in the goal, one at a time, and loops;
    and closes each leaf by reflexivity, or by [lia] when the two sides spell a test differently. *)
From Coq Require Import ZArith List Bool Lia ZifyBool Btauto.
From HV Require Import Prelude.Py Prelude.State Prelude.Utf8 Prelude.PyExtra.
From HV Require Gen.GData Gen.GInt Gen.GTable Gen.GHuff.
From HV Require Model.Data Model.Int Model.Table Model.HuffEnc Model.HuffDec Model.Decoder Model.Encoder.
From HV Require Export Bridge.BridgeTac.
From HV Require Export Bridge.B_consts Bridge.B_decode_integer Bridge.B_encode_integer Bridge.B_table_entry_size
  Bridge.B_HeaderTable_add Bridge.B_HeaderTable_get_by_index Bridge.B_HeaderTable_search
  Bridge.B_HeaderTable_set_maxsize Bridge.B_HeaderTable__shrink Bridge.B_dec_huffman_m Bridge.B_codes_eq.
Import ListNotations.
Open Scope Z_scope.

(** * Loops whose states are the same variables in another order *)
Definition map_ctl {S T R} (f : S -> T) (c : ctl S R) : ctl T R :=
  match c with Next s => Next (f s) | Break s => Break (f s) | Return r s => Return r (f s) | Raise e s => Raise e (f s) end.
Definition map_lres {S T R} (f : S -> T) (c : lres S R) : lres T R :=
  match c with Done s => Done (f s) | Returned r s => Returned r (f s) | Raised e s => Raised e (f s)
             | Exhausted s => Exhausted (f s) end.

Lemma while_fuel_map {S T R} (f : S -> T) (g : S -> ctl S R) (h : T -> ctl T R) :
  (forall s, h (f s) = map_ctl f (g s)) ->
  forall fuel s, while_fuel fuel h (f s) = map_lres f (while_fuel fuel g s).
Proof.
  intros H fuel; induction fuel as [|k IH]; intros s; cbn [while_fuel map_lres]; [reflexivity|].
  rewrite H. destruct (g s); cbn [map_ctl map_lres]; auto.
Qed.

Lemma for_each_map {A S T R} (f : S -> T) (g : A -> S -> ctl S R) (h : A -> T -> ctl T R) :
  (forall a s, h a (f s) = map_ctl f (g a s)) ->
  forall xs s, for_each xs h (f s) = map_lres f (for_each xs g s).
Proof.
  intros H xs; induction xs as [|x xs IH]; intros s; cbn [for_each map_lres]; [reflexivity|].
  rewrite H. destruct (g x s); cbn [map_ctl map_lres]; auto.
Qed.

(** Nothing below may depend on the regenerated leaves being convertible with the model's (they are
    equal by their bridges, which need not be [reflexivity]), nor unfold a table. *)
Global Opaque GInt.decode_integer GInt.encode_integer GTable.table_entry_size GTable.HeaderTable_add
  GTable.HeaderTable_get_by_index GTable.HeaderTable_search GTable.HeaderTable_set_maxsize
  GTable.HeaderTable__shrink GHuff.decode_huffman GHuff.HuffmanEncoder_encode
  Int.decode_integer Int.encode_integer Table.table_entry_size Table.HeaderTable_add
  Table.HeaderTable_get_by_index Table.HeaderTable_search Table.HeaderTable_set_maxsize
  Table.HeaderTable__shrink HuffDec.decode_huffman HuffEnc.HuffmanEncoder_encode
  Decoder.decode_huffman_m Encoder.huffman_encode_m Encoder.huffman_coder
  GData.HUFFMAN_TABLE Data.HUFFMAN_TABLE GData.REQUEST_CODES GData.REQUEST_CODES_LENGTH
  Data.REQUEST_CODES Data.REQUEST_CODES_LENGTH GData.STATIC_TABLE Data.STATIC_TABLE
  GData.STATIC_TABLE_MAPPING Data.STATIC_TABLE_MAPPING
  GData.INDEX_NONE GData.INDEX_NEVER GData.INDEX_INCREMENTAL Data.INDEX_NONE Data.INDEX_NEVER Data.INDEX_INCREMENTAL.

(** the regenerated leaves, rewritten into the model's *)
Ltac leaf :=
  rewrite ?b_decode_integer, ?b_encode_integer, ?b_table_entry_size,
          ?b_HeaderTable_add, ?b_HeaderTable_get_by_index, ?b_HeaderTable_search,
          ?b_HeaderTable_set_maxsize, ?b_HeaderTable__shrink,
          ?b_decode_huffman_m, ?b_huffman_encode_m,
          ?b_INDEX_NONE, ?b_INDEX_NEVER, ?b_INDEX_INCREMENTAL.

Ltac expose :=
  cbv beta iota zeta delta [bind mbind sbind nbind catch Encoder.lift_tab fst snd map_ctl map_lres
                            Decoder.h_name Decoder.h_value Decoder.h_class].

(** * Equalities up to arithmetic *)
Lemma len_nonneg_ {A} (l : list A) : 0 <= len l.
Proof. unfold len. lia. Qed.

(** [0 <= len l] for the lengths in sight (an emptiness test may be spelled [len l >? 0]) *)
Ltac len_facts :=
  repeat match goal with
  | |- context [len ?l] =>
      lazymatch goal with _ : 0 <= len l |- _ => fail | _ => pose proof (len_nonneg_ l) end
  | _ : context [len ?l] |- _ =>
      lazymatch goal with _ : 0 <= len l |- _ => fail | _ => pose proof (len_nonneg_ l) end
  end.

Ltac zleaf := len_facts; solve [ lia | btauto | (norm_cmp; lia) | apply Z.land_comm | apply Z.lor_comm | apply Z.lxor_comm ].

(** [a = b] when a and b have the same shape down to integer / boolean sub-terms that are equal by
    arithmetic: congruence first (so that an integer inside an uninterpreted term is found), [lia] or
    [btauto] at the outermost position where the shapes differ. *)
Ltac zcong :=
  lazymatch goal with
  | |- ?a = ?a => reflexivity
  | |- @eq ?T _ _ =>
      first [ solve [ progress f_equal; zcong ]
            | lazymatch T with Z => zleaf | bool => zleaf | nat => zleaf end ]
  end.

Ltac same_head a b := let ha := head_of a in let hb := head_of b in constr_eq ha hb.
Ltac differ a b := tryif constr_eq a b then fail else idtac.
Ltac no_match x := lazymatch x with context [match _ with _ => _ end] => fail | _ => idtac end.

(** x is about to be analysed: something equal to it up to arithmetic was analysed before *)
Ltac sync_hyp x :=
  match goal with
  | H : ?y = _ |- _ =>
      differ x y; same_head x y;
      let E := fresh in assert (E : x = y) by zcong; rewrite E; clear E; rewrite H
  end.
(** ... or is another scrutinee of the goal, which is rewritten into x *)
Ltac sync_goal x :=
  repeat match goal with
  | |- context [match ?y with _ => _ end] =>
      differ x y; same_head x y; no_match y;
      let E := fresh in assert (E : y = x) by zcong; rewrite E; clear E
  end.

(** destruct a scrutinee of the goal that contains no other match -- or, when its value is already
    known from an earlier case analysis (the two sides do not always show a scrutinee at the same
    moment), rewrite with what is known.  Scrutinees that differ only by the spelling of an integer
    or boolean sub-term ([a + b] / [b + a]) are identified first. *)
Ltac break_match :=
  match goal with
  | |- context [match ?x with _ => _ end] =>
      no_match x;
      first [ match goal with H : x = _ |- _ => rewrite H end
            | sync_hyp x
            | sync_goal x; destruct x eqn:? ]
  end.

Ltac units := repeat match goal with u : unit |- _ => destruct u end.

(** equations between constructor forms, left behind by the case analyses *)
Ltac tidy :=
  repeat match goal with
  | H : Ok _ = Ok _ |- _ => inversion H; clear H; try subst
  | H : Err _ = Err _ |- _ => inversion H; clear H; try subst
  | H : Some _ = Some _ |- _ => inversion H; clear H; try subst
  | H : pair _ _ = pair _ _ |- _ => inversion H; clear H; try subst
  | H : Ok _ = Err _ |- _ => discriminate H
  | H : Err _ = Ok _ |- _ => discriminate H
  | H : Some _ = None |- _ => discriminate H
  | H : None = Some _ |- _ => discriminate H
  end.

Ltac leaf_hyps :=
  try rewrite ?b_table_entry_size in *.

Ltac finish :=
  units; tidy; leaf_hyps;
  solve [ reflexivity | congruence | (exfalso; len_facts; lia) | (exfalso; congruence) | zcong ].

Ltac crush := repeat (expose; leaf; first [ finish | break_match ]).
(** the same with the bridges of the callees (a tactic that rewrites with them where it can) *)
Ltac crush_with callees := repeat (expose; callees; leaf; first [ finish | break_match ]).
