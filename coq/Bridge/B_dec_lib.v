(** Tactics for the bridges of hpack.Decoder / hpack.Encoder (regenerated Gen/GDecoder.v, Gen/GEncoder.v
    = hand-written Model/Decoder.v, Model/Encoder.v).

    The two sides differ in shape (join-point functions, order of lets, combinators against explicit
    matches) but scrutinise the same things in the same order.  [crush] therefore
      1. rewrites the leaf functions of the regenerated side (GInt, GTable, GHuff, GData) into the
         model's, with the bridges already proved for them, wherever their arguments are in scope;
      2. exposes the structure (combinators unfolded, lets and join points inlined: beta/iota/zeta
         only, never delta on arithmetic or data);
      3. destructs an innermost scrutinee occurring in the goal, one at a time, and loops;
    and closes each leaf by reflexivity, or by [lia] when the two sides spell a test differently. *)
From Coq Require Import ZArith List Bool Lia ZifyBool Btauto.
From HV Require Import Prelude.Py Prelude.State Prelude.Utf8 Prelude.PyExtra.
From HV Require Gen.GData Gen.GInt Gen.GTable Gen.GHuff.
From HV Require Model.Data Model.Int Model.Table Model.HuffEnc Model.HuffDec Model.Decoder Model.Encoder.
From HV Require Proofs.Int Bridge.BridgeSim.
From HV Require Export Bridge.BridgeTac.
From HV Require Export Bridge.B_consts Bridge.B_decode_integer Bridge.B_encode_integer Bridge.B_table_entry_size
  Bridge.B_HeaderTable_add Bridge.B_HeaderTable_get_by_index Bridge.B_HeaderTable_search
  Bridge.B_HeaderTable_set_maxsize Bridge.B_HeaderTable__shrink Bridge.B_dec_huffman_m Bridge.B_codes_eq.
Import ListNotations.
Open Scope Z_scope.

(* map_ctl, map_lres, while_fuel_map, for_each_map are in Bridge/BridgeTac.v *)

(** Nothing below may depend on the regenerated leaves being convertible with the model's (they are
    equal by their bridges, which need not be [reflexivity]), nor unfold a table. *)
Global Opaque GInt.decode_integer GInt.encode_integer GTable.table_entry_size GTable.HeaderTable_add
  GTable.HeaderTable_get_by_index GTable.HeaderTable_search GTable.HeaderTable_set_maxsize
  GTable.HeaderTable__shrink GHuff.decode_huffman GHuff.HuffmanEncoder_encode
  Int.decode_integer Int.encode_integer Table.table_entry_size Table.HeaderTable_add
  Table.HeaderTable_get_by_index Table.HeaderTable_search Table.HeaderTable_set_maxsize
  Table.HeaderTable__shrink HuffDec.decode_huffman HuffEnc.HuffmanEncoder_encode
  Decoder.decode_huffman_m Encoder.huffman_encode_m Encoder.huffman_coder
  GData.HUFFMAN_TABLE Data.HUFFMAN_TABLE GData.REQUEST_CODES GData.REQUEST_CODES_LENGTH
  Data.REQUEST_CODES Data.REQUEST_CODES_LENGTH GData.STATIC_TABLE Data.STATIC_TABLE
  GData.STATIC_TABLE_MAPPING Data.STATIC_TABLE_MAPPING
  GData.INDEX_NONE GData.INDEX_NEVER GData.INDEX_INCREMENTAL Data.INDEX_NONE Data.INDEX_NEVER Data.INDEX_INCREMENTAL.

(** * Facts that let two orders of evaluation be compared
    Moving a computation across another one (a helper that does for one string what was done for both in
    turn, a slice taken once instead of twice) is only neutral if the one that now comes first cannot raise,
    or the positions compose: what is known of the Prelude functions and of the integer codec is made
    available to the case analysis.
    - [encode_integer] never returns an empty bytearray, and [x[0] |= m] (m an octet) cannot fail on one;
      [x[0] |= 0] leaves it as it is (a mask held in a variable that is 0x00 on one path, 0x80 on the other);
    - [decode_integer] returns a value >= 0 and a count >= 1;
    - [l[a:][b:] = l[a+b:]] for a, b >= 0. *)
Lemma slice_from_nonneg {A} (l : list A) a : 0 <= a ->
  slice_from l a = skipn (Z.to_nat (Z.min a (len l))) l.
Proof.
  intros Ha. unfold slice_from, clamp_idx.
  destruct (a <? 0) eqn:E; [lia|]. rewrite E.
  destruct (a >? len l) eqn:E2; f_equal; f_equal; lia.
Qed.
Lemma len_skipn {A} (l : list A) k : len (skipn k l) = len l - Z.min (Z.of_nat k) (len l).
Proof. unfold len. rewrite skipn_length. lia. Qed.
Lemma skipn_skipn_ {A} : forall x y (l : list A), skipn x (skipn y l) = skipn (y + x) l.
Proof. intros x y; induction y as [|y IH]; intros l; [reflexivity|]. destruct l; [rewrite !skipn_nil; reflexivity|apply IH]. Qed.
Lemma slice_from_from {A} (l : list A) a b : 0 <= a -> 0 <= b ->
  slice_from (slice_from l a) b = slice_from l (a + b).
Proof.
  intros Ha Hb. rewrite (slice_from_nonneg l a Ha), (slice_from_nonneg _ b Hb), (slice_from_nonneg l (a + b)) by lia.
  rewrite skipn_skipn_. f_equal. rewrite len_skipn.
  assert (0 <= len l) by (unfold len; lia). lia.
Qed.
Lemma zb_lor_byte b m : 0 <= m < 256 -> exists b', zb (Z.lor (bz b) m) = Some b'.
Proof.
  intros Hm. assert (Hb : 0 <= bz b < 256) by (unfold bz; pose proof (Byte.to_N_bounded b); lia).
  assert (R : 0 <= Z.lor (bz b) m < 256).
  { split; [apply Z.lor_nonneg; lia|].
    destruct (Z.eq_dec (Z.lor (bz b) m) 0) as [->|NZ]; [lia|].
    apply (Z.log2_lt_cancel _ 256). change (Z.log2 256) with 8.
    rewrite Z.log2_lor by lia.
    assert (Z.log2 (bz b) < 8) by (destruct (Z.eq_dec (bz b) 0) as [->|]; [cbn; lia| apply Z.log2_lt_pow2; lia]).
    assert (Z.log2 m < 8) by (destruct (Z.eq_dec m 0) as [->|]; [cbn; lia| apply Z.log2_lt_pow2; lia]).
    lia. }
  unfold zb. destruct (Z.lor (bz b) m <? 0) eqn:E; [lia|].
  destruct (Byte.of_N (Z.to_N (Z.lor (bz b) m))) eqn:F; [eexists; reflexivity|].
  apply Byte.of_N_None_iff in F. lia.
Qed.
Lemma or_first_cons_ok b r m : 0 <= m < 256 -> exists b', or_first (b :: r) m = Ok (b' :: r).
Proof. intros Hm. destruct (zb_lor_byte b m Hm) as [b' E]. exists b'. cbn [or_first]. rewrite E. reflexivity. Qed.
(** [x[0] |= 0]: or-ing an empty mask leaves the octet as it is (a flag variable that is 0x00 on one path) *)
Lemma or_first_cons_zero b r : or_first (b :: r) 0 = Ok (b :: r).
Proof. cbn [or_first]. rewrite Z.lor_0_r, BridgeSim.zb_bz_. reflexivity. Qed.

Lemma encode_integer_cons n N p : Int.encode_integer n N = Ok p -> exists b r, p = b :: r.
Proof.
  intros H.
  destruct (Z_lt_le_dec n 0) as [Hn|Hn]; [rewrite Proofs.Int.enc_refuses in H by lia; discriminate H|].
  destruct (Z_lt_le_dec N 1) as [H1|H1]; [rewrite Proofs.Int.enc_refuses in H by lia; discriminate H|].
  destruct (Z_lt_le_dec 8 N) as [H8|H8]; [rewrite Proofs.Int.enc_refuses in H by lia; discriminate H|].
  destruct (Proofs.Int.encode_integer_ok n N Hn (conj H1 H8)) as (bs & Hb & _ & Hne).
  rewrite Hb in H. injection H as ->.
  destruct p as [|b r]; [congruence|]. exists b, r. reflexivity.
Qed.
Lemma decode_integer_facts bs N n k : (1 <=? N) && (N <=? 8) = true ->
  Int.decode_integer bs N = Ok (n, k) -> 1 <= k <= len bs /\ 0 <= n.
Proof. intros HN. apply Proofs.Int.decode_integer_consumed. lia. Qed.

(** [encode_integer (len x) N] (N a legal prefix width) never raises: a call moved across another
    computation (a helper that encodes one string completely before the next) is not an observable reordering *)
Lemma encode_integer_len_ok {A} (x : list A) N : (1 <=? N) && (N <=? 8) = true ->
  exists b r, Int.encode_integer (len x) N = Ok (b :: r).
Proof.
  intros HN. destruct (Proofs.Int.encode_integer_ok (len x) N) as (bs & E & _ & Hne); [unfold len; lia|lia|].
  destruct bs as [|b r]; [congruence|]. exists b, r. exact E.
Qed.

Ltac facts :=
  repeat match goal with
  | H : Int.encode_integer _ _ = Ok ?p |- _ =>
      is_var p; let b := fresh "b" in let r := fresh "r" in
      destruct (encode_integer_cons _ _ _ H) as (b & r & ->)
  | H : Int.decode_integer ?bs ?N = Ok (?n, ?k) |- _ =>
      znum N;
      lazymatch goal with
      | _ : 1 <= k <= len bs /\ 0 <= n |- _ => fail
      | _ => pose proof (decode_integer_facts bs N n k eq_refl H)
      end
  end;
  repeat match goal with
  | |- context [Int.encode_integer (len ?x) ?N] =>
      znum N;
      lazymatch goal with
      | E : Int.encode_integer (len x) N = _ |- _ => rewrite E
      | _ => let b := fresh "b" in let r := fresh "r" in let E := fresh "E" in
             destruct (encode_integer_len_ok x N eq_refl) as (b & r & E); rewrite E
      end
  end;
  repeat match goal with
  | |- context [or_first (?b :: ?r) 0] => rewrite (or_first_cons_zero b r)
  | |- context [or_first (?b :: ?r) ?m] =>
      znum m;
      lazymatch goal with
      | E : or_first (b :: r) m = _ |- _ => rewrite E
      | _ => let b' := fresh "b" in let E := fresh "E" in
             destruct (or_first_cons_ok b r m ltac:(lia)) as [b' E]; rewrite E
      end
  | |- context [slice_from (slice_from ?l ?a) ?b] => rewrite (slice_from_from l a b) by lia
  | |- context [@index_Z ?T (?b :: ?r) 0] => rewrite (@Proofs.Int.index_Z_0_cons T b r)
  end.

(** the regenerated leaves, rewritten into the model's *)
Ltac leaf :=
  rewrite ?b_decode_integer, ?b_encode_integer, ?b_table_entry_size,
          ?b_HeaderTable_add, ?b_HeaderTable_get_by_index, ?b_HeaderTable_search,
          ?b_HeaderTable_set_maxsize, ?b_HeaderTable__shrink,
          ?b_decode_huffman_m, ?b_huffman_encode_m,
          ?b_INDEX_NONE, ?b_INDEX_NEVER, ?b_INDEX_INCREMENTAL.

Ltac expose :=
  cbv beta iota zeta delta [bind mbind sbind nbind catch Encoder.lift_tab fst snd map_ctl map_lres obs_ctl
                            Decoder.h_name Decoder.h_value Decoder.h_class]; unfold_tperms.

(* the generic steps (zcong, break_match with scrutinee synchronisation, tidy, ...) are in Bridge/BridgeTac.v *)

Ltac leaf_hyps :=
  try rewrite ?b_table_entry_size in *.

Ltac finish :=
  units; tidy; leaf_hyps;
  solve [ reflexivity | congruence | (exfalso; len_facts; lia) | (exfalso; congruence) | zcong
        | (* truthiness of an int spelt [if n:] on one side, [if n != 0:] on the other: the two tests were
             analysed separately, the impossible combinations are closed here *)
          (exfalso; unfold truthy in *; len_facts; lia)
        | (* second pass: the same with the masks, shifts and octet ranges as facts (Bridge/BridgeTac.v) *)
          if_x ltac:(x_leaf_false) ].

(** [crush_with callees] ([callees]: a tactic that rewrites with the bridges of the definitions called, where it
    can): every goal must be closed, the first stuck one stops everything; loops are identified as in
    BridgeTac.v ([loop_sync]: same state, or a permutation of it).  [crush_show] leaves the stuck goals. *)
(* [loop_obs] after [break_match]: it is only needed when [loop_sync] has failed, and looking for loops in every goal of
   the case analysis of a body is not free *)
Ltac cstep self := first [ loop_sync ltac:(self) | break_match | loop_obs ltac:(leaf) ltac:(self) | loop_destruct | range_split ].
Ltac crush_raw callees :=
  expose; callees; leaf; facts; first [ finish | (cstep ltac:(crush_raw callees); crush_raw callees) ].
(** the case analysis; if it fails, once more in x-mode (Bridge/BridgeTac.v) *)
Ltac crush_with callees := first [ crush_raw callees | (xmode_on; crush_raw callees) ].
Ltac crush := crush_with idtac.
Ltac crush_show callees := repeat (expose; callees; leaf; facts; first [ finish | cstep ltac:(crush_raw callees) ]).
