(** decode_huffman of the source (on the source's 4096-entry table) = the model's decode_huffman_m
    (the same function on the frozen table): both tables pass the certificate of Proofs/HuffDec.v,
    so both decoders are the Appendix B decoder. *)
From Coq Require Import ZArith List.
From HV Require Import Prelude.Py Prelude.State.
From HV Require Gen.GData Gen.GHuff Model.HuffDec Model.Decoder Proofs.HuffDec.
From HV Require Bridge.B_decode_huffman Bridge.B_hufftable.
Lemma b_decode_huffman_m : forall s, GHuff.decode_huffman s = Decoder.decode_huffman_m s.
Proof.
  intros s.
  rewrite B_decode_huffman.b_decode_huffman.
  rewrite (Proofs.HuffDec.decoder_exact _ _ _ _ B_hufftable.b_HUFFMAN_TABLE_cert).
  rewrite Proofs.HuffDec.decode_huffman_m_eq. reflexivity.
Qed.
Print Assumptions b_decode_huffman_m.
