(** the static table of the source is Appendix A (every entry decided by the kernel), and the
    import-time name/value mapping of the source is the frozen one (whose adequacy for
    [static_table] is proved in Proofs/Table.v) *)
From Coq Require Import ZArith List.
From HV Require Import Prelude.Py Gen.GData Model.Data Spec.StaticTable.
Lemma b_STATIC_TABLE : GData.STATIC_TABLE = static_table. Proof. vm_compute. reflexivity. Qed.
Lemma b_STATIC_TABLE_MAPPING : GData.STATIC_TABLE_MAPPING = Data.STATIC_TABLE_MAPPING. Proof. vm_compute. reflexivity. Qed.
