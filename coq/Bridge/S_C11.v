(** The property theorems RESTATED OVER THE REGENERATED DEFINITIONS (Gen/: what /repo's
    source says now), obtained from the theorems about the frozen model by rewriting with the
    bridge lemmas.  When this file checks, the kernel has checked the properties about the
    translation of the current source itself, not only about the frozen model. *)
From Coq Require Import ZArith List Bool.
From HV Require Import Prelude.Py Prelude.State Prelude.Utf8.
From HV Require Import Spec.IntRep Spec.HuffmanCode Spec.StaticTable Spec.DynTable Spec.SDecoder.
From HV Require Model.Data Model.Int Model.Table Model.HuffEnc Model.HuffDec Model.Decoder Model.Encoder.
From HV Require Import Model.Rel Model.RelEnc.
From HV Require Gen.GData Gen.GInt Gen.GTable Gen.GHuff Gen.GDecoder Gen.GEncoder.
From HV Require Import Proofs.Int Proofs.Table Proofs.HuffSpec Proofs.HuffEnc Proofs.HuffDec Proofs.HuffRound
                       Proofs.DecoderRefine Proofs.EncoderMeaning.
From HV Require Import Bridge.B_encode_integer Bridge.B_decode_integer.
Import ListNotations.
Open Scope Z_scope.

(** C11 on the source *)
Theorem src_C11_enc_exact : forall n N, 0 <= n -> 1 <= N <= 8 ->
  exists bs, GInt.encode_integer n N = Ok bs /\ map bz bs = int_enc N n.
Proof. intros n N Hn HN. rewrite b_encode_integer. exact (enc_exact n N Hn HN). Qed.
Theorem src_C11_dec_total : forall bs N, 1 <= N <= 8 ->
  GInt.decode_integer bs N =
    match int_dec N (map bz bs) with
    | Some (n, k) => if k - 1 <=? 20 then Ok (n, k) else Err HPACKDecodingError
    | None => Err HPACKDecodingError
    end.
Proof. intros bs N HN. rewrite b_decode_integer. exact (dec_total bs N HN). Qed.


Print Assumptions src_C11_enc_exact.
Print Assumptions src_C11_dec_total.
