(** The property theorems RESTATED OVER THE REGENERATED DEFINITIONS (Gen/: what /repo's
    source says now), obtained from the theorems about the frozen model by rewriting with the
    bridge lemmas.  When this file checks, the kernel has checked the properties about the
    translation of the current source itself, not only about the frozen model. *)
From Coq Require Import ZArith List Bool.
From HV Require Import Prelude.Py Prelude.State Prelude.Utf8.
From HV Require Import Spec.IntRep Spec.HuffmanCode Spec.StaticTable Spec.DynTable Spec.SDecoder.
From HV Require Import Model.Data Model.Int Model.Table Model.Decoder Model.Encoder Model.Api.
From HV Require Import Model.Rel Model.RelEnc Model.Histories.
From HV Require Gen.GData Gen.GInt Gen.GTable Gen.GHuff Gen.GDecoder Gen.GEncoder Gen.GApi Gen.GInit.
From HV Require Import Proofs.Table Proofs.DecoderRefine Proofs.DecoderProps.
From HV Require Import Bridge.B_dec_decode Bridge.B_init_Decoder.
Import ListNotations.
Open Scope Z_scope.

(** C07 on the source: what the translation of Decoder.decode returns is within the limit *)
Theorem src_C07_list_bound : forall d data raw hs d', dec_ok d ->
  GDecoder.Decoder_decode d data raw = (Ok hs, d') -> list_size (map conv hs) <= Z.max 0 d.(d_max_list).
Proof. intros d data raw hs d' H. rewrite b_Decoder_decode. exact (decode_list_bound d data raw hs d' H). Qed.
Corollary src_C07_list_bound_nonneg : forall d data raw hs d', dec_ok d -> 0 <= d.(d_max_list) ->
  GDecoder.Decoder_decode d data raw = (Ok hs, d') -> list_size (map conv hs) <= d.(d_max_list).
Proof. intros d data raw hs d' H H0 H1. pose proof (src_C07_list_bound d data raw hs d' H H1) as H2.
  rewrite Z.max_r in H2 by exact H0. exact H2. Qed.

(** the crossing field raises the oversized error *)
Theorem src_C07_crossing_rejected : forall d data raw, dec_ok d ->
  (fst (GDecoder.Decoder_decode d data raw) = Err OversizedHeaderListError <->
   decode KLIM (ctx_of d) data (negb raw) = SErr Oversized).
Proof. intros d data raw H. rewrite b_Decoder_decode. exact (oversized_iff d data raw H). Qed.

(** a list exactly at the limit is accepted, one octet less is not (fresh decoders built by the
    translation of Decoder.__init__) *)
Example src_C07_exactly_at_limit :
  let blk := [Byte.x82; Byte.x82] in    (* :method GET twice: 2 * (32 + 7 + 3) = 84 *)
  let get := (HPlain, [Byte.x3a;Byte.x6d;Byte.x65;Byte.x74;Byte.x68;Byte.x6f;Byte.x64], [Byte.x47;Byte.x45;Byte.x54]) in
  fst (GDecoder.Decoder_decode (GInit.Decoder_init 84) blk true) = Ok [get; get] /\
  fst (GDecoder.Decoder_decode (GInit.Decoder_init 83) blk true) = Err OversizedHeaderListError.
Proof. cbv zeta. rewrite !b_Decoder_decode, !b_Decoder_init. vm_compute. split; reflexivity. Qed.

Print Assumptions src_C07_list_bound.
Print Assumptions src_C07_list_bound_nonneg.
Print Assumptions src_C07_crossing_rejected.
Print Assumptions src_C07_exactly_at_limit.
