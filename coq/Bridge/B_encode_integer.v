From Coq Require Import ZArith List Bool Lia ZifyBool.
From HV Require Import Prelude.Py Prelude.State Bridge.BridgeConsts.
From HV Require Gen.GData Gen.GInt Gen.GTable Gen.GHuff Model.Data Model.Int Model.Table Model.HuffEnc Model.HuffDec.
From HV Require Import Bridge.BridgeInt.
Open Scope Z_scope.
(** structural cascade first (the regenerated text is the frozen model's up to renamings, reordered lets,
    respelt tests ...); otherwise the semantic bridge of Bridge/BridgeInt.v: the regenerated function
    satisfies the complete characterisation of the model's (refusals, and [int_enc] otherwise). *)
Lemma b_encode_integer : forall n p, GInt.encode_integer n p = Int.encode_integer n p.
Proof. first [ solve [bridge] | enc_int_bridge ]. Qed.
Print Assumptions b_encode_integer.
