From Coq Require Import ZArith List Bool Lia ZifyBool.
From HV Require Import Prelude.Py Prelude.State Bridge.BridgeConsts.
From HV Require Gen.GData Gen.GInt Gen.GTable Gen.GHuff Model.Data Model.Int Model.Table Model.HuffEnc Model.HuffDec.
Open Scope Z_scope.
Lemma b_encode_integer : forall n p, GInt.encode_integer n p = Int.encode_integer n p.
Proof. bridge. Qed.
Print Assumptions b_encode_integer.
