From Coq Require Import ZArith List Bool Lia ZifyBool.
From HV Require Import Prelude.Py Prelude.State Bridge.BridgeConsts.
From HV Require Gen.GData Gen.GInt Gen.GTable Gen.GHuff Model.Data Model.Int Model.Table Model.HuffEnc Model.HuffDec.
Open Scope Z_scope.
Lemma b_decode_integer : forall d p, GInt.decode_integer d p = Int.decode_integer d p.
Proof. bridge. Qed.
Print Assumptions b_decode_integer.
