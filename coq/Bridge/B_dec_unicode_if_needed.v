From Coq Require Import ZArith List Bool Lia ZifyBool.
From HV Require Import Prelude.Py Prelude.State Prelude.Utf8 Prelude.PyExtra Bridge.B_dec_lib.
From HV Require Gen.GData Gen.GInt Gen.GTable Gen.GHuff Gen.GDecoder Gen.GEncoder.
From HV Require Model.Data Model.Int Model.Table Model.HuffEnc Model.HuffDec Model.Decoder Model.Encoder.
Import ListNotations.
Open Scope Z_scope.
Lemma b_unicode_if_needed : forall h raw, GDecoder._unicode_if_needed h raw = Decoder._unicode_if_needed h raw.
Proof. intros; unfold GDecoder._unicode_if_needed, Decoder._unicode_if_needed; crush. Qed.
Print Assumptions b_unicode_if_needed.
