From Coq Require Import ZArith List Bool Lia ZifyBool.
From HV Require Import Prelude.Py Prelude.State Prelude.Utf8 Prelude.PyExtra Bridge.B_dec_lib.
From HV Require Gen.GData Gen.GInt Gen.GTable Gen.GHuff Gen.GDecoder Gen.GEncoder.
From HV Require Model.Data Model.Int Model.Table Model.HuffEnc Model.HuffDec Model.Decoder Model.Encoder.
From HV Require Import Bridge.B_enc_encode_indexed Bridge.B_enc_encode_literal Bridge.B_enc_encode_indexed_literal.
Import ListNotations.
Open Scope Z_scope.

Ltac callees :=
  rewrite ?b_Encoder__encode_indexed, ?b_Encoder__encode_literal, ?b_Encoder__encode_indexed_literal.

(** the Python takes the pair to_add = (name, value); the model takes name and value *)
Lemma b_Encoder_add : forall e n v s h,
  GEncoder.Encoder_add e (n, v) s h = Encoder.Encoder_add e n v s h.
Proof.
  intros; unfold GEncoder.Encoder_add, Encoder.Encoder_add. crush_with callees.
Qed.
Print Assumptions b_Encoder_add.
