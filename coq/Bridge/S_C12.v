(** The property theorems RESTATED OVER THE REGENERATED DEFINITIONS (Gen/: what /repo's
    source says now), obtained from the theorems about the frozen model by rewriting with the
    bridge lemmas.  When this file checks, the kernel has checked the properties about the
    translation of the current source itself, not only about the frozen model. *)
From Coq Require Import ZArith List Bool.
From HV Require Import Prelude.Py Prelude.State Prelude.Utf8.
From HV Require Import Spec.IntRep Spec.HuffmanCode Spec.StaticTable Spec.DynTable Spec.SDecoder.
From HV Require Model.Data Model.Int Model.Table Model.HuffEnc Model.HuffDec Model.Decoder Model.Encoder.
From HV Require Import Model.Rel Model.RelEnc.
From HV Require Gen.GData Gen.GInt Gen.GTable Gen.GHuff Gen.GDecoder Gen.GEncoder.
From HV Require Import Proofs.Int Proofs.Table Proofs.HuffSpec Proofs.HuffEnc Proofs.HuffDec Proofs.HuffRound
                       Proofs.DecoderRefine Proofs.EncoderMeaning.
From HV Require Import Bridge.B_HuffmanEncoder_encode Bridge.B_huffcodes.
Import ListNotations.
Open Scope Z_scope.

(** C12 on the source: the encoder with the source's own code lists *)
Theorem src_C12_encoder_exact : forall s,
  exists bs, GHuff.HuffmanEncoder_encode
               {| hc_codes := GData.REQUEST_CODES; hc_lens := GData.REQUEST_CODES_LENGTH |} s = Ok bs /\
             map bz bs = huff_enc s.
Proof. intros s. rewrite b_HuffmanEncoder_encode. apply encoder_exact. exact b_REQUEST_CODES_cert. Qed.

Print Assumptions src_C12_encoder_exact.
