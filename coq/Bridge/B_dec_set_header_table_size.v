From Coq Require Import ZArith List Bool Lia ZifyBool.
From HV Require Import Prelude.Py Prelude.State Prelude.Utf8 Prelude.PyExtra Bridge.B_dec_lib.
From HV Require Gen.GData Gen.GInt Gen.GTable Gen.GHuff Gen.GDecoder Gen.GEncoder.
From HV Require Model.Data Model.Int Model.Table Model.HuffEnc Model.HuffDec Model.Decoder Model.Encoder.
Import ListNotations.
Open Scope Z_scope.
Lemma b_Decoder_set_header_table_size : forall d v, GDecoder.Decoder_set_header_table_size d v = Decoder.Decoder_set_header_table_size d v.
Proof. intros; unfold GDecoder.Decoder_set_header_table_size, Decoder.Decoder_set_header_table_size; crush. Qed.
Print Assumptions b_Decoder_set_header_table_size.
