(** The property theorems RESTATED OVER THE REGENERATED DEFINITIONS (Gen/: what /repo's
    source says now), obtained from the theorems about the frozen model by rewriting with the
    bridge lemmas.  When this file checks, the kernel has checked the properties about the
    translation of the current source itself, not only about the frozen model. *)
From Coq Require Import ZArith List Bool.
From HV Require Import Prelude.Py Prelude.State Prelude.Utf8.
From HV Require Import Spec.IntRep Spec.HuffmanCode Spec.StaticTable Spec.DynTable Spec.SDecoder.
From HV Require Import Model.Data Model.Int Model.Table Model.Decoder Model.Encoder Model.Api.
From HV Require Import Model.Rel Model.RelEnc Model.Histories.
From HV Require Gen.GData Gen.GInt Gen.GTable Gen.GHuff Gen.GDecoder Gen.GEncoder Gen.GApi Gen.GInit.
From HV Require Import Proofs.Table Proofs.EncoderMeaning Proofs.Lockstep Proofs.ApiForms.
From HV Require Import Bridge.B_api_encode Bridge.B_enc_set_header_table_size Bridge.B_init_Encoder.
Import ListNotations.
Open Scope Z_scope.

(** C03 on the source. *)
(** The source's Encoder.encode takes a container (list / iterator / dict of header forms); the
    model's [Encoder_encode] works on the canonical list of (name, value, sensitive).
    [fields_container hs] is the Python argument "a list of three-tuples (name bytes, value
    bytes, sensitive)": on it the translation of Encoder.encode IS the model's [Encoder_encode]. *)
Definition fields_container (hs : list field) : container :=
  CList (map (fun f => F3 (PBytes (fst (fst f))) (PBytes (snd (fst f))) (Some (snd f))) hs).
Lemma g_encode_fields : forall e hs huff,
  GApi.Encoder_encode e (fields_container hs) huff = Encoder_encode e hs huff.
Proof.
  intros e hs huff. rewrite b_Encoder_encode.
  unfold Encoder_encode_api, fields_container, container_headers. f_equal.
  rewrite map_map. induction hs as [|[[n v] s] r IH]; [reflexivity|].
  cbn [map]. rewrite IH. destruct s; reflexivity.
Qed.

(** one operation of an encoder history (Model.Encoder.estep), over the regenerated steps *)
Definition g_estep (self : encoder) (o : eop) : outcome bytes * encoder :=
  match o with
  | ESetSize v =>
      match GEncoder.Encoder_set_header_table_size self v with (Ok _, s) => (Ok [], s) | (Err e, s) => (Err e, s) end
  | EEncode hs h => GApi.Encoder_encode self (fields_container hs) h
  end.
Lemma g_estep_eq : forall e o, g_estep e o = estep e o.
Proof.
  intros e [v|hs h]; unfold g_estep, estep;
    [rewrite b_Encoder_set_header_table_size | rewrite g_encode_fields]; reflexivity.
Qed.


(** Model.Histories.spec_consumes, over the regenerated steps *)
Fixpoint g_spec_consumes (c : ctx) (e : encoder) (ops : list eop) : Prop :=
  match ops with
  | [] => True
  | ESetSize v :: r => g_spec_consumes c (snd (g_estep e (ESetSize v))) r
  | EEncode hs h :: r =>
      match g_estep e (EEncode hs h) with
      | (Ok w, e') => exists fs c', decode KLIM c w false = SOk (fs, c') /\
                                    map nv_of_sfield fs = map nv_of_field hs /\ g_spec_consumes c' e' r
      | (Err _, _) => False
      end
  end.
Lemma g_spec_consumes_iff : forall ops c e, g_spec_consumes c e ops <-> spec_consumes c e ops.
Proof.
  induction ops as [|[v|hs h] r IH]; intros c e; cbn [g_spec_consumes spec_consumes].
  - reflexivity.
  - rewrite g_estep_eq. apply IH.
  - rewrite g_estep_eq. destruct (estep e (EEncode hs h)) as [[w|x] e']; [|reflexivity].
    split; intros (fs & c' & A & B & C); exists fs, c'; (split; [exact A|split; [exact B|apply IH; exact C]]).
Qed.

Theorem src_C03_block_meaning : forall e c hs huff,
  TInv e.(e_tab) -> Sync e c -> ctx_sane c -> Forall field_sane hs -> fields_size hs <= list_limit c ->
  exists w e' rs fs c',
    GApi.Encoder_encode e (fields_container hs) huff = (Ok w, e') /\
    wire_block KLIM rs w /\ sem c rs [] = Some (fs, c') /\
    map nv_of_sfield fs = map nv_of_field hs /\
    Sync e' c' /\ e'.(e_changes) = [] /\ TInv e'.(e_tab) /\
    limit c' = limit c /\ list_limit c' = list_limit c /\
    exists rf, rs = map RSizeUpdate e.(e_changes) ++ rf /\
               Forall (fun r => match r with RSizeUpdate _ => False | _ => True end) rf.
Proof. intros e c hs huff H1 H2 H3 H4 H5. rewrite g_encode_fields. exact (encode_meaning e c hs huff H1 H2 H3 H4 H5). Qed.

Theorem src_C03_block_decodes : forall e c hs huff,
  TInv e.(e_tab) -> Sync e c -> ctx_sane c -> Forall field_sane hs -> fields_size hs <= list_limit c ->
  exists w e' fs c',
    GApi.Encoder_encode e (fields_container hs) huff = (Ok w, e') /\
    decode KLIM c w false = SOk (fs, c') /\ map nv_of_sfield fs = map nv_of_field hs /\
    Sync e' c' /\ e'.(e_changes) = [] /\ TInv e'.(e_tab).
Proof. intros e c hs huff H1 H2 H3 H4 H5. rewrite g_encode_fields. exact (encode_decodes_spec e c hs huff H1 H2 H3 H4 H5). Qed.

(** the same two for EVERY argument form of the public API (list, iterator or dict of any of
    the header forms, text or bytes): [canon k] is the canonical sequence of the container [k] (C18) *)
Theorem src_C03_api_block_meaning : forall e c k huff,
  TInv e.(e_tab) -> Sync e c -> ctx_sane c -> Forall field_sane (canon k) -> fields_size (canon k) <= list_limit c ->
  exists w e' rs fs c',
    GApi.Encoder_encode e k huff = (Ok w, e') /\
    wire_block KLIM rs w /\ sem c rs [] = Some (fs, c') /\
    map nv_of_sfield fs = map nv_of_field (canon k) /\
    Sync e' c' /\ e'.(e_changes) = [] /\ TInv e'.(e_tab) /\
    limit c' = limit c /\ list_limit c' = list_limit c /\
    exists rf, rs = map RSizeUpdate e.(e_changes) ++ rf /\
               Forall (fun r => match r with RSizeUpdate _ => False | _ => True end) rf.
Proof.
  intros e c k huff H1 H2 H3 H4 H5. rewrite b_Encoder_encode, encode_canon.
  exact (encode_meaning e c (canon k) huff H1 H2 H3 H4 H5).
Qed.
Theorem src_C03_api_block_decodes : forall e c k huff,
  TInv e.(e_tab) -> Sync e c -> ctx_sane c -> Forall field_sane (canon k) -> fields_size (canon k) <= list_limit c ->
  exists w e' fs c',
    GApi.Encoder_encode e k huff = (Ok w, e') /\
    decode KLIM c w false = SOk (fs, c') /\ map nv_of_sfield fs = map nv_of_field (canon k) /\
    Sync e' c' /\ e'.(e_changes) = [] /\ TInv e'.(e_tab).
Proof.
  intros e c k huff H1 H2 H3 H4 H5. rewrite b_Encoder_encode, encode_canon.
  exact (encode_decodes_spec e c (canon k) huff H1 H2 H3 H4 H5).
Qed.

Theorem src_C03_every_history : forall Lim LL ops, 4096 <= Lim < BIG -> Forall (op_ok Lim LL) ops ->
  g_spec_consumes {| dyn := []; size := 4096; limit := Lim; list_limit := LL |} GInit.Encoder_init ops.
Proof.
  intros Lim LL ops H1 H2. apply g_spec_consumes_iff. rewrite b_Encoder_init.
  exact (spec_consumes_history Lim LL ops H1 H2).
Qed.

Print Assumptions src_C03_block_meaning.
Print Assumptions src_C03_block_decodes.
Print Assumptions src_C03_api_block_meaning.
Print Assumptions src_C03_api_block_decodes.
Print Assumptions src_C03_every_history.
