From Coq Require Import ZArith List Bool Lia ZifyBool.
From HV Require Import Prelude.Py Prelude.State Bridge.BridgeConsts.
From HV Require Gen.GData Gen.GInt Gen.GTable Gen.GHuff Model.Data Model.Int Model.Table Model.HuffEnc Model.HuffDec.
Open Scope Z_scope.
Lemma b_HeaderTable_search : forall t n v, GTable.HeaderTable_search t n v = Table.HeaderTable_search t n v.
Proof. bridge. Qed.
Print Assumptions b_HeaderTable_search.
