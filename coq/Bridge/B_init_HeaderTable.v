(** HeaderTable.__init__ of the source builds the record the hand model starts from *)
From Coq Require Import ZArith List Bool.
From HV Require Import Prelude.Py Prelude.State Bridge.B_consts.
From HV Require Gen.GData Gen.GInit Model.Data Model.Decoder Model.Encoder.
Lemma b_HeaderTable_init : GInit.HeaderTable_init = Decoder.HeaderTable_init.
Proof.
  intros. cbv beta zeta delta [GInit.HeaderTable_init GInit.HeaderTable_init Decoder.HeaderTable_init Decoder.HeaderTable_init].
  rewrite ?b_DEFAULT_SIZE. reflexivity.
Qed.
Print Assumptions b_HeaderTable_init.
