From Coq Require Import ZArith List Bool Lia ZifyBool.
From HV Require Import Prelude.Py Prelude.State Bridge.BridgeConsts Bridge.B_table_entry_size Bridge.B_HeaderTable__shrink.
From HV Require Gen.GData Gen.GInt Gen.GTable Gen.GHuff Model.Data Model.Int Model.Table Model.HuffEnc Model.HuffDec.
Open Scope Z_scope.
Lemma b_HeaderTable_set_maxsize : forall t m, GTable.HeaderTable_set_maxsize t m = Table.HeaderTable_set_maxsize t m.
(* it calls _shrink and table_entry_size, whose regenerated texts need not be convertible with the model's *)
Proof. bridge_with ltac:(rewrite ?b_HeaderTable__shrink, ?b_table_entry_size). Qed.
Print Assumptions b_HeaderTable_set_maxsize.
