From Coq Require Import ZArith List Bool Lia ZifyBool.
From HV Require Import Prelude.Py Prelude.State Bridge.BridgeConsts.
From HV Require Gen.GData Gen.GInt Gen.GTable Gen.GHuff Model.Data Model.Int Model.Table Model.HuffEnc Model.HuffDec.
Open Scope Z_scope.
Lemma b_HeaderTable_set_maxsize : forall t m, GTable.HeaderTable_set_maxsize t m = Table.HeaderTable_set_maxsize t m.
Proof. bridge. Qed.
Print Assumptions b_HeaderTable_set_maxsize.
