(** C17: the fact about the code that Model/Prov.v is parameterised by -- the literals are copied out of the
    caller's buffer before they are stored in the table and returned -- as inferred from the CURRENT source by the
    provenance-tag analysis of tools/py2coq/provtags.py (Gen/GProv.v). *)
From HV Require Gen.GProv.
Lemma b_literal_copies : GProv.literal_copies = true.
Proof. reflexivity. Qed.
Print Assumptions b_literal_copies.
