From Coq Require Import ZArith List Bool Lia ZifyBool.
From HV Require Import Prelude.Py Prelude.State Bridge.BridgeConsts Bridge.B_table_entry_size.
From HV Require Gen.GData Gen.GInt Gen.GTable Gen.GHuff Model.Data Model.Int Model.Table Model.HuffEnc Model.HuffDec.
Open Scope Z_scope.
Lemma b_HeaderTable__shrink : forall t, GTable.HeaderTable__shrink t = Table.HeaderTable__shrink t.
Proof. bridge_with ltac:(rewrite ?b_table_entry_size). Qed.
Print Assumptions b_HeaderTable__shrink.
