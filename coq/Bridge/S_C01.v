(** The property theorems RESTATED OVER THE REGENERATED DEFINITIONS (Gen/: what /repo's
    source says now), obtained from the theorems about the frozen model by rewriting with the
    bridge lemmas.  When this file checks, the kernel has checked the properties about the
    translation of the current source itself, not only about the frozen model. *)
From Coq Require Import ZArith List Bool.
From HV Require Import Prelude.Py Prelude.State Prelude.Utf8.
From HV Require Import Spec.IntRep Spec.HuffmanCode Spec.StaticTable Spec.DynTable Spec.SDecoder.
From HV Require Import Model.Data Model.Table Model.Decoder Model.Encoder Model.Api.
From HV Require Import Model.Rel Model.RelEnc Model.Histories.
From HV Require Gen.GData Gen.GInt Gen.GTable Gen.GHuff Gen.GDecoder Gen.GEncoder Gen.GApi Gen.GInit.
From HV Require Import Proofs.Table Proofs.DecoderRefine Proofs.EncoderMeaning Proofs.Lockstep
                       Proofs.ApiForms Proofs.ApiRoundTrip.
From HV Require Import Bridge.B_dec_decode Bridge.B_api_encode Bridge.B_enc_set_header_table_size
                       Bridge.B_init_Decoder Bridge.B_init_Encoder.
Import ListNotations.
Open Scope Z_scope.

(** C01 on the source.

    The source's Encoder.encode takes a container (list / iterator / dict of header forms); the
    model's [Encoder_encode] works on the canonical list of (name, value, sensitive).
    [fields_container hs] is the Python argument "a list of three-tuples (name bytes, value
    bytes, sensitive)": on it the translation of Encoder.encode IS the model's [Encoder_encode]. *)
Definition fields_container (hs : list field) : container :=
  CList (map (fun f => F3 (PBytes (fst (fst f))) (PBytes (snd (fst f))) (Some (snd f))) hs).
Lemma g_encode_fields : forall e hs huff,
  GApi.Encoder_encode e (fields_container hs) huff = Encoder_encode e hs huff.
Proof.
  intros e hs huff. rewrite b_Encoder_encode.
  unfold Encoder_encode_api, fields_container, container_headers. f_equal.
  rewrite map_map. induction hs as [|[[n v] s] r IH]; [reflexivity|].
  cbn [map]. rewrite IH. destruct s; reflexivity.
Qed.

(** one operation of an encoder history (Model.Encoder.estep), over the regenerated steps *)
Definition g_estep (self : encoder) (o : eop) : outcome bytes * encoder :=
  match o with
  | ESetSize v =>
      match GEncoder.Encoder_set_header_table_size self v with (Ok _, s) => (Ok [], s) | (Err e, s) => (Err e, s) end
  | EEncode hs h => GApi.Encoder_encode self (fields_container hs) h
  end.
Lemma g_estep_eq : forall e o, g_estep e o = estep e o.
Proof.
  intros e [v|hs h]; unfold g_estep, estep;
    [rewrite b_Encoder_set_header_table_size | rewrite g_encode_fields]; reflexivity.
Qed.

(** Model.Histories.round_trips, over the regenerated steps *)
Fixpoint g_round_trips (d : decoder) (e : encoder) (ops : list (eop * bool)) : Prop :=
  match ops with
  | [] => True
  | (ESetSize v, _) :: r => g_round_trips d (snd (g_estep e (ESetSize v))) r
  | (EEncode hs h, raw) :: r =>
      match g_estep e (EEncode hs h) with
      | (Ok w, e') =>
          match GDecoder.Decoder_decode d w raw with
          | (Ok hs', d') => map nv_of_header hs' = map nv_of_field hs /\ g_round_trips d' e' r
          | (Err _, _) => False
          end
      | (Err _, _) => False
      end
  end.
Lemma g_round_trips_eq : forall ops d e, g_round_trips d e ops = round_trips d e ops.
Proof.
  induction ops as [|[[v|hs h] raw] r IH]; intros d e; cbn [g_round_trips round_trips].
  - reflexivity.
  - rewrite g_estep_eq. apply IH.
  - rewrite g_estep_eq. destruct (estep e (EEncode hs h)) as [[w|x] e']; [|reflexivity].
    rewrite b_Decoder_decode. destruct (Decoder_decode d w raw) as [[hs'|x] d']; [|reflexivity].
    rewrite IH. reflexivity.
Qed.

Theorem src_C01_round_trip : forall Lim LL ops, 4096 <= Lim < BIG -> Z.abs LL < 10 ^ 4300 ->
  Forall (pop_ok Lim LL) ops ->
  g_round_trips (set_d_max_allowed Lim (GInit.Decoder_init LL)) GInit.Encoder_init ops.
Proof.
  intros Lim LL ops H1 H2 H3. rewrite g_round_trips_eq, b_Decoder_init, b_Encoder_init.
  exact (round_trip_history Lim LL ops H1 H2 H3).
Qed.

Theorem src_C01_block : forall e d hs huff raw,
  TInv e.(e_tab) -> dec_ok d -> Sync e (ctx_of d) -> ctx_sane (ctx_of d) ->
  Forall field_sane hs -> fields_size hs <= d.(d_max_list) ->
  (raw = false -> Forall (fun f => utf8_valid (fst (fst f)) = true /\ utf8_valid (snd (fst f)) = true) hs) ->
  exists w e' hs' d',
    GApi.Encoder_encode e (fields_container hs) huff = (Ok w, e') /\
    GDecoder.Decoder_decode d w raw = (Ok hs', d') /\
    map nv_of_header hs' = map nv_of_field hs.
Proof.
  intros e d hs huff raw H1 H2 H3 H4 H5 H6 H7. rewrite g_encode_fields.
  destruct (block_round_trip e d hs huff raw H1 H2 H3 H4 H5 H6 H7) as (w & e' & hs' & d' & A & B & C).
  exists w, e', hs', d'. rewrite b_Decoder_decode. exact (conj A (conj B C)).
Qed.

(** the public API: every container form *)
Theorem src_C01_api_block : forall e d c huff raw,
  TInv e.(e_tab) -> dec_ok d -> Sync e (ctx_of d) -> ctx_sane (ctx_of d) ->
  Forall field_sane (canon c) -> fields_size (canon c) <= d.(d_max_list) ->
  (raw = false -> Forall (fun f => utf8_valid (fst (fst f)) = true /\ utf8_valid (snd (fst f)) = true) (canon c)) ->
  exists w e' hs' d',
    GApi.Encoder_encode e c huff = (Ok w, e') /\ GDecoder.Decoder_decode d w raw = (Ok hs', d') /\
    map nv_of_header hs' = map nv_of_field (canon c).
Proof.
  intros e d c huff raw H1 H2 H3 H4 H5 H6 H7. rewrite b_Encoder_encode.
  destruct (api_block_round_trip e d c huff raw H1 H2 H3 H4 H5 H6 H7) as (w & e' & hs' & d' & A & B & C).
  exists w, e', hs', d'. rewrite b_Decoder_decode. exact (conj A (conj B C)).
Qed.

Print Assumptions src_C01_round_trip.
Print Assumptions src_C01_block.
Print Assumptions src_C01_api_block.
