From Coq Require Import ZArith List Bool Lia ZifyBool.
From HV Require Import Prelude.Py Prelude.State Prelude.Utf8 Prelude.PyExtra Bridge.B_dec_lib.
From HV Require Gen.GData Gen.GInt Gen.GTable Gen.GHuff Gen.GDecoder Gen.GEncoder.
From HV Require Model.Data Model.Int Model.Table Model.HuffEnc Model.HuffDec Model.Decoder Model.Encoder.
From HV Require Import Bridge.B_dec_unicode_if_needed Bridge.B_dec_assert_valid_table_size
  Bridge.B_dec_update_encoding_context Bridge.B_dec_decode_indexed Bridge.B_dec_decode_literal_no_index
  Bridge.B_dec_decode_literal_index.
Import ListNotations.
Open Scope Z_scope.

(** [[_unicode_if_needed(h, raw) for h in headers]] *)
Lemma traverse_unicode raw : forall hs,
  traverse (fun h => GDecoder._unicode_if_needed h raw) hs = Decoder.unicode_all hs raw.
Proof.
  induction hs as [|h r IH]; cbn [traverse Decoder.unicode_all]; [reflexivity|].
  rewrite b_unicode_if_needed, IH. reflexivity.
Qed.

(** The loop state of the regenerated decode() is the tuple of the variables its body assigns, in the
    order the translator meets them; the model's is (self, headers, inflated_size, current_index):
    [crush_with] identifies the two loops under the permutation that relates them ([loop_sync]). *)
Ltac callees :=
  rewrite ?b_Decoder__decode_indexed, ?b_Decoder__decode_literal_index, ?b_Decoder__decode_literal_no_index,
          ?b_Decoder__update_encoding_context, ?b_Decoder__assert_valid_table_size, ?traverse_unicode.

Lemma b_Decoder_decode : forall d data raw, GDecoder.Decoder_decode d data raw = Decoder.Decoder_decode d data raw.
Proof.
  intros d data raw. unfold GDecoder.Decoder_decode, Decoder.Decoder_decode, Decoder.decode_body, Decoder.dstate.
  crush_with callees.
Qed.
Print Assumptions b_Decoder_decode.
