(** The property theorems RESTATED OVER THE REGENERATED DEFINITIONS (Gen/: what /repo's
    source says now), obtained from the theorems about the frozen model by rewriting with the
    bridge lemmas.  When this file checks, the kernel has checked the properties about the
    translation of the current source itself, not only about the frozen model. *)
From Coq Require Import ZArith List Bool.
From HV Require Import Prelude.Py Prelude.State Prelude.Utf8.
From HV Require Import Spec.IntRep Spec.HuffmanCode Spec.StaticTable Spec.DynTable Spec.SDecoder.
From HV Require Model.Data Model.Int Model.Table Model.HuffEnc Model.HuffDec Model.Decoder Model.Encoder.
From HV Require Import Model.Rel Model.RelEnc.
From HV Require Gen.GData Gen.GInt Gen.GTable Gen.GHuff Gen.GDecoder Gen.GEncoder.
From HV Require Import Proofs.Int Proofs.Table Proofs.HuffSpec Proofs.HuffEnc Proofs.HuffDec Proofs.HuffRound
                       Proofs.DecoderRefine Proofs.EncoderMeaning.
From HV Require Import Bridge.B_HeaderTable_add Bridge.B_HeaderTable_set_maxsize.
Import ListNotations.
Open Scope Z_scope.

(** The property theorems RESTATED OVER THE REGENERATED DEFINITIONS (Gen/: what /repo's
    source says now), obtained from the theorems about the frozen model by rewriting with the
    bridge lemmas.  When this file checks, the kernel has checked the properties about the
    translation of the current source itself, not only about the frozen model. *)
From Coq Require Import ZArith List Bool.
From HV Require Import Prelude.Py Prelude.State Prelude.Utf8.
From HV Require Import Spec.IntRep Spec.HuffmanCode Spec.StaticTable Spec.DynTable Spec.SDecoder.
From HV Require Model.Data Model.Int Model.Table Model.HuffEnc Model.HuffDec Model.Decoder Model.Encoder.
From HV Require Import Model.Rel Model.RelEnc.
From HV Require Gen.GData Gen.GInt Gen.GTable Gen.GHuff Gen.GDecoder Gen.GEncoder.
From HV Require Import Proofs.Int Proofs.Table Proofs.HuffSpec Proofs.HuffEnc Proofs.HuffDec Proofs.HuffRound
                       Proofs.DecoderRefine Proofs.EncoderMeaning.
From HV Require Import Bridge.B_HeaderTable_add Bridge.B_HeaderTable_set_maxsize Bridge.B_HeaderTable_get_by_index Bridge.B_HeaderTable_search Bridge.B_static.
Import ListNotations.
Open Scope Z_scope.

(** C06 / C14 on the source *)
Theorem src_C06_add : forall t n v, TInv t ->
  exists t', GTable.HeaderTable_add t n v = (Ok tt, t') /\
    t'.(entries) = insert t.(maxsize) (n, v) t.(entries) /\
    t'.(maxsize) = t.(maxsize) /\ t'.(resized) = t.(resized) /\ TInv t'.
Proof. intros t n v H. rewrite b_HeaderTable_add. exact (add_spec t n v H). Qed.
Theorem src_C06_set_maxsize : forall t m, TInv t ->
  exists t', GTable.HeaderTable_set_maxsize t m = (Ok tt, t') /\
    t'.(entries) = resize m t.(entries) /\ t'.(maxsize) = m /\
    t'.(resized) = (t.(resized) || negb (m =? t.(maxsize))) /\ TInv t'.
Proof. intros t m H. rewrite b_HeaderTable_set_maxsize. exact (set_maxsize_spec t m H). Qed.

Print Assumptions src_C06_add.
Print Assumptions src_C06_set_maxsize.
