From Coq Require Import ZArith List Bool Lia ZifyBool.
From HV Require Import Prelude.Py Prelude.State Prelude.Utf8 Prelude.PyExtra Bridge.B_dec_lib.
From HV Require Gen.GData Gen.GInt Gen.GTable Gen.GHuff Gen.GDecoder Gen.GEncoder.
From HV Require Model.Data Model.Int Model.Table Model.HuffEnc Model.HuffDec Model.Decoder Model.Encoder.
Import ListNotations.
Open Scope Z_scope.
Lemma b_Encoder__encode_literal : forall e n v ib h, GEncoder.Encoder__encode_literal e n v ib h = Encoder.Encoder__encode_literal n v ib h.
Proof. intros; unfold GEncoder.Encoder__encode_literal, Encoder.Encoder__encode_literal; crush. Qed.
Print Assumptions b_Encoder__encode_literal.
