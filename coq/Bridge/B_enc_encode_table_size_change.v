From Coq Require Import ZArith List Bool Lia ZifyBool.
From HV Require Import Prelude.Py Prelude.State Prelude.Utf8 Prelude.PyExtra Bridge.B_dec_lib.
From HV Require Gen.GData Gen.GInt Gen.GTable Gen.GHuff Gen.GDecoder Gen.GEncoder.
From HV Require Model.Data Model.Int Model.Table Model.HuffEnc Model.HuffDec Model.Decoder Model.Encoder.
Import ListNotations.
Open Scope Z_scope.

(** The regenerated text is the for loop over self.table_size_changes with state (block, self); the
    model is the recursion encode_size_changes on the list.  The loop ends Done with the model's block,
    or Raised with the model's exception (self is never touched inside). *)
Lemma b_Encoder__encode_table_size_change : forall e,
  GEncoder.Encoder__encode_table_size_change e = Encoder.Encoder__encode_table_size_change e.
Proof.
  intros e. unfold GEncoder.Encoder__encode_table_size_change, Encoder.Encoder__encode_table_size_change.
  cbv zeta.
  match goal with
  | |- match for_each ?l ?g (?b0, ?s0) with _ => _ end = _ =>
      assert (L : forall xs blk,
                 match Encoder.encode_size_changes xs blk with
                 | Ok b => for_each xs g (blk, s0) = Done (b, s0)
                 | Err x => exists b', for_each xs g (blk, s0) = Raised x (b', s0)
                 end)
  end.
  { induction xs as [|x r IH]; intros blk; cbn [for_each Encoder.encode_size_changes]; [reflexivity|].
    expose; rewrite ?(b_encode_integer x 5).
    destruct (Int.encode_integer x 5) as [b|x1]; expose; [|eexists; reflexivity].
    destruct (or_first b 32) as [b1|x1]; expose; [|eexists; reflexivity].
    apply IH. }
  specialize (L (e_changes e) []).
  destruct (Encoder.encode_size_changes (e_changes e) []) as [b|x].
  - match goal with |- match ?X with _ => _ end = _ =>
      let H := fresh in assert (H : X = Done (b, e)) by exact L; rewrite H end.
    reflexivity.
  - destruct L as [b' L].
    match goal with |- match ?X with _ => _ end = _ =>
      let H := fresh in assert (H : X = Raised x (b', e)) by exact L; rewrite H end.
    reflexivity.
Qed.
Print Assumptions b_Encoder__encode_table_size_change.
