From Coq Require Import ZArith List Bool Lia ZifyBool.
From HV Require Import Prelude.Py Prelude.State Prelude.Utf8 Prelude.PyExtra Bridge.B_dec_lib.
From HV Require Gen.GData Gen.GInt Gen.GTable Gen.GHuff Gen.GDecoder Gen.GEncoder.
From HV Require Model.Data Model.Int Model.Table Model.HuffEnc Model.HuffDec Model.Decoder Model.Encoder.
From Coq Require Import Init.Byte.
Import ListNotations.
Open Scope Z_scope.

(** The regenerated text is the for loop over self.table_size_changes, whose state is (acc, self) where acc is
    the block so far (block += ...) or the list of its pieces (pieces.append(...), joined at the end); the
    model is the recursion encode_size_changes on the list.  With [abs] = identity / concat: the loop ends
    Done with an accumulator whose [abs] is the model's block, or Raised with the model's exception (self
    is never touched inside). *)
Lemma b_Encoder__encode_table_size_change : forall e,
  GEncoder.Encoder__encode_table_size_change e = Encoder.Encoder__encode_table_size_change e.
Proof.
  intros e. unfold GEncoder.Encoder__encode_table_size_change, Encoder.Encoder__encode_table_size_change.
  expose.
  match goal with
  | |- context [for_each ?l ?g (?u0, ?s0)] =>
      let T := type of u0 in let T := eval cbv delta [bytes] in T in
      lazymatch T with
      | list (list _) => pose (abs := @concat Byte.byte); pose (snoc := fun (u : list bytes) (b : bytes) => u ++ [b])
      | _ => pose (abs := fun b : bytes => b); pose (snoc := fun (u b : bytes) => u ++ b)
      end;
      assert (Happ : forall u b, abs (snoc u b) = abs u ++ b)
        by (intros; unfold abs, snoc; rewrite ?concat_app; cbn [concat]; rewrite ?app_nil_r; reflexivity);
      assert (L : forall xs u,
                 match Encoder.encode_size_changes xs (abs u) with
                 | Ok b => exists u', for_each xs g (u, s0) = Done (u', s0) /\ abs u' = b
                 | Err x => exists u', for_each xs g (u, s0) = Raised x (u', s0)
                 end)
  end.
  { induction xs as [|x r IH]; intros u; cbn [for_each Encoder.encode_size_changes]; [eexists; split; reflexivity|].
    expose; rewrite ?(b_encode_integer x 5).
    destruct (Int.encode_integer x 5) as [b|x1] eqn:E; expose; [|eexists; reflexivity].
    facts.
    match goal with |- context [Encoder.encode_size_changes r (abs u ++ ?w)] =>
      specialize (IH (snoc u w)); rewrite Happ in IH; exact IH end. }
  specialize (L (e_changes e) []).
  change (abs []) with (@nil Byte.byte) in L.
  destruct (Encoder.encode_size_changes (e_changes e) []) as [b|x].
  - destruct L as (u' & L & Hu).
    match goal with |- context [for_each ?xs ?g ?s] =>
      let H := fresh in assert (H : for_each xs g s = Done (u', e)) by exact L; rewrite H end.
    unfold abs in Hu. subst b. reflexivity.
  - destruct L as [u' L].
    match goal with |- context [for_each ?xs ?g ?s] =>
      let H := fresh in assert (H : for_each xs g s = Raised x (u', e)) by exact L; rewrite H end.
    reflexivity.
Qed.
Print Assumptions b_Encoder__encode_table_size_change.
