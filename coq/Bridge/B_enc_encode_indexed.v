From Coq Require Import ZArith List Bool Lia ZifyBool.
From HV Require Import Prelude.Py Prelude.State Prelude.Utf8 Prelude.PyExtra Bridge.B_dec_lib.
From HV Require Gen.GData Gen.GInt Gen.GTable Gen.GHuff Gen.GDecoder Gen.GEncoder.
From HV Require Model.Data Model.Int Model.Table Model.HuffEnc Model.HuffDec Model.Decoder Model.Encoder.
Import ListNotations.
Open Scope Z_scope.
Lemma b_Encoder__encode_indexed : forall e i, GEncoder.Encoder__encode_indexed e i = Encoder.Encoder__encode_indexed i.
Proof. intros; unfold GEncoder.Encoder__encode_indexed, Encoder.Encoder__encode_indexed; crush. Qed.
Print Assumptions b_Encoder__encode_indexed.
