From Coq Require Import ZArith List Bool Lia ZifyBool.
From HV Require Import Prelude.Py Prelude.State Prelude.Utf8 Prelude.PyExtra Bridge.B_dec_lib.
From HV Require Gen.GData Gen.GInt Gen.GTable Gen.GHuff Gen.GDecoder Gen.GEncoder.
From HV Require Model.Data Model.Int Model.Table Model.HuffEnc Model.HuffDec Model.Decoder Model.Encoder.
Import ListNotations.
Open Scope Z_scope.
From HV Require Import Bridge.B_dec_set_header_table_size.
Lemma b_Decoder__update_encoding_context : forall d data, GDecoder.Decoder__update_encoding_context d data = Decoder.Decoder__update_encoding_context d data.
Proof. intros; unfold GDecoder.Decoder__update_encoding_context, Decoder.Decoder__update_encoding_context; crush_with ltac:(rewrite ?b_Decoder_set_header_table_size). Qed.
Print Assumptions b_Decoder__update_encoding_context.
