(** unfold the small integer constants of the regenerated data and of the frozen model *)
From Coq Require Import ZArith List Bool Lia ZifyBool.
From HV Require Import Prelude.Py Prelude.State.
From HV Require Export Bridge.BridgeTac.
From HV Require Gen.GData Model.Data.
Ltac norm_consts ::=
  (* delta only: [unfold] would also zeta-reduce the local definitions the cascade relies on *)
  cbv delta [GData.STATIC_TABLE_LENGTH Data.STATIC_TABLE_LENGTH
             GData._MAX_INTEGER_CONTINUATION_OCTETS Data._MAX_INTEGER_CONTINUATION_OCTETS
             GData.DEFAULT_SIZE Data.DEFAULT_SIZE
             GData.DEFAULT_MAX_HEADER_LIST_SIZE Data.DEFAULT_MAX_HEADER_LIST_SIZE
             GData.HUFFMAN_COMPLETE GData.HUFFMAN_EMIT_SYMBOL GData.HUFFMAN_FAIL] in *;
  (* data tables: identified when convertible *)
  try change GData.STATIC_TABLE_MAPPING with Data.STATIC_TABLE_MAPPING;
  try change GData.STATIC_TABLE with Data.STATIC_TABLE;
  try change GData._PREFIX_BIT_MAX_NUMBERS with Data._PREFIX_BIT_MAX_NUMBERS.
