From Coq Require Import ZArith List Bool Lia ZifyBool.
From HV Require Import Prelude.Py Prelude.State Bridge.BridgeConsts.
From HV Require Gen.GData Gen.GInt Gen.GTable Gen.GHuff Model.Data Model.Int Model.Table Model.HuffEnc Model.HuffDec.
Open Scope Z_scope.
Lemma b_HeaderTable_get_by_index : forall t i, GTable.HeaderTable_get_by_index t i = Table.HeaderTable_get_by_index t i.
Proof. bridge. Qed.
Print Assumptions b_HeaderTable_get_by_index.
