(** The property theorems RESTATED OVER THE REGENERATED DEFINITIONS (Gen/: what /repo's
    source says now), obtained from the theorems about the frozen model by rewriting with the
    bridge lemmas.  When this file checks, the kernel has checked the properties about the
    translation of the current source itself, not only about the frozen model. *)
From Coq Require Import ZArith List Bool.
From HV Require Import Prelude.Py Prelude.State Prelude.Utf8.
From HV Require Import Spec.IntRep Spec.HuffmanCode Spec.StaticTable Spec.DynTable Spec.SDecoder.
From HV Require Model.Data Model.Int Model.Table Model.HuffEnc Model.HuffDec Model.Decoder Model.Encoder.
From HV Require Import Model.Rel Model.RelEnc.
From HV Require Gen.GData Gen.GInt Gen.GTable Gen.GHuff Gen.GDecoder Gen.GEncoder.
From HV Require Import Proofs.Int Proofs.Table Proofs.HuffSpec Proofs.HuffEnc Proofs.HuffDec Proofs.HuffRound
                       Proofs.DecoderRefine Proofs.EncoderMeaning.
From HV Require Import Bridge.B_enc_add.
Import ListNotations.
Open Scope Z_scope.

(** C15 / C19 on the source: the translation of Encoder.add *)
Theorem src_C19_present_is_indexed : forall e n v s huff i,
  TInv e.(e_tab) -> e.(e_tab).(maxsize) < BIG ->
  lookup i e.(e_tab).(entries) = Some (n, v) ->
  exists w i', GEncoder.Encoder_add e (n, v) s huff = (Ok w, e) /\
    lookup i' e.(e_tab).(entries) = Some (n, v) /\ wire_rep KLIM (RIndexed i') w.
Proof. intros e n v s huff i H1 H2 H3. rewrite b_Encoder_add. exact (add_present e n v s huff i H1 H2 H3). Qed.
Theorem src_C15_encoder_sensitive : forall e n v huff,
  TInv e.(e_tab) -> e.(e_tab).(maxsize) < BIG -> len n < BIG -> len v < BIG ->
  exists w, GEncoder.Encoder_add e (n, v) true huff = (Ok w, e) /\
    ((exists i, lookup i e.(e_tab).(entries) = Some (n, v) /\ wire_rep KLIM (RIndexed i) w) \/
     ((forall i, lookup i e.(e_tab).(entries) <> Some (n, v)) /\
      exists nm, resolve e.(e_tab).(entries) nm = Some n /\ wire_rep KLIM (RLiteral NeverIndexed nm v) w)).
Proof. intros e n v huff H1 H2 H3 H4. rewrite b_Encoder_add. exact (add_sensitive e n v huff H1 H2 H3 H4). Qed.


Print Assumptions src_C19_present_is_indexed.
Print Assumptions src_C15_encoder_sensitive.
