From Coq Require Import ZArith List Bool Lia ZifyBool.
From HV Require Import Prelude.Py Prelude.State Prelude.Utf8 Prelude.PyExtra Bridge.B_dec_lib.
From HV Require Gen.GData Gen.GInt Gen.GTable Gen.GHuff Gen.GDecoder Gen.GEncoder.
From HV Require Model.Data Model.Int Model.Table Model.HuffEnc Model.HuffDec Model.Decoder Model.Encoder.
Import ListNotations.
Open Scope Z_scope.
Lemma b_Decoder__decode_indexed : forall d data, GDecoder.Decoder__decode_indexed d data = Decoder.Decoder__decode_indexed d data.
Proof. intros; unfold GDecoder.Decoder__decode_indexed, Decoder.Decoder__decode_indexed; crush. Qed.
Print Assumptions b_Decoder__decode_indexed.
