(** The property theorems RESTATED OVER THE REGENERATED DEFINITIONS (Gen/: what /repo's
    source says now), obtained from the theorems about the frozen model by rewriting with the
    bridge lemmas.  When this file checks, the kernel has checked the properties about the
    translation of the current source itself, not only about the frozen model. *)
From Coq Require Import ZArith List Bool.
From HV Require Import Prelude.Py Prelude.State Prelude.Utf8.
From HV Require Import Spec.IntRep Spec.HuffmanCode Spec.StaticTable Spec.DynTable Spec.SDecoder.
From HV Require Import Model.Data Model.Int Model.Table Model.Decoder Model.Encoder Model.Api.
From HV Require Import Model.Rel Model.RelEnc Model.Histories.
From HV Require Gen.GData Gen.GInt Gen.GTable Gen.GHuff Gen.GDecoder Gen.GEncoder Gen.GApi Gen.GInit.
From HV Require Import Proofs.Table Proofs.DecoderRefine Proofs.EncoderMeaning Proofs.Lockstep Proofs.ApiForms.
From HV Require Import Bridge.B_dec_decode Bridge.B_api_encode Bridge.B_enc_set_header_table_size Bridge.B_init_Decoder Bridge.B_init_Encoder.
Import ListNotations.
Open Scope Z_scope.

(** C10 on the source. *)
(** The source's Encoder.encode takes a container (list / iterator / dict of header forms); the
    model's [Encoder_encode] works on the canonical list of (name, value, sensitive).
    [fields_container hs] is the Python argument "a list of three-tuples (name bytes, value
    bytes, sensitive)": on it the translation of Encoder.encode IS the model's [Encoder_encode]. *)
Definition fields_container (hs : list field) : container :=
  CList (map (fun f => F3 (PBytes (fst (fst f))) (PBytes (snd (fst f))) (Some (snd f))) hs).
Lemma g_encode_fields : forall e hs huff,
  GApi.Encoder_encode e (fields_container hs) huff = Encoder_encode e hs huff.
Proof.
  intros e hs huff. rewrite b_Encoder_encode.
  unfold Encoder_encode_api, fields_container, container_headers. f_equal.
  rewrite map_map. induction hs as [|[[n v] s] r IH]; [reflexivity|].
  cbn [map]. rewrite IH. destruct s; reflexivity.
Qed.

(** one operation of an encoder history (Model.Encoder.estep), over the regenerated steps *)
Definition g_estep (self : encoder) (o : eop) : outcome bytes * encoder :=
  match o with
  | ESetSize v =>
      match GEncoder.Encoder_set_header_table_size self v with (Ok _, s) => (Ok [], s) | (Err e, s) => (Err e, s) end
  | EEncode hs h => GApi.Encoder_encode self (fields_container hs) h
  end.
Lemma g_estep_eq : forall e o, g_estep e o = estep e o.
Proof.
  intros e [v|hs h]; unfold g_estep, estep;
    [rewrite b_Encoder_set_header_table_size | rewrite g_encode_fields]; reflexivity.
Qed.


(** Model.Histories.in_lockstep, over the regenerated steps *)
Fixpoint g_in_lockstep (d : decoder) (e : encoder) (ops : list (eop * bool)) : Prop :=
  match ops with
  | [] => True
  | (ESetSize v, _) :: r => g_in_lockstep d (snd (g_estep e (ESetSize v))) r
  | (EEncode hs h, raw) :: r =>
      match g_estep e (EEncode hs h) with
      | (Ok w, e') =>
          match GDecoder.Decoder_decode d w raw with
          | (Ok hs', d') =>
              map nv_of_header hs' = map nv_of_field hs /\
              d'.(d_tab).(entries) = e'.(e_tab).(entries) /\
              d'.(d_tab).(maxsize) = e'.(e_tab).(maxsize) /\ g_in_lockstep d' e' r
          | (Err _, _) => False
          end
      | (Err _, _) => False
      end
  end.
Lemma g_in_lockstep_eq : forall ops d e, g_in_lockstep d e ops = in_lockstep d e ops.
Proof.
  induction ops as [|[[v|hs h] raw] r IH]; intros d e; cbn [g_in_lockstep in_lockstep].
  - reflexivity.
  - rewrite g_estep_eq. apply IH.
  - rewrite g_estep_eq. destruct (estep e (EEncode hs h)) as [[w|x] e']; [|reflexivity].
    rewrite b_Decoder_decode. destruct (Decoder_decode d w raw) as [[hs'|x] d']; [|reflexivity].
    rewrite IH. reflexivity.
Qed.

Theorem src_C10_block_lockstep : forall e d hs huff raw,
  TInv e.(e_tab) -> dec_ok d -> Sync e (ctx_of d) -> ctx_sane (ctx_of d) ->
  Forall field_sane hs -> fields_size hs <= d.(d_max_list) ->
  (raw = false -> Forall (fun f => utf8_valid (fst (fst f)) = true /\ utf8_valid (snd (fst f)) = true) hs) ->
  exists w e' hs' d',
    GApi.Encoder_encode e (fields_container hs) huff = (Ok w, e') /\
    GDecoder.Decoder_decode d w raw = (Ok hs', d') /\
    map nv_of_header hs' = map nv_of_field hs /\
    d'.(d_tab).(entries) = e'.(e_tab).(entries) /\ d'.(d_tab).(maxsize) = e'.(e_tab).(maxsize) /\
    e'.(e_changes) = [] /\ e'.(e_tab).(resized) = false /\
    Sync e' (ctx_of d') /\ TInv e'.(e_tab) /\ dec_ok d' /\
    d'.(d_max_allowed) = d.(d_max_allowed) /\ d'.(d_max_list) = d.(d_max_list).
Proof.
  intros e d hs huff raw H1 H2 H3 H4 H5 H6 H7. rewrite g_encode_fields.
  destruct (block_lockstep e d hs huff raw H1 H2 H3 H4 H5 H6 H7) as (w & e' & hs' & d' & A & B & C).
  exists w, e', hs', d'. rewrite b_Decoder_decode. exact (conj A (conj B C)).
Qed.
(** ... for every argument form of the public API *)
Theorem src_C10_api_block_lockstep : forall e d k huff raw,
  TInv e.(e_tab) -> dec_ok d -> Sync e (ctx_of d) -> ctx_sane (ctx_of d) ->
  Forall field_sane (canon k) -> fields_size (canon k) <= d.(d_max_list) ->
  (raw = false -> Forall (fun f => utf8_valid (fst (fst f)) = true /\ utf8_valid (snd (fst f)) = true) (canon k)) ->
  exists w e' hs' d',
    GApi.Encoder_encode e k huff = (Ok w, e') /\
    GDecoder.Decoder_decode d w raw = (Ok hs', d') /\
    map nv_of_header hs' = map nv_of_field (canon k) /\
    d'.(d_tab).(entries) = e'.(e_tab).(entries) /\ d'.(d_tab).(maxsize) = e'.(e_tab).(maxsize) /\
    e'.(e_changes) = [] /\ e'.(e_tab).(resized) = false /\
    Sync e' (ctx_of d') /\ TInv e'.(e_tab) /\ dec_ok d' /\
    d'.(d_max_allowed) = d.(d_max_allowed) /\ d'.(d_max_list) = d.(d_max_list).
Proof.
  intros e d k huff raw H1 H2 H3 H4 H5 H6 H7. rewrite b_Encoder_encode, encode_canon.
  destruct (block_lockstep e d (canon k) huff raw H1 H2 H3 H4 H5 H6 H7) as (w & e' & hs' & d' & A & B & C).
  exists w, e', hs', d'. rewrite b_Decoder_decode. exact (conj A (conj B C)).
Qed.

Theorem src_C10_every_history : forall Lim LL ops, 4096 <= Lim < BIG -> Z.abs LL < 10 ^ 4300 ->
  Forall (pop_ok Lim LL) ops ->
  g_in_lockstep (set_d_max_allowed Lim (GInit.Decoder_init LL)) GInit.Encoder_init ops.
Proof.
  intros Lim LL ops H1 H2 H3. rewrite g_in_lockstep_eq, b_Decoder_init, b_Encoder_init.
  exact (lockstep_history Lim LL ops H1 H2 H3).
Qed.

Example src_C10_same_size_twice :
  (* the D1 history: size 40 set twice, then a block; both sides end with maximum 40 *)
  let e := snd (g_estep (snd (g_estep GInit.Encoder_init (ESetSize 40))) (ESetSize 40)) in
  match g_estep e (EEncode [([Byte.x61], [Byte.x62], false)] false) with
  | (Ok w, e') => match GDecoder.Decoder_decode (GInit.Decoder_init 65536) w true with
                  | (Ok _, d') => (d'.(d_tab).(maxsize) =? 40) && (e'.(e_tab).(maxsize) =? 40)
                  | _ => false end
  | _ => false end = true.
Proof.
  assert (M : match estep (snd (estep (snd (estep Encoder_init (ESetSize 40))) (ESetSize 40)))
                          (EEncode [([Byte.x61], [Byte.x62], false)] false) with
              | (Ok w, e') => match Decoder_decode (Decoder_init 65536) w true with
                              | (Ok _, d') => (d'.(d_tab).(maxsize) =? 40) && (e'.(e_tab).(maxsize) =? 40)
                              | _ => false end
              | _ => false end = true) by (vm_compute; reflexivity).
  cbv zeta. rewrite !g_estep_eq, b_Encoder_init, b_Decoder_init.
  destruct (estep (snd (estep (snd (estep Encoder_init (ESetSize 40))) (ESetSize 40)))
                  (EEncode [([Byte.x61], [Byte.x62], false)] false)) as [[w|x] e'];
    [rewrite b_Decoder_decode|]; exact M.
Qed.

Print Assumptions src_C10_block_lockstep.
Print Assumptions src_C10_api_block_lockstep.
Print Assumptions src_C10_every_history.
Print Assumptions src_C10_same_size_twice.
