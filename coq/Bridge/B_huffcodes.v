(** the encoder's code and length lists of the source are Appendix B for every octet *)
From Coq Require Import ZArith List.
From HV Require Import Prelude.Py Prelude.State Gen.GData Proofs.HuffEnc.
Lemma b_REQUEST_CODES_cert :
  codes_cert {| hc_codes := GData.REQUEST_CODES; hc_lens := GData.REQUEST_CODES_LENGTH |} = true.
Proof. vm_compute. reflexivity. Qed.
