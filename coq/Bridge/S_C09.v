(** The property theorems RESTATED OVER THE REGENERATED DEFINITIONS (Gen/: what /repo's
    source says now), obtained from the theorems about the frozen model by rewriting with the
    bridge lemmas.  When this file checks, the kernel has checked the properties about the
    translation of the current source itself, not only about the frozen model. *)
From Coq Require Import ZArith List Bool.
From HV Require Import Prelude.Py Prelude.State Prelude.Utf8.
From HV Require Import Spec.IntRep Spec.HuffmanCode Spec.StaticTable Spec.DynTable Spec.SDecoder.
From HV Require Import Model.Data Model.Int Model.Table Model.Decoder Model.Encoder Model.Api.
From HV Require Import Model.Rel Model.RelEnc Model.Histories.
From HV Require Gen.GData Gen.GInt Gen.GTable Gen.GHuff Gen.GDecoder Gen.GEncoder Gen.GApi Gen.GInit.
From HV Require Import Proofs.Table Proofs.EncoderMeaning Proofs.Lockstep Proofs.SizeSignal.
From HV Require Import Bridge.B_api_encode Bridge.B_enc_set_header_table_size Bridge.B_init_Encoder.
Import ListNotations.
Open Scope Z_scope.

(** C09 on the source. *)
(** The source's Encoder.encode takes a container (list / iterator / dict of header forms); the
    model's [Encoder_encode] works on the canonical list of (name, value, sensitive).
    [fields_container hs] is the Python argument "a list of three-tuples (name bytes, value
    bytes, sensitive)": on it the translation of Encoder.encode IS the model's [Encoder_encode]. *)
Definition fields_container (hs : list field) : container :=
  CList (map (fun f => F3 (PBytes (fst (fst f))) (PBytes (snd (fst f))) (Some (snd f))) hs).
Lemma g_encode_fields : forall e hs huff,
  GApi.Encoder_encode e (fields_container hs) huff = Encoder_encode e hs huff.
Proof.
  intros e hs huff. rewrite b_Encoder_encode.
  unfold Encoder_encode_api, fields_container, container_headers. f_equal.
  rewrite map_map. induction hs as [|[[n v] s] r IH]; [reflexivity|].
  cbn [map]. rewrite IH. destruct s; reflexivity.
Qed.

(** one operation of an encoder history (Model.Encoder.estep), over the regenerated steps *)
Definition g_estep (self : encoder) (o : eop) : outcome bytes * encoder :=
  match o with
  | ESetSize v =>
      match GEncoder.Encoder_set_header_table_size self v with (Ok _, s) => (Ok [], s) | (Err e, s) => (Err e, s) end
  | EEncode hs h => GApi.Encoder_encode self (fields_container hs) h
  end.
Lemma g_estep_eq : forall e o, g_estep e o = estep e o.
Proof.
  intros e [v|hs h]; unfold g_estep, estep;
    [rewrite b_Encoder_set_header_table_size | rewrite g_encode_fields]; reflexivity.
Qed.


(** Model.Histories.set_all, over the regenerated setter *)
Definition g_set_all (e : encoder) (vs : list Z) : encoder :=
  fold_left (fun e v => snd (g_estep e (ESetSize v))) vs e.
Lemma g_set_all_eq : forall vs e, g_set_all e vs = set_all e vs.
Proof.
  unfold g_set_all, set_all. induction vs as [|v r IH]; intros e; cbn [fold_left]; [reflexivity|].
  rewrite g_estep_eq. apply IH.
Qed.

Theorem src_C09_settings_recorded : forall e c vs, TInv e.(e_tab) -> Sync e c -> e.(e_changes) = [] ->
  Forall (fun v => 0 <= v <= limit c) vs ->
  let e1 := g_set_all e vs in
  e1.(e_changes) = recorded (size c) vs /\ Sync e1 c /\ TInv e1.(e_tab) /\
  e1.(e_tab).(maxsize) = last vs (size c) /\
  e1.(e_tab).(entries) = apply_sizes vs (dyn c).
Proof. intros e c vs H1 H2 H3 H4. rewrite g_set_all_eq. exact (settings_recorded e c vs H1 H2 H3 H4). Qed.

Theorem src_C09_signalled_at_start : forall e c vs hs huff, TInv e.(e_tab) -> Sync e c -> e.(e_changes) = [] ->
  ctx_sane c -> Forall (fun v => 0 <= v <= limit c) vs -> Forall field_sane hs -> fields_size hs <= list_limit c ->
  let e1 := g_set_all e vs in
  exists w e2 rf fs c',
    GApi.Encoder_encode e1 (fields_container hs) huff = (Ok w, e2) /\
    wire_block KLIM (map RSizeUpdate (recorded (size c) vs) ++ rf) w /\
    Forall (fun r => match r with RSizeUpdate _ => False | _ => True end) rf /\
    sem c (map RSizeUpdate (recorded (size c) vs) ++ rf) [] = Some (fs, c') /\
    size c' = e2.(e_tab).(maxsize) /\ size c' = last vs (size c) /\ dyn c' = e2.(e_tab).(entries) /\
    e2.(e_changes) = [] /\ e2.(e_tab).(resized) = false.
Proof.
  intros e c vs hs huff H1 H2 H3 H4 H5 H6 H7. rewrite g_set_all_eq. cbv zeta. rewrite g_encode_fields.
  exact (signalled_at_start e c vs hs huff H1 H2 H3 H4 H5 H6 H7).
Qed.

(** ([recorded] is a function of the settings alone: no model function occurs in this one) *)
Theorem src_C09_smallest_signalled : forall old vs m, In m vs -> (forall v, In v vs -> m <= v) ->
  In m (recorded old vs) \/ m = old.
Proof. exact smallest_signalled. Qed.

Theorem src_C09_nothing_pending_nothing_sent : forall e c hs huff, TInv e.(e_tab) -> Sync e c -> e.(e_changes) = [] ->
  ctx_sane c -> Forall field_sane hs -> fields_size hs <= list_limit c ->
  exists w e2 rf fs c', GApi.Encoder_encode e (fields_container hs) huff = (Ok w, e2) /\ wire_block KLIM rf w /\
    Forall (fun r => match r with RSizeUpdate _ => False | _ => True end) rf /\ sem c rf [] = Some (fs, c').
Proof.
  intros e c hs huff H1 H2 H3 H4 H5 H6. rewrite g_encode_fields.
  exact (nothing_pending_nothing_sent e c hs huff H1 H2 H3 H4 H5 H6).
Qed.

(** KNOWN FINDING (D2): "no update exceeds the size currently in force" is false of the source *)
Theorem src_C09_no_update_exceeds_final_refuted :
  exists vs hs, let e1 := g_set_all GInit.Encoder_init vs in
    e1.(e_tab).(maxsize) = 40 /\
    fst (GApi.Encoder_encode e1 (fields_container hs) false) = Ok [Byte.x3f; Byte.x09; Byte.x3f; Byte.x45; Byte.x3f; Byte.x09; Byte.x82] /\
    In 100 (recorded 4096 vs) /\ 100 > e1.(e_tab).(maxsize).
Proof.
  exists [40; 100; 40], [([Byte.x3a;Byte.x6d;Byte.x65;Byte.x74;Byte.x68;Byte.x6f;Byte.x64], [Byte.x47;Byte.x45;Byte.x54], false)].
  cbv zeta. rewrite g_set_all_eq, b_Encoder_init, g_encode_fields.
  vm_compute. repeat split; try reflexivity. right; left; reflexivity.
Qed.

Print Assumptions src_C09_settings_recorded.
Print Assumptions src_C09_signalled_at_start.
Print Assumptions src_C09_smallest_signalled.
Print Assumptions src_C09_nothing_pending_nothing_sent.
Print Assumptions src_C09_no_update_exceeds_final_refuted.
