From Coq Require Import ZArith List Bool Lia ZifyBool.
From HV Require Import Prelude.Py Prelude.State Prelude.Utf8 Prelude.PyExtra Bridge.B_dec_lib.
From HV Require Gen.GData Gen.GInt Gen.GTable Gen.GHuff Gen.GDecoder Gen.GEncoder.
From HV Require Model.Data Model.Int Model.Table Model.HuffEnc Model.HuffDec Model.Decoder Model.Encoder.
From HV Require Proofs.Int.
Import ListNotations.
Open Scope Z_scope.

(** [prefix[0] |= ord(indexbit)]: CPython loads prefix[0] before it evaluates ord(indexbit), and the
    regenerated text says so (index_Z prefix 0 in front of ord_bytes indexbit); the hand model goes
    straight to ord_bytes.  The two agree because encode_integer never returns an empty bytearray
    ([facts] of Bridge/B_dec_lib.v). *)
Lemma b_Encoder__encode_indexed_literal : forall e i v ib h,
  GEncoder.Encoder__encode_indexed_literal e i v ib h = Encoder.Encoder__encode_indexed_literal i v ib h.
Proof.
  intros; unfold GEncoder.Encoder__encode_indexed_literal, Encoder.Encoder__encode_indexed_literal.
  crush.
Qed.
Print Assumptions b_Encoder__encode_indexed_literal.
