From Coq Require Import ZArith List Bool Lia ZifyBool.
From HV Require Import Prelude.Py Prelude.State Prelude.Utf8 Prelude.PyExtra Bridge.B_dec_lib.
From HV Require Gen.GData Gen.GInt Gen.GTable Gen.GHuff Gen.GDecoder Gen.GEncoder.
From HV Require Model.Data Model.Int Model.Table Model.HuffEnc Model.HuffDec Model.Decoder Model.Encoder.
From HV Require Proofs.Int.
Import ListNotations.
Open Scope Z_scope.

(** [prefix[0] |= ord(indexbit)]: CPython loads prefix[0] before it evaluates ord(indexbit), and the
    regenerated text says so (index_Z prefix 0 in front of ord_bytes indexbit); the hand model goes
    straight to ord_bytes.  The two agree because encode_integer never returns an empty bytearray. *)
Lemma encode_integer_first n N p : Int.encode_integer n N = Ok p -> exists b, index_Z p 0 = Ok b.
Proof.
  intros H.
  destruct (Z_lt_le_dec n 0) as [Hn|Hn]; [rewrite Proofs.Int.enc_refuses in H by lia; discriminate H|].
  destruct (Z_lt_le_dec N 1) as [H1|H1]; [rewrite Proofs.Int.enc_refuses in H by lia; discriminate H|].
  destruct (Z_lt_le_dec 8 N) as [H8|H8]; [rewrite Proofs.Int.enc_refuses in H by lia; discriminate H|].
  destruct (Proofs.Int.encode_integer_ok n N Hn (conj H1 H8)) as (bs & Hb & _ & Hne).
  rewrite Hb in H. injection H as ->.
  destruct p as [|b r]; [congruence|]. exists b. apply Proofs.Int.index_Z_0_cons.
Qed.

Ltac first_octet :=
  try match goal with
  | H : Int.encode_integer _ _ = Ok ?p |- context [index_Z ?p 0] =>
      let b := fresh "b" in let Hb := fresh "Hb" in
      destruct (encode_integer_first _ _ _ H) as [b Hb]; rewrite Hb
  end.

Lemma b_Encoder__encode_indexed_literal : forall e i v ib h,
  GEncoder.Encoder__encode_indexed_literal e i v ib h = Encoder.Encoder__encode_indexed_literal i v ib h.
Proof.
  intros; unfold GEncoder.Encoder__encode_indexed_literal, Encoder.Encoder__encode_indexed_literal.
  crush_with first_octet.
Qed.
Print Assumptions b_Encoder__encode_indexed_literal.
