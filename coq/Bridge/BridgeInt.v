(** The SEMANTIC bridge for [encode_integer]: when the regenerated text is no longer the frozen model's up to
    the structural cascade of Bridge/BridgeTac.v (the continuation octets appended straight into the
    returned [bytearray] instead of collected in a list, [| 0x80] for [+ 128], another variable for the
    remainder, hence another fuel expression), the regenerated function is shown to satisfy the COMPLETE
    characterisation of the model's function:

      - [n < 0] or [p] outside 1..8:   [Err ValueError]
      - otherwise:                     [Ok bs] with [map bz bs = Spec.IntRep.int_enc p n]

    which determines it ([enc_char], from Proofs.Int.enc_exact / enc_refuses and injectivity of [map bz]).

    The characterisation is established by symbolic evaluation of the regenerated body ([oeval]): tests
    decided by [lia] (or analysed), [bytearray_of] / [append_byte] / the table lookup rewritten to their
    values (side conditions: the appended integers are octets), and the loop replaced by its result through
    [emit_loop_view]: any loop whose body, seen through a view [v : S -> Z * list E] of its state (E = byte:
    a [bytearray] filled in place; E = Z: a list converted at the end), is

        (m, bs)  |->  if m < 128 then break else (m / 128, bs ++ [m mod 128 + 128])

    run with a fuel of the translator's shape [S (Z.to_nat (Z.log2_up X))], [m <= X], ends in [Done] with
    the octets of [cont_enc m] appended but the last, which is left in [m].  That lemma is proved ONCE, by
    the generic simulation [while_fuel_sim] (Bridge/BridgeSim.v) against the model's loop body and
    Proofs.Int.enc_loop; what the tactic proves for the text at hand is the one-step equation, an equality
    of [ctl] terms up to arithmetic (bound variable names, the order of the state components, the spelling
    of the masks and of the tests do not matter). *)
From Coq Require Import ZArith List Bool Lia ZifyBool.
From Coq Require Import Init.Byte.
From HV Require Import Prelude.Py Prelude.State Spec.IntRep.
From HV Require Import Bridge.BridgeConsts Bridge.BridgeSim.
From HV Require Model.Data Model.Int.
From HV Require Import Proofs.Int.
Import ListNotations.
Open Scope Z_scope.

(** * The characterisation determines the function *)
Definition enc_post (p n : Z) (o : outcome bytes) : Prop :=
  match o with Ok bs => map bz bs = int_enc p n | Err _ => False end.

Lemma enc_char (f : Z -> Z -> outcome bytes) :
  (forall n p, n < 0 \/ p < 1 \/ 8 < p -> f n p = Err ValueError) ->
  (forall n p, 0 <= n -> 1 <= p <= 8 -> enc_post p n (f n p)) ->
  forall n p, f n p = Int.encode_integer n p.
Proof.
  intros Hbad Hok n p.
  destruct (Z_lt_le_dec n 0) as [Ln|Ln]; [rewrite Hbad, enc_refuses by lia; reflexivity|].
  destruct (Z_lt_le_dec p 1) as [L1|L1]; [rewrite Hbad, enc_refuses by lia; reflexivity|].
  destruct (Z_lt_le_dec 8 p) as [L8|L8]; [rewrite Hbad, enc_refuses by lia; reflexivity|].
  destruct (enc_exact n p Ln (conj L1 L8)) as (bs & Hb & Hm). rewrite Hb.
  specialize (Hok n p Ln (conj L1 L8)). destruct (f n p) as [bs'|e]; cbn [enc_post] in Hok; [|contradiction].
  f_equal. apply map_bz_inj. congruence.
Qed.

(** * The loop *)
Lemma fuel_ok m X : 0 <= m <= X -> 0 <= m < 128 ^ Z.of_nat (S (Z.to_nat (Z.log2_up X))).
Proof. intros H. pose proof (log2_up_bound X ltac:(lia)). lia. Qed.

(** The octets so far are a list of [E]: bytes ([inj := byte_of], [val := bz]: a [bytearray] filled in
    place) or integers ([inj], [val] the identity: a list converted at the end). *)
Section Emit.
  Context {E : Type} (inj : Z -> E) (val : E -> Z).
  Hypothesis val_inj : forall z, 0 <= z < 256 -> val (inj z) = z.

  (** one step, on the canonical state (remainder, octets so far) *)
  Definition emit_step {R} (t : Z * list E) : ctl (Z * list E) R :=
    let '(m, bs) := t in
    if m <? 128 then Break (m, bs) else Next (m / 128, bs ++ [inj (m mod 128 + 128)]).

  (** the canonical loop against the model's ([Proofs.Int.enc_body], state (remainder, list of integers)) *)
  Lemma emit_loop {R} f m bs : 0 <= m < 128 ^ Z.of_nat (S f) ->
    exists x bs', while_fuel (S f) (@emit_step R) (m, bs) = Done (x, bs') /\
                  0 <= x < 128 /\ map val bs' ++ [x] = map val bs ++ cont_enc m.
  Proof.
    intros H.
    set (RN := fun (s1 : Z * list E) (s2 : Z * list Z) =>
                 fst s1 = fst s2 /\ 0 <= fst s1 /\ map val (snd s1) = snd s2).
    set (RB := fun (s1 : Z * list E) (s2 : Z * list Z) => RN s1 s2 /\ fst s1 < 128).
    pose proof (while_fuel_sim RN RB (fun _ _ _ _ => True) (fun _ _ _ _ => True) (@emit_step R) enc_body) as SIM.
    assert (STEP : forall s1 s2, RN s1 s2 ->
                   ctl_rel RN RB (fun _ _ _ _ => True) (fun _ _ _ _ => True) (@emit_step R s1) (enc_body s2)).
    { intros [m1 bs1] [m2 els] (E1 & E2 & E3). cbn [fst snd] in *. subst m2 els.
      rewrite enc_body_eq. unfold emit_step. destruct (m1 <? 128) eqn:E0.
      - apply cr_break. unfold RB, RN. cbn [fst snd]. repeat split; lia.
      - apply cr_next. unfold RN. cbn [fst snd]. repeat split; try lia.
        rewrite map_app. cbn [map]. rewrite val_inj; [reflexivity|].
        pose proof (Z.mod_pos_bound m1 128 ltac:(lia)). lia. }
    specialize (SIM STEP (S f) (m, bs) (m, map val bs)).
    destruct (enc_loop f m (map val bs) H) as (x & els' & HW & HE).
    rewrite HW in SIM. rewrite (cont_enc_fuel_eq f m H) in HE.
    assert (R0 : RN (m, bs) (m, map val bs)) by (unfold RN; cbn [fst snd]; repeat split; lia).
    specialize (SIM R0).
    destruct (while_fuel (S f) (@emit_step R) (m, bs)) as [[x1 bs1]| | |] eqn:W;
      inversion SIM as [s1 s2 HB E1 E2| | |]; subst s1 s2.
    destruct HB as ((F1 & F2 & F3) & F4). cbn [fst snd] in *. subst x els'.
    exists x1, bs1. split; [reflexivity|]. split; [lia|exact HE].
  Qed.

  (** any loop that is the canonical one through a view [v] of its state *)
  Lemma emit_loop_view {S R} (v : S -> Z * list E) (b : S -> ctl S R) F X s0 :
    F = Datatypes.S (Z.to_nat (Z.log2_up X)) ->
    (forall s, 0 <= fst (v s) -> map_ctl v (b s) = emit_step (v s)) ->
    0 <= fst (v s0) <= X ->
    exists s', while_fuel F b s0 = Done s' /\ 0 <= fst (v s') < 128 /\
               map val (snd (v s')) ++ [fst (v s')] = map val (snd (v s0)) ++ cont_enc (fst (v s0)).
  Proof.
    intros -> Hstep H0.
    pose proof (while_fuel_view v (fun t => 0 <= fst t) b (@emit_step R) Hstep) as V.
    assert (INV : forall t : Z * list E, 0 <= fst t -> match @emit_step R t with Next t' => 0 <= fst t' | _ => True end).
    { intros [m bs] Hm. cbn [fst] in Hm. unfold emit_step. destruct (m <? 128); [exact I|].
      cbn [fst]. apply Z.div_pos; lia. }
    specialize (V INV (Datatypes.S (Z.to_nat (Z.log2_up X))) s0 (proj1 H0)).
    destruct (v s0) as [m0 bs0] eqn:E0. cbn [fst snd] in *.
    destruct (@emit_loop R _ m0 bs0 (fuel_ok m0 X H0)) as (x & bs' & HW & Hx & HM).
    rewrite HW in V.
    destruct (while_fuel (Datatypes.S (Z.to_nat (Z.log2_up X))) b s0) as [s'| | |]; cbn [map_lres] in V; try discriminate V.
    injection V as V. exists s'. rewrite V. cbn [fst snd]. repeat split; try lia. exact HM.
  Qed.
End Emit.

Definition emit_loop_view_bytes {S R} := @emit_loop_view byte byte_of bz bz_byte_of S R.
Definition emit_loop_view_ints {S R} := @emit_loop_view Z (fun z => z) (fun z => z) (fun z _ => eq_refl) S R.

Lemma map_bz_byte_of l : Forall octet l -> map bz (map byte_of l) = l.
Proof. induction 1 as [|z r Hz Hr IH]; [reflexivity|]. cbn [map]. rewrite (bz_byte_of z Hz), IH. reflexivity. Qed.

(** * Values of the partial operations, in rewritable form *)
Lemma py_format_d_cases x : py_format_d x = Ok tt \/ py_format_d x = Err ValueError.
Proof. unfold py_format_d. destruct (10 ^ 4300 <=? Z.abs x); [right|left]; reflexivity. Qed.

Lemma index_prefix_data p : 1 <= p <= 8 -> index_Z Data._PREFIX_BIT_MAX_NUMBERS p = Ok (pmax p).
Proof. exact (index_prefix p). Qed.

(** * The tactics *)
(** the views of a loop state that are tried: the state itself, or its two components swapped; the octets
    are bytes or integers *)
Definition view_id {E} (s : Z * list E) : Z * list E := s.
Definition view_swap {E} (s : list E * Z) : Z * list E := (snd s, fst s).
Ltac each_view k :=
  first [ k uconstr:(emit_loop_view_bytes view_id) | k uconstr:(emit_loop_view_bytes view_swap)
        | k uconstr:(emit_loop_view_ints view_id) | k uconstr:(emit_loop_view_ints view_swap) ].
Ltac unfold_views := cbv beta iota delta [view_id view_swap fst snd] in *.

(** [c = true] / [c = false] when arithmetic decides it, a case analysis otherwise *)
Ltac decide_test c :=
  let E := fresh "E" in
  first [ assert (E : c = true) by lia; rewrite E
        | assert (E : c = false) by lia; rewrite E
        | destruct c eqn:E ].

(** the lists of integers in sight are lists of octets *)
Ltac octets :=
  solve [ repeat first [ apply Forall_nil | apply Forall_cons; [lia|] | apply cont_enc_octets; lia
                       | apply Forall_app; split ] ].

(** the one-step equation [map_ctl v (body s) = emit_step (v s)] *)
Ltac emit_step_eq :=
  let s := fresh "s" in let Hs := fresh "Hs" in
  intros s Hs; destruct_pairs; unfold_views; unfold emit_step;
  (* the side of the specification first: [m <? 128] *)
  match goal with |- _ = (if ?c then _ else _) => destruct c eqn:? end;
  repeat (cbv beta iota zeta;
          match goal with
          | |- map_ctl _ (if ?c then _ else _) = _ => decide_test c
          | |- map_ctl _ (match append_byte ?bs ?z with _ => _ end) = _ =>
              rewrite (append_byte_ok bs z) by (bitnorm; lia)
          | |- map_ctl _ (match bind (append_byte ?bs ?z) _ with _ => _ end) = _ =>
              rewrite (append_byte_ok bs z) by (bitnorm; lia); cbn [bind]
          end);
  cbv beta iota zeta; cbn [map_ctl]; unfold_views; zcong.

(** the loop at the head of the value under evaluation is replaced by its result *)
Ltac loop_result :=
  match goal with
  | |- context [while_fuel ?F ?b ?s0] =>
      each_view ltac:(fun lem =>
        let s' := fresh "s'" in let HW := fresh "HW" in let Hx := fresh "Hx" in let HM := fresh "HM" in
        let L := fresh "L" in
        pose proof (fun X => lem b F X s0) as L;
        edestruct L as (s' & HW & Hx & HM); clear L;
        [ reflexivity | emit_step_eq | unfold_views; lia | ];
        (* [replace], not [rewrite]: the state types may be spelt differently ([bytes] / [list byte]) *)
        lazymatch type of (while_fuel F b s0) with
        | lres _ ?R => replace (while_fuel F b s0) with (Done (R := R) s') by (symmetry; exact HW)
        end;
        clear HW; destruct_pairs; unfold_views;
        cbn [map app] in HM; rewrite ?map_id in HM;
        repeat match type of HM with context [bz (byte_of ?z)] => rewrite (bz_byte_of z) in HM by lia end)
  end.

(** one step of evaluation of the value [t] in a goal [enc_post p n t] or [t = Err ValueError] *)
Ltac oeval_head t :=
  lazymatch t with
  | (if ?c then _ else _) => decide_test c
  | (let x := _ in _) => cbv zeta
  | bind (py_format_d ?x) _ =>
      let E := fresh "E" in destruct (py_format_d_cases x) as [E|E]; rewrite E; clear E; cbn [bind]
  | bind (index_Z _ ?p) _ => rewrite (index_prefix_data p) by lia; cbn [bind]
  | bind (bytearray_of ?l) _ =>
      (* a list grown by a loop: what the loop lemma says it is *)
      try match goal with HM : l = _ |- _ => rewrite HM end;
      lazymatch goal with |- context [bind (bytearray_of ?l') _] =>
        rewrite (bytearray_of_ok l') by octets; cbn [bind] end
  | bind (append_byte ?bs ?z) _ => rewrite (append_byte_ok bs z) by lia; cbn [bind]
  | match append_byte ?bs ?z with _ => _ end => rewrite (append_byte_ok bs z) by lia; cbv beta iota
  | match while_fuel _ _ _ with _ => _ end => loop_result; cbv beta iota
  | bind (Ok _) _ => cbn [bind]
  end.

(** the value is known: [Ok bs] against the specification, [Err ValueError] against itself *)
Ltac oeval_done :=
  lazymatch goal with
  | |- Err ?e = Err ?e => reflexivity
  | |- enc_post ?p ?n (Ok ?bs) =>
      cbn [enc_post]; unfold int_enc;
      (* which case of the specification: the test the text made (however it spelt it: [n <? pmax p],
         [n - pmax p <? 0], ...) is among the hypotheses, arithmetic decides *)
      first [ match goal with H : (n <? pmax p) = _ |- _ => rewrite H end
            | let E := fresh "E" in
              first [ assert (E : (n <? pmax p) = true) by lia | assert (E : (n <? pmax p) = false) by lia ];
              rewrite E; clear E ];
      rewrite ?map_app; cbn [map app];
      rewrite ?bz_byte_of by lia; rewrite ?map_bz_byte_of by octets;
      first [ reflexivity | assumption | congruence ]
  end.

Ltac oeval :=
  first [ solve [ exfalso; lia ]
        | oeval_done
        | lazymatch goal with
          | |- enc_post _ _ ?t => oeval_head t
          | |- ?t = Err ValueError => oeval_head t
          end; oeval ].

(** the fallback of [b_encode_integer] *)
Ltac enc_int_bridge :=
  lazymatch goal with
  | |- forall n p, ?f n p = Int.encode_integer n p =>
      apply (enc_char f);
      [ let n := fresh "n" in let p := fresh "p" in let H := fresh "H" in
        intros n p H; cbv delta [f]; cbv beta; norm_consts; oeval
      | let n := fresh "n" in let p := fresh "p" in let Hn := fresh "Hn" in let Hp := fresh "Hp" in
        intros n p Hn Hp; pose proof (pmax_range p Hp); cbv delta [f]; cbv beta; norm_consts; oeval ]
  end.
