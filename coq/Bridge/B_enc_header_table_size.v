From Coq Require Import ZArith List Bool Lia ZifyBool.
From HV Require Import Prelude.Py Prelude.State Prelude.Utf8 Prelude.PyExtra Bridge.B_dec_lib.
From HV Require Gen.GData Gen.GInt Gen.GTable Gen.GHuff Gen.GDecoder Gen.GEncoder.
From HV Require Model.Data Model.Int Model.Table Model.HuffEnc Model.HuffDec Model.Decoder Model.Encoder.
Import ListNotations.
Open Scope Z_scope.
Lemma b_Encoder_header_table_size : forall e, GEncoder.Encoder_header_table_size e = Encoder.Encoder_header_table_size e.
Proof. intros; unfold GEncoder.Encoder_header_table_size, Encoder.Encoder_header_table_size; crush. Qed.
Print Assumptions b_Encoder_header_table_size.
