From Coq Require Import ZArith List Bool Lia ZifyBool.
From HV Require Import Prelude.Py Prelude.State Bridge.BridgeConsts.
From HV Require Import Prelude.PyExtra Bridge.BridgeHex.
From HV Require Gen.GData Gen.GInt Gen.GTable Gen.GHuff Model.Data Model.Int Model.Table Model.HuffEnc Model.HuffDec.
Open Scope Z_scope.
Lemma b_HuffmanEncoder_encode : forall c s, GHuff.HuffmanEncoder_encode c s = HuffEnc.HuffmanEncoder_encode c s.
Proof.
  first
    [ solve [ bridge ]
    | (* the hexadecimal text written with format(n, "x") / f"{n:x}" and zfill: the case analysis of the cascade, with
         the new spellings rewritten into the old ones (Bridge/BridgeHex.v; valid for all integers and strings) as
         soon as they show up *)
      solve [ bridge_crush ltac:(hex_rw) ] ].
Qed.
Print Assumptions b_HuffmanEncoder_encode.
