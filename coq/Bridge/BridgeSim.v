(** Reusable lemmas for bridges that are NOT structural: the regenerated definition computes the same
    thing as the frozen model with another loop state (a [bytearray] filled in place instead of a list
    converted at the end), another fuel, another spelling of the arithmetic.

    - simulation of two [while_fuel] / [for_each] loops over different state types, related by relations
      that the bodies preserve ([while_fuel_sim], [for_each_sim]); the functional special case with an
      invariant ([while_fuel_view]: the state of one loop is a view of the state of the other);
      invariants ([while_fuel_inv]); fuel monotonicity ([while_fuel_more], [while_fuel_fuel_irrel]);
    - [bytearray_of] / [append_byte] / [zb] / [bz]: a total inverse [byte_of] of [bz] on 0..255, so that
      the successful cases can be REWRITTEN ([append_byte_ok], [bytearray_of_ok]); [bytearray_of] of a
      list grown at the end is [append_byte] ([bytearray_of_snoc], [bytearray_of_app]); [map bz] is
      injective;
    - [x | 2^k = x + 2^k] below 2^k ([lor_pow2_add], [lor_128_add]).

    Nothing here mentions hpack. *)
From Coq Require Import ZArith List Bool Lia ZifyBool.
From Coq Require Import Init.Byte.
From HV Require Import Prelude.Py Bridge.BridgeTac.
Import ListNotations.
Open Scope Z_scope.

(** * Simulation of loops *)
Section Sim.
  Context {S1 S2 R1 R2 : Type}.
  (** [RN]: states at the head of an iteration (and when the fuel runs out); [RB]: after the loop;
      [RR], [RE]: at a [return] / [raise] inside the loop. *)
  Variables (RN RB : S1 -> S2 -> Prop)
            (RR : R1 -> S1 -> R2 -> S2 -> Prop) (RE : exn -> S1 -> exn -> S2 -> Prop).

  Inductive ctl_rel : ctl S1 R1 -> ctl S2 R2 -> Prop :=
  | cr_next s1 s2 : RN s1 s2 -> ctl_rel (Next s1) (Next s2)
  | cr_break s1 s2 : RB s1 s2 -> ctl_rel (Break s1) (Break s2)
  | cr_return r1 s1 r2 s2 : RR r1 s1 r2 s2 -> ctl_rel (Return r1 s1) (Return r2 s2)
  | cr_raise e1 s1 e2 s2 : RE e1 s1 e2 s2 -> ctl_rel (Raise e1 s1) (Raise e2 s2).

  Inductive lres_rel : lres S1 R1 -> lres S2 R2 -> Prop :=
  | lr_done s1 s2 : RB s1 s2 -> lres_rel (Done s1) (Done s2)
  | lr_returned r1 s1 r2 s2 : RR r1 s1 r2 s2 -> lres_rel (Returned r1 s1) (Returned r2 s2)
  | lr_raised e1 s1 e2 s2 : RE e1 s1 e2 s2 -> lres_rel (Raised e1 s1) (Raised e2 s2)
  | lr_exhausted s1 s2 : RN s1 s2 -> lres_rel (Exhausted s1) (Exhausted s2).

  Lemma while_fuel_sim (b1 : S1 -> ctl S1 R1) (b2 : S2 -> ctl S2 R2) :
    (forall s1 s2, RN s1 s2 -> ctl_rel (b1 s1) (b2 s2)) ->
    forall fuel s1 s2, RN s1 s2 -> lres_rel (while_fuel fuel b1 s1) (while_fuel fuel b2 s2).
  Proof.
    intros H fuel; induction fuel as [|k IH]; intros s1 s2 HR; cbn [while_fuel].
    - constructor; exact HR.
    - destruct (H s1 s2 HR); try (constructor; assumption). apply IH; assumption.
  Qed.

  (** [for x in xs] against [for y in ys]: the elements are related pairwise *)
  Lemma for_each_sim {A1 A2} (RA : A1 -> A2 -> Prop)
        (b1 : A1 -> S1 -> ctl S1 R1) (b2 : A2 -> S2 -> ctl S2 R2) :
    (RN = RB) ->
    (forall a1 a2 s1 s2, RA a1 a2 -> RN s1 s2 -> ctl_rel (b1 a1 s1) (b2 a2 s2)) ->
    forall xs ys, Forall2 RA xs ys ->
    forall s1 s2, RN s1 s2 -> lres_rel (for_each xs b1 s1) (for_each ys b2 s2).
  Proof.
    intros HNB H xs ys HF; induction HF as [|x y xs ys Hxy HF IH]; intros s1 s2 HR; cbn [for_each].
    - constructor. rewrite <- HNB. exact HR.
    - destruct (H x y s1 s2 Hxy HR); try (constructor; assumption). apply IH; assumption.
  Qed.
End Sim.
Arguments cr_next {S1 S2 R1 R2 RN RB RR RE}.
Arguments cr_break {S1 S2 R1 R2 RN RB RR RE}.

(** * Invariants *)
Section Inv.
  Context {S R : Type}.
  Variables (I J : S -> Prop).
  Definition ctl_inv (c : ctl S R) : Prop :=
    match c with Next s => I s | Break s => J s | _ => True end.
  Definition lres_inv (c : lres S R) : Prop :=
    match c with Done s => J s | Exhausted s => I s | _ => True end.
  Lemma while_fuel_inv (b : S -> ctl S R) :
    (forall s, I s -> ctl_inv (b s)) -> forall fuel s, I s -> lres_inv (while_fuel fuel b s).
  Proof.
    intros H fuel; induction fuel as [|k IH]; intros s Hs; cbn [while_fuel lres_inv]; [exact Hs|].
    specialize (H s Hs). destruct (b s); cbn [ctl_inv lres_inv] in *; auto.
  Qed.
End Inv.

(** * One loop is the other seen through a function of its state, under an invariant of the view.
    ([while_fuel_map] of Bridge/BridgeTac.v is the case [I := fun _ => True].) *)
Lemma while_fuel_view {S T R} (v : S -> T) (I : T -> Prop) (g : S -> ctl S R) (h : T -> ctl T R) :
  (forall s, I (v s) -> map_ctl v (g s) = h (v s)) ->
  (forall t, I t -> match h t with Next t' => I t' | _ => True end) ->
  forall fuel s, I (v s) -> map_lres v (while_fuel fuel g s) = while_fuel fuel h (v s).
Proof.
  intros H HI fuel; induction fuel as [|k IH]; intros s Hs; cbn [while_fuel map_lres]; [reflexivity|].
  specialize (H s Hs). specialize (HI (v s) Hs). rewrite <- H in *.
  destruct (g s); cbn [map_ctl map_lres] in *; auto.
Qed.

(** * Fuel: a loop that ends within its fuel gives the same result with more *)
Definition exhausted {S R} (r : lres S R) : bool := match r with Exhausted _ => true | _ => false end.

Lemma while_fuel_S_more {S R} (b : S -> ctl S R) : forall fuel s,
  exhausted (while_fuel fuel b s) = false -> while_fuel (Datatypes.S fuel) b s = while_fuel fuel b s.
Proof.
  induction fuel as [|k IH]; intros s H; [discriminate H|].
  change (while_fuel (Datatypes.S (Datatypes.S k)) b s)
    with (match b s with Next s' => while_fuel (Datatypes.S k) b s' | Break s' => Done s'
                       | Return r s' => Returned r s' | Raise e s' => Raised e s' end).
  cbn [while_fuel] in H |- *. destruct (b s); try reflexivity. apply IH. exact H.
Qed.

Lemma while_fuel_more {S R} (b : S -> ctl S R) fuel s :
  exhausted (while_fuel fuel b s) = false ->
  forall fuel', (fuel <= fuel')%nat -> while_fuel fuel' b s = while_fuel fuel b s.
Proof.
  intros H fuel' Hle. induction Hle as [|m Hle IH]; [reflexivity|].
  rewrite while_fuel_S_more; [exact IH | rewrite IH; exact H].
Qed.

Lemma while_fuel_fuel_irrel {S R} (b : S -> ctl S R) f1 f2 s :
  exhausted (while_fuel f1 b s) = false -> exhausted (while_fuel f2 b s) = false ->
  while_fuel f1 b s = while_fuel f2 b s.
Proof.
  intros H1 H2. destruct (Nat.le_ge_cases f1 f2) as [L|L].
  - symmetry. apply while_fuel_more; assumption.
  - apply while_fuel_more; assumption.
Qed.

(** * Bytes *)
(** the byte of an integer of 0..255 (anything elsewhere) *)
Definition byte_of (z : Z) : byte := match zb z with Some b => b | None => x00 end.

Lemma zb_ok z : 0 <= z < 256 -> zb z = Some (byte_of z).
Proof.
  intros H. unfold byte_of, zb. destruct (z <? 0) eqn:E; [lia|].
  destruct (Byte.of_N (Z.to_N z)) as [b|] eqn:B; [reflexivity|].
  apply Byte.of_N_None_iff in B. lia.
Qed.
Lemma bz_byte_of z : 0 <= z < 256 -> bz (byte_of z) = z.
Proof.
  intros H. pose proof (zb_ok z H) as E. unfold zb in E. destruct (z <? 0) eqn:E0; [lia|].
  apply Byte.to_of_N in E. unfold bz. rewrite E. lia.
Qed.
Lemma zb_bz_ b : zb (bz b) = Some b.
Proof.
  unfold zb, bz. destruct (Z.of_N (Byte.to_N b) <? 0) eqn:E; [lia|].
  rewrite N2Z.id. apply Byte.of_to_N.
Qed.
Lemma byte_of_bz b : byte_of (bz b) = b.
Proof. unfold byte_of. rewrite zb_bz_. reflexivity. Qed.
Lemma zb_some z b : zb z = Some b -> 0 <= z < 256 /\ bz b = z.
Proof.
  unfold zb. destruct (z <? 0) eqn:E; [discriminate|]. intros H.
  apply Byte.to_of_N in H. unfold bz. rewrite H. pose proof (Byte.to_N_bounded b). lia.
Qed.
Lemma zb_none z : zb z = None -> z < 0 \/ 256 <= z.
Proof.
  intros H. destruct (Z_lt_le_dec z 0) as [L|L]; [left; exact L|].
  destruct (Z_lt_le_dec z 256) as [L2|L2]; [|right; exact L2].
  rewrite zb_ok in H by lia. discriminate H.
Qed.

Lemma map_bz_inj : forall a b : bytes, map bz a = map bz b -> a = b.
Proof.
  induction a as [|x a IH]; intros [|y b] H; try discriminate H; [reflexivity|].
  cbn [map] in H. injection H as Hxy Hab.
  f_equal; [|apply IH; exact Hab].
  rewrite <- (byte_of_bz x), <- (byte_of_bz y), Hxy. reflexivity.
Qed.

(** [bytearray.append] *)
Lemma append_byte_ok bs z : 0 <= z < 256 -> append_byte bs z = Ok (bs ++ [byte_of z]).
Proof. intros H. unfold append_byte. rewrite (zb_ok z H). reflexivity. Qed.
Lemma append_byte_bad bs z : z < 0 \/ 256 <= z -> append_byte bs z = Err ValueError.
Proof.
  intros H. unfold append_byte. destruct (zb z) as [b|] eqn:E; [|reflexivity].
  apply zb_some in E. lia.
Qed.
Lemma append_byte_inv bs z r : append_byte bs z = Ok r -> 0 <= z < 256 /\ map bz r = map bz bs ++ [z].
Proof.
  unfold append_byte. destruct (zb z) as [b|] eqn:E; [|discriminate]. intros H. injection H as <-.
  apply zb_some in E. destruct E as [E1 E2]. split; [exact E1|]. rewrite map_app. cbn [map]. rewrite E2. reflexivity.
Qed.
Lemma append_byte_err bs z e : append_byte bs z = Err e -> e = ValueError.
Proof. unfold append_byte. destruct (zb z); [discriminate|]. intros H. injection H as <-. reflexivity. Qed.

(** [bytearray(list)] *)
Lemma bytearray_of_ok l : Forall (fun z => 0 <= z < 256) l -> bytearray_of l = Ok (map byte_of l).
Proof.
  induction 1 as [|z r Hz Hr IH]; [reflexivity|].
  cbn [bytearray_of map]. rewrite (zb_ok z Hz), IH. reflexivity.
Qed.
Lemma bytearray_of_map_bz bs : bytearray_of (map bz bs) = Ok bs.
Proof.
  induction bs as [|b bs IH]; [reflexivity|]. cbn [map bytearray_of]. rewrite zb_bz_, IH. reflexivity.
Qed.
Lemma bytearray_of_inv l bs : bytearray_of l = Ok bs -> map bz bs = l.
Proof.
  revert bs; induction l as [|z r IH]; intros bs H; cbn [bytearray_of] in H.
  - injection H as <-. reflexivity.
  - destruct (zb z) as [b|] eqn:E; [|discriminate H].
    destruct (bytearray_of r) as [rest|e]; cbn [bind] in H; [|discriminate H].
    injection H as <-. cbn [map]. apply zb_some in E. destruct E as [_ ->]. rewrite (IH rest eq_refl). reflexivity.
Qed.
Lemma bytearray_of_err l e : bytearray_of l = Err e -> e = ValueError.
Proof.
  induction l as [|z r IH]; cbn [bytearray_of]; [discriminate|].
  destruct (zb z); [|intros H; injection H as <-; reflexivity].
  destruct (bytearray_of r) as [rest|e']; cbn [bind]; [discriminate|].
  intros H. injection H as <-. apply IH. reflexivity.
Qed.

(** a list converted after it was grown at the end = the converted list, appended to (exactly: the
    failures are the same [ValueError]) *)
Lemma bytearray_of_snoc l x :
  bytearray_of (l ++ [x]) = (bs <- bytearray_of l ;; append_byte bs x).
Proof.
  induction l as [|z r IH]; cbn [app bytearray_of].
  - unfold append_byte. destruct (zb x); reflexivity.
  - destruct (zb z) as [b|]; [|reflexivity]. rewrite IH.
    destruct (bytearray_of r) as [rest|e]; cbn [bind]; [|reflexivity].
    unfold append_byte. destruct (zb x); reflexivity.
Qed.
Lemma bytearray_of_app l : forall l',
  bytearray_of (l ++ l') = (bs <- bytearray_of l ;; bs' <- bytearray_of l' ;; Ok (bs ++ bs')).
Proof.
  induction l as [|z r IH]; intros l'; cbn [app bytearray_of bind].
  - destruct (bytearray_of l'); reflexivity.
  - destruct (zb z) as [b|]; [|reflexivity]. rewrite IH.
    destruct (bytearray_of r) as [rest|e]; cbn [bind]; [|reflexivity].
    destruct (bytearray_of l'); reflexivity.
Qed.

(** * Setting a bit that is clear *)
Lemma lor_pow2_add x k : 0 <= k -> 0 <= x < 2 ^ k -> Z.lor x (2 ^ k) = x + 2 ^ k.
Proof.
  intros Hk Hx. pose proof (lor_add_c 1 (2 ^ k) x k) as L.
  rewrite Z.lor_comm. rewrite Z.mul_1_l in L. rewrite L; [lia | apply Z.leb_le; exact Hk | apply Z.eqb_refl | exact Hx].
Qed.
Lemma lor_128_add a : 0 <= a < 128 -> Z.lor a 128 = a + 128.
Proof. intros H. exact (lor_pow2_add a 7 ltac:(lia) H). Qed.
Lemma land_127_mod a : Z.land a 127 = a mod 128.
Proof. change 127 with (Z.ones 7). rewrite Z.land_ones by lia. reflexivity. Qed.
Lemma shiftr_7_div a : Z.shiftr a 7 = a / 128.
Proof. rewrite Z.shiftr_div_pow2 by lia. reflexivity. Qed.
