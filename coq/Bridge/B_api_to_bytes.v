(** _to_bytes of the source, under the typed view, is the model's *)
From Coq Require Import ZArith List Bool.
From HV Require Import Prelude.Py Prelude.State Prelude.PyExtra.
From HV Require Gen.GApi Model.Api.
Lemma b_to_bytes : forall s, GApi._to_bytes s = Api._to_bytes s.
Proof. intros [b|u]; reflexivity. Qed.
Print Assumptions b_to_bytes.
