(** Encoder.__init__ of the source builds the record the hand model starts from *)
From Coq Require Import ZArith List Bool.
From HV Require Import Prelude.Py Prelude.State Bridge.B_consts.
From HV Require Gen.GData Gen.GInit Model.Data Model.Decoder Model.Encoder.
Lemma b_Encoder_init : GInit.Encoder_init = Encoder.Encoder_init.
Proof.
  intros. cbv beta zeta delta [GInit.Encoder_init GInit.HeaderTable_init Encoder.Encoder_init Decoder.HeaderTable_init].
  rewrite ?b_DEFAULT_SIZE. reflexivity.
Qed.
Print Assumptions b_Encoder_init.
