(** The property theorems RESTATED OVER THE REGENERATED DEFINITIONS (Gen/: what /repo's
    source says now), obtained from the theorems about the frozen model by rewriting with the
    bridge lemmas.  When this file checks, the kernel has checked the properties about the
    translation of the current source itself, not only about the frozen model. *)
From Coq Require Import ZArith List Bool.
From HV Require Import Prelude.Py Prelude.State Prelude.Utf8.
From HV Require Import Spec.IntRep Spec.HuffmanCode Spec.StaticTable Spec.DynTable Spec.SDecoder.
From HV Require Import Model.Data Model.Int Model.Table Model.Decoder Model.Encoder Model.Api.
From HV Require Import Model.Rel Model.RelEnc Model.Histories.
From HV Require Gen.GData Gen.GInt Gen.GTable Gen.GHuff Gen.GDecoder Gen.GEncoder Gen.GApi Gen.GInit.
From HV Require Import Proofs.Table Proofs.DecoderRefine Proofs.DecoderProps.
From HV Require Import Bridge.B_dec_decode Bridge.B_dec_update_encoding_context Bridge.B_decode_integer Bridge.B_init_Decoder.
Import ListNotations.
Open Scope Z_scope.

(** C08 on the source: the translations of Decoder._update_encoding_context, decode_integer and
    Decoder.decode *)
Theorem src_C08_update_above_rejected : forall d data n k,
  GInt.decode_integer data 5 = Ok (n, k) -> d.(d_max_allowed) < n ->
  GDecoder.Decoder__update_encoding_context d data = (Err InvalidTableSizeError, d).
Proof.
  intros d data n k. rewrite b_decode_integer, b_Decoder__update_encoding_context.
  exact (update_above_rejected d data n k).
Qed.
Theorem src_C08_update_within_applied : forall d data n k, TInv d.(d_tab) ->
  GInt.decode_integer data 5 = Ok (n, k) -> n <= d.(d_max_allowed) ->
  exists d', GDecoder.Decoder__update_encoding_context d data = (Ok k, d') /\
    d'.(d_tab).(maxsize) = n /\ d'.(d_tab).(entries) = resize n d.(d_tab).(entries) /\
    d'.(d_max_allowed) = d.(d_max_allowed) /\ d'.(d_max_list) = d.(d_max_list) /\ TInv d'.(d_tab).
Proof.
  intros d data n k H. rewrite b_decode_integer, b_Decoder__update_encoding_context.
  exact (update_within_applied d data n k H).
Qed.

Theorem src_C08_never_above : forall d data raw, dec_ok d ->
  let d' := snd (GDecoder.Decoder_decode d data raw) in
  d'.(d_tab).(maxsize) <= Z.max d.(d_tab).(maxsize) d.(d_max_allowed) /\
  d'.(d_max_allowed) = d.(d_max_allowed).
Proof. intros d data raw H. rewrite b_Decoder_decode. exact (never_above d data raw H). Qed.
Theorem src_C08_end_of_block : forall d data raw hs d', dec_ok d ->
  GDecoder.Decoder_decode d data raw = (Ok hs, d') -> d'.(d_tab).(maxsize) <= d'.(d_max_allowed).
Proof. intros d data raw hs d' H. rewrite b_Decoder_decode. exact (end_of_block d data raw hs d' H). Qed.
Theorem src_C08_empty_block_rejected : forall d raw, d.(d_max_allowed) < d.(d_tab).(maxsize) ->
  GDecoder.Decoder_decode d [] raw = (Err InvalidTableSizeError, d).
Proof. intros d raw H. rewrite b_Decoder_decode. exact (empty_block_rejected d raw H). Qed.

(** [C08_update_after_field] is a statement about one iteration of the model's loop body
    [decode_body]; the regenerated Decoder_decode has its loop body inline (no named counterpart),
    so the on-source form is at the level of decode: an update that follows a field is the general
    decoding error (RFC decoder: C05_update_after_field, tied to the source by the refinement). *)
Theorem src_C08_malformed_is_decoding_error : forall d data raw, dec_ok d ->
  decode KLIM (ctx_of d) data (negb raw) = SErr Malformed ->
  fst (GDecoder.Decoder_decode d data raw) = Err HPACKDecodingError.
Proof.
  intros d data raw H E. rewrite b_Decoder_decode.
  pose proof (decode_refines d data raw H) as R.
  destruct (Decoder_decode d data raw) as [[hs|x] d']; cbn [fst].
  - destruct R as [R _]. rewrite E in R. discriminate R.
  - destruct R as (c & R & ->). rewrite E in R. injection R as <-. reflexivity.
Qed.

Example src_C08_examples :
  (* permitted 4096: update to 4096 (3f e1 1f) accepted, to 4097 (3f e2 1f) rejected *)
  fst (GDecoder.Decoder_decode (GInit.Decoder_init 65536) [Byte.x3f; Byte.xe1; Byte.x1f] true) = Ok [] /\
  fst (GDecoder.Decoder_decode (GInit.Decoder_init 65536) [Byte.x3f; Byte.xe2; Byte.x1f] true) = Err InvalidTableSizeError /\
  (* two updates then a field; an update after the field *)
  fst (GDecoder.Decoder_decode (GInit.Decoder_init 65536) [Byte.x20; Byte.x3f; Byte.x01; Byte.x82] true) = Ok [(HPlain, [Byte.x3a;Byte.x6d;Byte.x65;Byte.x74;Byte.x68;Byte.x6f;Byte.x64], [Byte.x47;Byte.x45;Byte.x54])] /\
  fst (GDecoder.Decoder_decode (GInit.Decoder_init 65536) [Byte.x82; Byte.x20] true) = Err HPACKDecodingError /\
  (* lowered permitted maximum, empty block *)
  fst (GDecoder.Decoder_decode (set_d_max_allowed 100 (GInit.Decoder_init 65536)) [] true) = Err InvalidTableSizeError.
Proof. rewrite !b_Decoder_decode, !b_Decoder_init. vm_compute. repeat split; reflexivity. Qed.

Print Assumptions src_C08_update_above_rejected.
Print Assumptions src_C08_update_within_applied.
Print Assumptions src_C08_never_above.
Print Assumptions src_C08_end_of_block.
Print Assumptions src_C08_empty_block_rejected.
Print Assumptions src_C08_malformed_is_decoding_error.
Print Assumptions src_C08_examples.
