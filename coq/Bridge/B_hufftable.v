(** the 4096-entry decoding table and the three flag constants of the source pass the
    certificate: every entry is decided against the Appendix B code (dead fields ignored) *)
From Coq Require Import ZArith List.
From HV Require Import Prelude.Py Gen.GData Proofs.HuffDec.
Lemma b_HUFFMAN_TABLE_cert :
  fsm_cert GData.HUFFMAN_TABLE GData.HUFFMAN_COMPLETE GData.HUFFMAN_EMIT_SYMBOL GData.HUFFMAN_FAIL = true.
Proof. vm_cast_no_check (eq_refl true). Qed.
