(** Hexadecimal strings: [format(n, "x")] / [f"{n:x}"] against [hex(n)[2:]], [s.zfill(w)] against the explicit
    "prepend the missing zero digits", as seen by [bytes.fromhex] and [len] -- the only consumers that the
    translated code has.  Everything here holds for ALL integers and ALL strings: for n < 0 the two spellings give
    different texts ("-5" / "x5", which zfill pads differently: "-005" / "00x5") but [bytes.fromhex] raises
    ValueError on both, so no invariant on the sign of the accumulator is needed by Bridge/B_HuffmanEncoder_encode.v
    (and none holds: see [exotic_coder_negative] at the end of this file). *)
From Coq Require Import ZArith List Bool Lia ZifyBool.
From Coq Require Import Init.Byte.
From HV Require Import Prelude.Py Prelude.PyExtra.
Import ListNotations.
Open Scope Z_scope.

(** * [format(n, "x")] and [hex(n)[2:]] *)
Lemma py_format_x_nonneg n : 0 <= n -> py_format_x n = py_hex_tail n.
Proof. intros H. destruct n as [|p|p]; [reflexivity|reflexivity|lia]. Qed.

Lemma py_format_x_neg n : n < 0 ->
  exists ds, py_format_x n = hex_minus :: ds /\ py_hex_tail n = 16 :: ds.
Proof. intros H. destruct n as [|p|p]; [lia|lia|]. exists (hex_digits_pos p []). split; reflexivity. Qed.

Lemma len_format_x n : len (py_format_x n) = len (py_hex_tail n).
Proof. destruct n; reflexivity. Qed.

Lemma len_app_format_x a n : len (a ++ py_format_x n) = len (a ++ py_hex_tail n).
Proof. unfold len. rewrite !app_length. pose proof (len_format_x n) as H. unfold len in H. lia. Qed.

(** * [bytes.fromhex]: a character outside [0-9a-f] anywhere in the string is a ValueError *)
Definition hexbad (d : Z) : Prop := d < 0 \/ 15 < d.

Lemma list_ind2 {A} (P : list A -> Prop) :
  P [] -> (forall a, P [a]) -> (forall a b l, P l -> P (a :: b :: l)) -> forall l, P l.
Proof.
  intros H0 H1 H2. fix IH 1. intros [|a [|b l]]; [exact H0|apply H1|apply H2, IH].
Qed.

Lemma fromhex_bad d : hexbad d -> forall s, In d s -> py_fromhex s = Err ValueError.
Proof.
  intros Hd s. induction s as [|a|a b l IH] using list_ind2; intros Hin.
  - destruct Hin.
  - reflexivity.
  - cbn [py_fromhex].
    destruct ((a <? 0) || (15 <? a) || (b <? 0) || (15 <? b)) eqn:E; [reflexivity|].
    destruct (zb (16 * a + b)); [|reflexivity].
    rewrite IH; [reflexivity|].
    destruct Hin as [->|[->|Hin]]; [unfold hexbad in Hd; lia|unfold hexbad in Hd; lia|exact Hin].
Qed.

Lemma hexbad_minus : hexbad hex_minus. Proof. unfold hexbad, hex_minus. lia. Qed.
Lemma hexbad_plus : hexbad hex_plus. Proof. unfold hexbad, hex_plus. lia. Qed.
Lemma hexbad_16 : hexbad 16. Proof. unfold hexbad. lia. Qed.

(** the two spellings are the same thing for [bytes.fromhex], whatever is put in front of them *)
Lemma fromhex_app_format_x a n : py_fromhex (a ++ py_format_x n) = py_fromhex (a ++ py_hex_tail n).
Proof.
  destruct (Z_lt_le_dec n 0) as [H|H].
  - destruct (py_format_x_neg n H) as (ds & -> & ->).
    rewrite (fromhex_bad _ hexbad_minus) by (apply in_or_app; right; left; reflexivity).
    rewrite (fromhex_bad _ hexbad_16) by (apply in_or_app; right; left; reflexivity).
    reflexivity.
  - rewrite py_format_x_nonneg by exact H. reflexivity.
Qed.
Lemma fromhex_format_x n : py_fromhex (py_format_x n) = py_fromhex (py_hex_tail n).
Proof. exact (fromhex_app_format_x [] n). Qed.
Lemma fromhex_app2_format_x a b n :
  py_fromhex (a ++ b ++ py_format_x n) = py_fromhex (a ++ b ++ py_hex_tail n).
Proof. rewrite !app_assoc. apply fromhex_app_format_x. Qed.

(** * [s.zfill(w)] and the explicit padding *)
Lemma str_repeat_nonpos c n : n <= 0 -> str_repeat c n = [].
Proof. intros H. unfold str_repeat. destruct n; try lia; reflexivity. Qed.

(** a string that does not start with a sign is left-padded *)
Lemma str_zfill_nosign s w :
  (forall c r, s = c :: r -> c <> hex_minus /\ c <> hex_plus) ->
  str_zfill s w = str_repeat [0] (w - len s) ++ s.
Proof.
  intros H. unfold str_zfill. destruct (w <=? len s) eqn:E.
  - rewrite str_repeat_nonpos by lia. reflexivity.
  - destruct s as [|c r]; [rewrite app_nil_r; reflexivity|].
    destruct (H c r eq_refl) as [H1 H2].
    replace (c =? hex_minus) with false by lia. replace (c =? hex_plus) with false by lia.
    reflexivity.
Qed.
Lemma str_zfill_small s w : w <= len s -> str_zfill s w = s.
Proof. intros H. unfold str_zfill. replace (w <=? len s) with true by lia. reflexivity. Qed.
(** a string of hex digits (what [hex(n)[2:]] is for 0 <= n) does not start with a sign *)
Lemma str_zfill_digit c r w : 0 <= c <= 16 ->
  str_zfill (c :: r) w = str_repeat [0] (w - len (c :: r)) ++ c :: r.
Proof.
  intros H. apply str_zfill_nosign. intros c' r' E. inversion E; subst. unfold hex_minus, hex_plus. lia.
Qed.

(** [bytes.fromhex(s.zfill(w))] is the source's "if the number of digits is not the expected one, prepend the
    missing zero digits", for EVERY string: when zfill moves a sign, both sides contain it and raise. *)
Lemma fromhex_zfill s w :
  py_fromhex (str_zfill s w) =
  if negb (len s =? w) then py_fromhex (str_repeat [0] (w - len s) ++ s) else py_fromhex s.
Proof.
  destruct (len s =? w) eqn:E; cbn [negb].
  - rewrite str_zfill_small by lia. reflexivity.
  - unfold str_zfill. destruct (w <=? len s) eqn:E2.
    + rewrite str_repeat_nonpos by lia. reflexivity.
    + destruct s as [|c r]; [rewrite app_nil_r; reflexivity|].
      destruct ((c =? hex_minus) || (c =? hex_plus)) eqn:E3; [|reflexivity].
      assert (Hc : hexbad c) by (unfold hexbad, hex_minus, hex_plus in *; lia).
      rewrite (fromhex_bad c Hc) by (left; reflexivity).
      rewrite (fromhex_bad c Hc) by (apply in_or_app; right; left; reflexivity).
      reflexivity.
Qed.

(** * Spellings of "the number of bits missing to the next multiple of 8" *)
Lemma neg_mod_8 n : (- n) mod 8 = (8 - n mod 8) mod 8.
Proof. pose proof (Z.mod_pos_bound n 8 eq_refl). pose proof (Z.div_mod n 8).
       pose proof (Z.mod_pos_bound (- n) 8 eq_refl). pose proof (Z.div_mod (- n) 8).
       pose proof (Z.mod_pos_bound (8 - n mod 8) 8 eq_refl). pose proof (Z.div_mod (8 - n mod 8) 8). lia. Qed.

(** The rewrites with which a bridge turns the text of the new spellings into the text of the old ones
    (in the order: zfill under fromhex first, then the lengths, then the strings under fromhex). *)
Ltac hex_rw :=
  rewrite ?fromhex_zfill, ?len_format_x, ?len_app_format_x,
          ?fromhex_format_x, ?fromhex_app_format_x, ?fromhex_app2_format_x, ?neg_mod_8.

(** * The accumulator of HuffmanEncoder.encode CAN be negative for an exotic coder (a length <= -2 makes the mask
    [2 ** (len + 1) - 1] equal to -1 in Z, so that a negative code goes through): the texts differ, the
    results do not. *)
Example exotic_coder_negative :
  let n := Z.lor (Z.shiftl 0 (-2)) (Z.land (-1) (2 ^ (-2 + 1) - 1)) in
  n = -1 /\ py_format_x n = [17; 1] /\ py_hex_tail n = [16; 1] /\
  str_zfill (py_format_x n) 4 = [17; 0; 0; 1] /\ str_repeat [0] (4 - len (py_hex_tail n)) ++ py_hex_tail n = [0; 0; 16; 1] /\
  py_fromhex (str_zfill (py_format_x n) 4) = Err ValueError /\
  py_fromhex (str_repeat [0] (4 - len (py_hex_tail n)) ++ py_hex_tail n) = Err ValueError.
Proof. vm_compute. repeat split; reflexivity. Qed.
