(** The property theorems RESTATED OVER THE REGENERATED DEFINITIONS (Gen/: what /repo's
    source says now), obtained from the theorems about the frozen model by rewriting with the
    bridge lemmas.  When this file checks, the kernel has checked the properties about the
    translation of the current source itself, not only about the frozen model. *)
From Coq Require Import ZArith List Bool.
From HV Require Import Prelude.Py Prelude.State Prelude.Utf8.
From HV Require Import Spec.IntRep Spec.HuffmanCode Spec.StaticTable Spec.DynTable Spec.SDecoder.
From HV Require Import Model.Data Model.Int Model.Table Model.Decoder Model.Encoder Model.Api.
From HV Require Import Model.Rel Model.RelEnc Model.Histories.
From HV Require Gen.GData Gen.GInt Gen.GTable Gen.GHuff Gen.GDecoder Gen.GEncoder Gen.GApi Gen.GInit.
From HV Require Import Proofs.ApiForms.
From HV Require Import Bridge.B_dec_decode Bridge.B_api_encode Bridge.B_api_to_bytes Bridge.B_api_dict_to_iterable.
Import ListNotations.
Open Scope Z_scope.

(** C18 on the source. *)
(** The source's Encoder.encode takes a container (list / iterator / dict of header forms); the
    model's [Encoder_encode] works on the canonical list of (name, value, sensitive).
    [fields_container hs] is the Python argument "a list of three-tuples (name bytes, value
    bytes, sensitive)": on it the translation of Encoder.encode IS the model's [Encoder_encode]. *)
Definition fields_container (hs : list field) : container :=
  CList (map (fun f => F3 (PBytes (fst (fst f))) (PBytes (snd (fst f))) (Some (snd f))) hs).
Lemma g_encode_fields : forall e hs huff,
  GApi.Encoder_encode e (fields_container hs) huff = Encoder_encode e hs huff.
Proof.
  intros e hs huff. rewrite b_Encoder_encode.
  unfold Encoder_encode_api, fields_container, container_headers. f_equal.
  rewrite map_map. induction hs as [|[[n v] s] r IH]; [reflexivity|].
  cbn [map]. rewrite IH. destruct s; reflexivity.
Qed.


(** Encoder: for EVERY argument form, the translation of Encoder.encode gives the output AND the
    resulting state it gives on the canonical sequence [canon c] passed as a plain list of
    (name bytes, value bytes, sensitive) three-tuples *)
Theorem src_C18_encode_canon : forall e c huffman,
  GApi.Encoder_encode e c huffman = GApi.Encoder_encode e (fields_container (canon c)) huffman.
Proof. intros e c huffman. rewrite g_encode_fields, b_Encoder_encode. exact (encode_canon e c huffman). Qed.
(** ... which is the model's [Encoder_encode] on that sequence (the function C01/C03/C09/C10/C19 are about) *)
Theorem src_C18_encode_canon_model : forall e c huffman,
  GApi.Encoder_encode e c huffman = Encoder_encode e (canon c) huffman.
Proof. intros e c huffman. rewrite b_Encoder_encode. exact (encode_canon e c huffman). Qed.
Corollary src_C18_interchangeable : forall e c1 c2 huffman, canon c1 = canon c2 ->
  GApi.Encoder_encode e c1 huffman = GApi.Encoder_encode e c2 huffman.
Proof. intros e c1 c2 h H. rewrite !src_C18_encode_canon_model, H. reflexivity. Qed.
(** the dict rule is a stable partition (with the translation of _to_bytes) *)
Theorem src_C18_dict_order : forall items,
  map (fun kv => (GApi._to_bytes (fst kv), GApi._to_bytes (snd kv)))
      (filter (fun kv => starts_colon (GApi._to_bytes (fst kv))) items ++
       filter (fun kv => negb (starts_colon (GApi._to_bytes (fst kv)))) items)
  = map (fun f => (fst (fst f), snd (fst f))) (canon (CDict items)).
Proof.
  intros items.
  rewrite (map_ext _ (fun kv : pystr * pystr => (_to_bytes (fst kv), _to_bytes (snd kv))))
    by (intros kv; rewrite !b_to_bytes; reflexivity).
  rewrite (filter_ext (fun kv : pystr * pystr => starts_colon (GApi._to_bytes (fst kv)))
                      (fun kv => starts_colon (_to_bytes (fst kv))))
    by (intros kv; rewrite b_to_bytes; reflexivity).
  rewrite (filter_ext (fun kv : pystr * pystr => negb (starts_colon (GApi._to_bytes (fst kv))))
                      (fun kv => negb (starts_colon (_to_bytes (fst kv)))))
    by (intros kv; rewrite b_to_bytes; reflexivity).
  exact (dict_order items).
Qed.
(** and the translation of _dict_to_iterable yields the dict's items in that order *)
Theorem src_C18_dict_to_iterable : forall items,
  map header_args (GApi._dict_to_iterable items) = canon (CDict items).
Proof. intros items. rewrite b_dict_to_iterable. exact (container_headers_canon (CDict items)). Qed.

(** Decoder: raw and text modes *)
Theorem src_C18_modes_same_state : forall d data,
  snd (GDecoder.Decoder_decode d data true) = snd (GDecoder.Decoder_decode d data false).
Proof. intros d data. rewrite !b_Decoder_decode. exact (modes_same_state d data). Qed.
Theorem src_C18_text_ok_raw_same : forall d data hs d',
  GDecoder.Decoder_decode d data false = (Ok hs, d') -> GDecoder.Decoder_decode d data true = (Ok hs, d').
Proof. intros d data hs d'. rewrite !b_Decoder_decode. exact (text_ok_raw_same d data hs d'). Qed.
Theorem src_C18_raw_ok_text : forall d data hs d',
  GDecoder.Decoder_decode d data true = (Ok hs, d') ->
  (forallb (fun h => utf8_valid (h_name h) && utf8_valid (h_value h)) hs = true /\
   GDecoder.Decoder_decode d data false = (Ok hs, d')) \/
  (forallb (fun h => utf8_valid (h_name h) && utf8_valid (h_value h)) hs = false /\
   GDecoder.Decoder_decode d data false = (Err HPACKDecodingError, d')).
Proof. intros d data hs d'. rewrite !b_Decoder_decode. exact (raw_ok_text d data hs d'). Qed.
Theorem src_C18_raw_err_text_same : forall d data e d',
  GDecoder.Decoder_decode d data true = (Err e, d') -> GDecoder.Decoder_decode d data false = (Err e, d').
Proof. intros d data e d'. rewrite !b_Decoder_decode. exact (raw_err_text_same d data e d'). Qed.

Print Assumptions src_C18_encode_canon.
Print Assumptions src_C18_encode_canon_model.
Print Assumptions src_C18_interchangeable.
Print Assumptions src_C18_dict_order.
Print Assumptions src_C18_dict_to_iterable.
Print Assumptions src_C18_modes_same_state.
Print Assumptions src_C18_text_ok_raw_same.
Print Assumptions src_C18_raw_ok_text.
Print Assumptions src_C18_raw_err_text_same.
