(** The property theorems RESTATED OVER THE REGENERATED DEFINITIONS (Gen/: what /repo's
    source says now), obtained from the theorems about the frozen model by rewriting with the
    bridge lemmas.  When this file checks, the kernel has checked the properties about the
    translation of the current source itself, not only about the frozen model. *)
From Coq Require Import ZArith List Bool.
From HV Require Import Prelude.Py Prelude.State Prelude.Utf8.
From HV Require Import Spec.IntRep Spec.HuffmanCode Spec.StaticTable Spec.DynTable Spec.SDecoder.
From HV Require Import Model.Data Model.Int Model.Table Model.Decoder Model.Encoder Model.Api.
From HV Require Import Model.Rel Model.RelEnc Model.Histories.
From HV Require Gen.GData Gen.GInt Gen.GTable Gen.GHuff Gen.GDecoder Gen.GEncoder Gen.GApi Gen.GInit.
From HV Require Import Proofs.Table Proofs.EncoderMeaning Proofs.ApiForms.
From HV Require Import Bridge.B_api_encode Bridge.B_enc_add Bridge.B_init_Encoder.
Import ListNotations.
Open Scope Z_scope.

(** C19 on the source: the translations of Encoder.add (which takes the pair (name, value)) and
    Encoder.encode *)
(** The source's Encoder.encode takes a container (list / iterator / dict of header forms); the
    model's [Encoder_encode] works on the canonical list of (name, value, sensitive).
    [fields_container hs] is the Python argument "a list of three-tuples (name bytes, value
    bytes, sensitive)": on it the translation of Encoder.encode IS the model's [Encoder_encode]. *)
Definition fields_container (hs : list field) : container :=
  CList (map (fun f => F3 (PBytes (fst (fst f))) (PBytes (snd (fst f))) (Some (snd f))) hs).
Lemma g_encode_fields : forall e hs huff,
  GApi.Encoder_encode e (fields_container hs) huff = Encoder_encode e hs huff.
Proof.
  intros e hs huff. rewrite b_Encoder_encode.
  unfold Encoder_encode_api, fields_container, container_headers. f_equal.
  rewrite map_map. induction hs as [|[[n v] s] r IH]; [reflexivity|].
  cbn [map]. rewrite IH. destruct s; reflexivity.
Qed.


Theorem src_C19_present_is_indexed : forall e n v s huff i,
  TInv e.(e_tab) -> e.(e_tab).(maxsize) < BIG ->
  lookup i e.(e_tab).(entries) = Some (n, v) ->
  exists w i', GEncoder.Encoder_add e (n, v) s huff = (Ok w, e) /\
    lookup i' e.(e_tab).(entries) = Some (n, v) /\ wire_rep KLIM (RIndexed i') w.
Proof. intros e n v s huff i H1 H2 H3. rewrite b_Encoder_add. exact (add_present e n v s huff i H1 H2 H3). Qed.

Theorem src_C19_repeated_block : forall e hs huff,
  TInv e.(e_tab) -> e.(e_tab).(maxsize) < BIG -> e.(e_tab).(resized) = false ->
  Forall (fun f => exists i, lookup i e.(e_tab).(entries) = Some (nv_of_field f)) hs ->
  exists w rs, GApi.Encoder_encode e (fields_container hs) huff = (Ok w, e) /\ wire_block KLIM rs w /\
    Forall2 (fun f r => exists i, r = RIndexed i /\ lookup i e.(e_tab).(entries) = Some (nv_of_field f)) hs rs.
Proof.
  intros e hs huff H1 H2 H3 H4. rewrite g_encode_fields. exact (repeated_block_indexed e hs huff H1 H2 H3 H4).
Qed.
(** ... for every argument form of the public API *)
Theorem src_C19_api_repeated_block : forall e k huff,
  TInv e.(e_tab) -> e.(e_tab).(maxsize) < BIG -> e.(e_tab).(resized) = false ->
  Forall (fun f => exists i, lookup i e.(e_tab).(entries) = Some (nv_of_field f)) (canon k) ->
  exists w rs, GApi.Encoder_encode e k huff = (Ok w, e) /\ wire_block KLIM rs w /\
    Forall2 (fun f r => exists i, r = RIndexed i /\ lookup i e.(e_tab).(entries) = Some (nv_of_field f)) (canon k) rs.
Proof.
  intros e k huff H1 H2 H3 H4. rewrite b_Encoder_encode, encode_canon.
  exact (repeated_block_indexed e (canon k) huff H1 H2 H3 H4).
Qed.

Example src_C19_empty_value :
  (* (:authority, "") is static entry 1; ("x", "") twice: the second time it is index 62 *)
  fst (GEncoder.Encoder_add GInit.Encoder_init ([Byte.x3a;Byte.x61;Byte.x75;Byte.x74;Byte.x68;Byte.x6f;Byte.x72;Byte.x69;Byte.x74;Byte.x79], []) false false) = Ok [Byte.x81] /\
  (let e1 := snd (GEncoder.Encoder_add GInit.Encoder_init ([Byte.x78], []) false false) in
   GEncoder.Encoder_add e1 ([Byte.x78], []) false false = (Ok [Byte.xbe], e1)).
Proof. cbv zeta. rewrite !b_Encoder_add, !b_Encoder_init. vm_compute. split; reflexivity. Qed.

Print Assumptions src_C19_present_is_indexed.
Print Assumptions src_C19_repeated_block.
Print Assumptions src_C19_api_repeated_block.
Print Assumptions src_C19_empty_value.
