From Coq Require Import ZArith List Bool Lia ZifyBool.
From HV Require Import Prelude.Py Prelude.State Bridge.BridgeConsts.
From HV Require Gen.GData Gen.GInt Gen.GTable Gen.GHuff Model.Data Model.Int Model.Table Model.HuffEnc Model.HuffDec.
Open Scope Z_scope.
Lemma b_table_entry_size : forall n v, GTable.table_entry_size n v = Table.table_entry_size n v.
Proof. bridge. Qed.
Print Assumptions b_table_entry_size.
