(** C20 on the source: the world of several instances (Model/World.v), with every step performed by the
    REGENERATED code (Gen/: the translation of what /repo's source says now) -- constructors included --
    is the model's world, so the frame theorems hold of it.  (That the translation may treat what the
    instances share as constants is the purity check's business: tools/py2coq/purity.py, layout.py.) *)
From Coq Require Import ZArith List Bool.
From HV Require Import Prelude.Py Prelude.State Model.Decoder Model.Encoder Model.Api Model.World.
From HV Require Gen.GDecoder Gen.GEncoder Gen.GApi Gen.GInit.
From HV Require Import Proofs.WorldFrame.
From HV Require Import Bridge.B_init_Encoder Bridge.B_init_Decoder Bridge.S_C04 Bridge.S_C09.
Import ListNotations.
Open Scope Z_scope.

Definition g_wstep (w : world) (o : wop) : world * wout :=
  match o with
  | WNewEnc => (w ++ [IEnc GInit.Encoder_init], ONone)
  | WNewDec l => (w ++ [IDec (GInit.Decoder_init l)], ONone)
  | WEnc i eo =>
      match nth_error w i with
      | Some (IEnc e) => let '(r, e') := g_estep e eo in (set_nth i (IEnc e') w, OEnc r)
      | _ => (w, ONone)
      end
  | WDec i d_o =>
      match nth_error w i with
      | Some (IDec d) => let '(r, d') := g_dstep d d_o in (set_nth i (IDec d') w, ODec r)
      | _ => (w, ONone)
      end
  end.
Fixpoint g_wrun (w : world) (ops : list wop) : world * list wout :=
  match ops with
  | [] => (w, [])
  | o :: r => let '(w1, out) := g_wstep w o in let '(w2, outs) := g_wrun w1 r in (w2, out :: outs)
  end.
Definition g_istep (x : inst) (o : wop) : inst * wout :=
  match x, o with
  | IEnc e, WEnc _ eo => let '(r, e') := g_estep e eo in (IEnc e', OEnc r)
  | IDec d, WDec _ d_o => let '(r, d') := g_dstep d d_o in (IDec d', ODec r)
  | _, _ => (x, ONone)
  end.
Fixpoint g_irun (x : inst) (ops : list wop) : inst * list wout :=
  match ops with
  | [] => (x, [])
  | o :: r => let '(x1, out) := g_istep x o in let '(x2, outs) := g_irun x1 r in (x2, out :: outs)
  end.

Lemma g_wstep_eq : forall w o, g_wstep w o = wstep w o.
Proof.
  intros w [|l|i eo|i d_o]; unfold g_wstep, wstep;
    rewrite ?b_Encoder_init, ?b_Decoder_init; try reflexivity.
  - destruct (nth_error w i) as [[e|d]|]; try reflexivity. rewrite g_estep_eq. reflexivity.
  - destruct (nth_error w i) as [[e|d]|]; try reflexivity. rewrite g_dstep_eq. reflexivity.
Qed.
Lemma g_wrun_eq : forall ops w, g_wrun w ops = wrun w ops.
Proof.
  induction ops as [|o r IH]; intros w; cbn [g_wrun wrun]; [reflexivity|].
  rewrite g_wstep_eq. destruct (wstep w o) as [w1 out]. rewrite IH. reflexivity.
Qed.
Lemma g_istep_eq : forall x o, g_istep x o = istep x o.
Proof.
  intros [e|d] [|l|i eo|i d_o]; unfold g_istep, istep; try reflexivity.
  - rewrite g_estep_eq. reflexivity.
  - rewrite g_dstep_eq. reflexivity.
Qed.
Lemma g_irun_eq : forall ops x, g_irun x ops = irun x ops.
Proof.
  induction ops as [|o r IH]; intros x; cbn [g_irun irun]; [reflexivity|].
  rewrite g_istep_eq. destruct (istep x o) as [x1 out]. rewrite IH. reflexivity.
Qed.

(** frame: in any interleaving run by the translated code, what instance i returns and becomes is what it
    returns and becomes when run alone on its own operations *)
Theorem src_C20_frame : forall w ops i x,
  nth_error w i = Some x ->
  let '(w', outs) := g_wrun w ops in
  let '(x', outs_i) := g_irun x (filter (addresses i) ops) in
  nth_error w' i = Some x' /\ outputs_of i ops outs = outs_i.
Proof. intros w ops i x H. rewrite g_wrun_eq, g_irun_eq. exact (frame w ops i x H). Qed.

Theorem src_C20_independent_of_others : forall w1 w2 ops1 ops2 i x,
  nth_error w1 i = Some x -> nth_error w2 i = Some x ->
  filter (addresses i) ops1 = filter (addresses i) ops2 ->
  outputs_of i ops1 (snd (g_wrun w1 ops1)) = outputs_of i ops2 (snd (g_wrun w2 ops2)) /\
  nth_error (fst (g_wrun w1 ops1)) i = nth_error (fst (g_wrun w2 ops2)) i.
Proof. intros w1 w2 ops1 ops2 i x H1 H2 H3. rewrite !g_wrun_eq. exact (independent_of_others w1 w2 ops1 ops2 i x H1 H2 H3). Qed.

Theorem src_C20_others_untouched : forall w o i j, i <> j -> addresses j o = true ->
  nth_error (fst (g_wstep w o)) i = nth_error w i.
Proof. intros w o i j H1 H2. rewrite g_wstep_eq. exact (others_untouched w o i j H1 H2). Qed.

Print Assumptions src_C20_frame.
Print Assumptions src_C20_independent_of_others.
Print Assumptions src_C20_others_untouched.
