(** C16 on the source: the facts about the CODE that the linear-cost argument rests on, restated over
    the regenerated definitions (Gen/: what /repo's source says now).  (The cost function itself,
    Model/Cost.v, is a model of the decoder's control flow, not a translation: see Props/C16.v.) *)
From Coq Require Import ZArith List Bool Lia.
From HV Require Import Prelude.Py Prelude.State Spec.IntRep Spec.DynTable Spec.SDecoder.
From HV Require Import Model.Data Model.Int Model.Table Model.Decoder Model.Rel Model.Cost.
From HV Require Gen.GData Gen.GInt Gen.GTable Gen.GDecoder Gen.GInit.
From HV Require Import Proofs.Table Proofs.TableLift Proofs.DecoderRefine Proofs.CostLinear.
From HV Require Import Bridge.B_decode_integer Bridge.B_dec_decode Bridge.B_init_Decoder Bridge.S_C04.
Import ListNotations.
Open Scope Z_scope.

(** integer encodings too long to be legitimate are refused rather than accumulated: the translation of
    decode_integer looks at no more than 21 octets, whatever follows ... *)
Theorem src_C16_integer_reads_21 : forall bs N, 1 <= N <= 8 ->
  GInt.decode_integer bs N = GInt.decode_integer (firstn 21 bs) N.
Proof. intros bs N H. rewrite !b_decode_integer. exact (integer_reads_21 bs N H). Qed.

(** ... and every value it returns is below 2^141, consuming at most 21 octets: no run of continuation
    octets makes it build a large number *)
Theorem src_C16_integer_bounded : forall bs N n k, 1 <= N <= 8 ->
  GInt.decode_integer bs N = Ok (n, k) -> 1 <= k <= 21 /\ 0 <= n < 2 ^ 141.
Proof. intros bs N n k H. rewrite b_decode_integer. exact (integer_bounded bs N n k H). Qed.

(** the translation of Decoder.decode computes, on every block and in every reachable state, exactly what
    the RFC decoder [decode KLIM] computes, and that decoder's cost is linear in the block with the table
    term bounded by the table size in force: cost <= 4|data| + maxsize/32 + 1 *)
Theorem src_C16_decode_is_the_linear_cost_decoder : forall L ops data raw,
  Z.abs L < 10 ^ 4300 -> Forall sane_op ops ->
  let d := g_drun ops (GInit.Decoder_init L) in
  (match GDecoder.Decoder_decode d data raw with
   | (Ok hs, d') => decode KLIM (ctx_of d) data (negb raw) = SOk (map conv hs, ctx_of d')
   | (Err e, d') => exists c, decode KLIM (ctx_of d) data (negb raw) = SErr c /\ e = exn_of c
   end) /\
  32 * cost_decode KLIM (ctx_of d) data <= 128 * len data + Z.max 0 d.(d_tab).(maxsize) + 32.
Proof.
  intros L ops data raw H1 H2 d.
  assert (Hok : dec_ok d).
  { unfold d. rewrite g_drun_eq, b_Decoder_init. split; [apply decoder_TInv|apply drun_max_list; [exact H2|exact H1]]. }
  split.
  - rewrite b_Decoder_decode. pose proof (decode_refines d data raw Hok) as H.
    destruct (Decoder_decode d data raw) as [[hs|e] d']; [exact (proj1 H)|exact H].
  - pose proof (cost_linear KLIM (ctx_of d) data) as Hc.
    pose proof (table_term_bounded d (proj1 Hok)) as Ht. lia.
Qed.

Print Assumptions src_C16_integer_reads_21.
Print Assumptions src_C16_integer_bounded.
Print Assumptions src_C16_decode_is_the_linear_cost_decoder.
