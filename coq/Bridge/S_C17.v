(** C17 on the source: the provenance-annotated decoder (Model/Prov.v) is an annotation OF THE TRANSLATION
    of the current source -- erasing its tags gives, step by step, what the regenerated Decoder methods
    compute -- and what the translated decoder retains between blocks is bounded by its table size. *)
From Coq Require Import ZArith List Bool.
From HV Require Import Prelude.Py Prelude.State Spec.DynTable.
From HV Require Import Model.Data Model.Table Model.Decoder Model.Prov.
From HV Require Gen.GDecoder Gen.GInit Gen.GProv.
From HV Require Import Proofs.Table Proofs.Prov.
From HV Require Import Bridge.B_dec_decode Bridge.B_init_Decoder Bridge.S_C04 Bridge.B_prov.
Import ListNotations.
Open Scope Z_scope.

(** one annotated step erases to one step of the regenerated code: same result (tags dropped), same error,
    same decoder state *)
Theorem src_C17_erase : forall copy s o,
  (forall hs, fst (p_dstep copy s o) = Ok hs -> fst (g_dstep s.(pd) o) = Ok (map fst hs)) /\
  (forall e, fst (p_dstep copy s o) = Err e -> fst (g_dstep s.(pd) o) = Err e) /\
  (snd (p_dstep copy s o)).(pd) = snd (g_dstep s.(pd) o).
Proof.
  intros copy s o. rewrite g_dstep_eq.
  destruct (erase_step copy s o) as [_ [H1 [H2 H3]]]. repeat split; assumption.
Qed.

(** after every history run by the translated code, the octets of names and values retained in the table
    are at most maxsize - 32 * (number of entries) *)
Theorem src_C17_retained_bounded : forall ops L,
  let t := (g_drun ops (GInit.Decoder_init L)).(d_tab) in
  fold_right (fun e a => len (fst e) + len (snd e) + a) 0 t.(entries) <= Z.max 0 t.(maxsize) - 32 * len t.(entries).
Proof. intros ops L. rewrite g_drun_eq, b_Decoder_init. exact (retained_bounded ops L). Qed.

(** MAIN, with the copy flag INFERRED FROM THE SOURCE (Gen/GProv.v) in place of the literal [true]: after every
    history every entry the decoder retains is an owned object, and so is every field it returns *)
Theorem src_C17_entries_owned : forall ops L, all_owned (p_drun GProv.literal_copies ops (p_init L)).(ptags).
Proof. rewrite b_literal_copies. exact entries_owned. Qed.
Theorem src_C17_returned_owned : forall ops L data raw hs,
  fst (p_decode GProv.literal_copies (p_drun GProv.literal_copies ops (p_init L)) data raw) = Ok hs ->
  Forall (fun h => snd h = (Owned, Owned)) hs.
Proof. rewrite b_literal_copies. exact returned_owned. Qed.

Print Assumptions src_C17_erase.
Print Assumptions src_C17_entries_owned.
Print Assumptions src_C17_returned_owned.
Print Assumptions src_C17_retained_bounded.
