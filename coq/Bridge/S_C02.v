(** The property theorems RESTATED OVER THE REGENERATED DEFINITIONS (Gen/: what /repo's
    source says now), obtained from the theorems about the frozen model by rewriting with the
    bridge lemmas.  When this file checks, the kernel has checked the properties about the
    translation of the current source itself, not only about the frozen model. *)
From Coq Require Import ZArith List Bool.
From HV Require Import Prelude.Py Prelude.State Prelude.Utf8.
From HV Require Import Spec.IntRep Spec.HuffmanCode Spec.StaticTable Spec.DynTable Spec.SDecoder.
From HV Require Model.Data Model.Int Model.Table Model.HuffEnc Model.HuffDec Model.Decoder Model.Encoder.
From HV Require Import Model.Rel Model.RelEnc.
From HV Require Gen.GData Gen.GInt Gen.GTable Gen.GHuff Gen.GDecoder Gen.GEncoder.
From HV Require Import Proofs.Int Proofs.Table Proofs.HuffSpec Proofs.HuffEnc Proofs.HuffDec Proofs.HuffRound
                       Proofs.DecoderRefine Proofs.EncoderMeaning.
From HV Require Import Bridge.B_dec_decode.
Import ListNotations.
Open Scope Z_scope.

(** C02 / C04 / C05 on the source: the translation of Decoder.decode refines the RFC decoder *)
Theorem src_C02_decode_refines : forall d data raw, dec_ok d ->
  match GDecoder.Decoder_decode d data raw with
  | (Ok hs, d') => decode KLIM (ctx_of d) data (negb raw) = SOk (map conv hs, ctx_of d') /\ dec_ok d'
  | (Err e, d') => exists c, decode KLIM (ctx_of d) data (negb raw) = SErr c /\ e = exn_of c
  end.
Proof. intros d data raw H. rewrite b_Decoder_decode. exact (decode_refines d data raw H). Qed.
Theorem src_C04_decode_documented : forall d data raw, dec_ok d ->
  match fst (GDecoder.Decoder_decode d data raw) with
  | Ok _ => True
  | Err e => documented e = true
  end.
Proof. intros d data raw H. rewrite b_Decoder_decode. exact (decode_documented d data raw H). Qed.


Print Assumptions src_C02_decode_refines.
Print Assumptions src_C04_decode_documented.
