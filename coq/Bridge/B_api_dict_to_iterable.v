(** _dict_to_iterable of the source, under the typed view, is the model's: sorted(keys, key=...) rendered
    as the stable two-way partition of Prelude/PyExtra.v is the model's stable insertion sort
    (Proofs/ApiForms.v, sorted_items_partition). *)
From Coq Require Import ZArith List Bool.
From Coq Require Import Init.Byte.
From HV Require Import Prelude.Py Prelude.State Prelude.PyExtra.
From HV Require Gen.GApi Model.Api Proofs.ApiForms.
From HV Require Import Bridge.B_api_to_bytes.
Import ListNotations.

Lemma startswith_colon : forall b, bytes_startswith b [Byte.x3a] = Api.starts_colon b.
Proof. intros [|x [|y r]]; cbn [bytes_startswith Api.starts_colon]; try reflexivity; apply andb_true_r. Qed.

Lemma b_stable_sort_by_colon : forall items,
  stable_sort_by (fun k => negb (bytes_startswith (GApi._to_bytes (fst k)) [Byte.x3a])) items
  = Api.sorted_items items.
Proof.
  intros items. rewrite ApiForms.sorted_items_partition. unfold stable_sort_by. f_equal.
  - apply filter_ext. intros k. rewrite b_to_bytes, startswith_colon, negb_involutive. reflexivity.
  - apply filter_ext. intros k. rewrite b_to_bytes, startswith_colon. reflexivity.
Qed.

Lemma b_dict_to_iterable : forall items, GApi._dict_to_iterable items = Api._dict_to_iterable items.
Proof.
  intros items. unfold GApi._dict_to_iterable, Api._dict_to_iterable. cbv zeta.
  (* however the two groups are obtained in the source (sorted on a boolean key, an explicit partition loop): both
     sides are `map _ (filter p items ++ filter q items)`; the maps and the predicates are compared pointwise *)
  rewrite ApiForms.sorted_items_partition. unfold stable_sort_by. cbn [app].
  match goal with
  | |- map ?f ?l = map ?g ?r => transitivity (map g l); [ apply map_ext; intros [a b]; reflexivity | f_equal ]
  end.
  f_equal; apply filter_ext; intros k; unfold ApiForms.colon, ApiForms.ncolon;
    rewrite ?b_to_bytes, ?startswith_colon, ?negb_involutive; reflexivity.
Qed.
Print Assumptions b_dict_to_iterable.
