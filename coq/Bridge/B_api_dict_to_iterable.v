(** _dict_to_iterable of the source, under the typed view, is the model's: sorted(keys, key=...) rendered
    as the stable two-way partition of Prelude/PyExtra.v is the model's stable insertion sort
    (Proofs/ApiForms.v, sorted_items_partition). *)
From Coq Require Import ZArith List Bool.
From Coq Require Import Init.Byte.
From HV Require Import Prelude.Py Prelude.State Prelude.PyExtra.
From HV Require Gen.GApi Model.Api Proofs.ApiForms.
From HV Require Import Bridge.B_api_to_bytes.
Import ListNotations.

Lemma startswith_colon : forall b, bytes_startswith b [Byte.x3a] = Api.starts_colon b.
Proof. intros [|x [|y r]]; cbn [bytes_startswith Api.starts_colon]; try reflexivity; apply andb_true_r. Qed.

Lemma b_stable_sort_by_colon : forall items,
  stable_sort_by (fun k => negb (bytes_startswith (GApi._to_bytes (fst k)) [Byte.x3a])) items
  = Api.sorted_items items.
Proof.
  intros items. rewrite ApiForms.sorted_items_partition. unfold stable_sort_by. f_equal.
  - apply filter_ext. intros k. rewrite b_to_bytes, startswith_colon, negb_involutive. reflexivity.
  - apply filter_ext. intros k. rewrite b_to_bytes, startswith_colon. reflexivity.
Qed.

Lemma b_dict_to_iterable : forall items, GApi._dict_to_iterable items = Api._dict_to_iterable items.
Proof.
  intros items. unfold GApi._dict_to_iterable, Api._dict_to_iterable. cbv zeta.
  (* the sort key may be spelled differently: it is compared pointwise *)
  match goal with
  | |- map ?f (stable_sort_by ?k items) = map ?g (Api.sorted_items items) =>
      replace (stable_sort_by k items) with (Api.sorted_items items);
      [ apply map_ext; intros [a b]; reflexivity | ]
  end.
  rewrite <- b_stable_sort_by_colon. unfold stable_sort_by. f_equal; apply filter_ext; intros k; reflexivity.
Qed.
Print Assumptions b_dict_to_iterable.
