(** Exception classes: the tie between the model's [exn] values and the Python classes of
    /repo/src/hpack/exceptions.py.

    The model's constructors are NAMES of Python classes (py2coq translates `raise C(...)` to the
    constructor called C).  What an application can rely on when it writes
    `except hpack.HPACKDecodingError:` is Python's subclass relation between those classes.  That
    relation is DATA of the source (the `class C(B):` headers of exceptions.py); py2coq regenerates it as
    [Gen.GExn.EXC_BASES] on every run, and Bridge/B_exn.v proves, by computation on the regenerated list,
    that the model's predicate [documented] IS "subclass of HPACKDecodingError in the source's hierarchy"
    (and that [exn_sub], the relation the translator uses to expand `except C:` handlers, is the source's).

    Trusted here: the bases of the four built-in classes the library raises or catches (CPython's
    documented hierarchy), and the reading "class header = bases" (layout.py refuses metaclasses, class
    keywords, decorators and any rebinding of these names). *)
From Coq Require Import List Bool String.
From HV Require Import Prelude.Py.
Import ListNotations.
Open Scope string_scope.

(** the Python class each model exception stands for ([OutOfFuel] is not a Python class: it is the model's
    marker for non-termination and belongs to no family) *)
Definition exn_class (e : exn) : string :=
  match e with
  | HPACKDecodingError => "HPACKDecodingError"
  | InvalidTableIndex => "InvalidTableIndex"
  | OversizedHeaderListError => "OversizedHeaderListError"
  | InvalidTableSizeError => "InvalidTableSizeError"
  | ValueError => "ValueError"
  | IndexError => "IndexError"
  | UnicodeDecodeError => "UnicodeDecodeError"
  | TypeError => "TypeError"
  | OutOfFuel => "<does not terminate>"
  end.

Definition all_exn : list exn :=
  [HPACKDecodingError; InvalidTableIndex; OversizedHeaderListError; InvalidTableSizeError;
   ValueError; IndexError; UnicodeDecodeError; TypeError; OutOfFuel].

Lemma all_exn_complete : forall e, In e all_exn.
Proof. intros []; cbn; tauto. Qed.

(** CPython's built-in hierarchy above the built-in classes the library uses *)
Definition builtin_bases : list (string * list string) :=
  [("BaseException", []); ("Exception", ["BaseException"]);
   ("LookupError", ["Exception"]); ("IndexError", ["LookupError"]);
   ("ValueError", ["Exception"]); ("UnicodeError", ["ValueError"]); ("UnicodeDecodeError", ["UnicodeError"]);
   ("TypeError", ["Exception"])].

Fixpoint assoc_bases (h : list (string * list string)) (c : string) : list string :=
  match h with
  | [] => []
  | (k, bs) :: r => if String.eqb k c then bs else assoc_bases r c
  end.

(** [c] is [d] or inherits from it (reflexive-transitive closure of "is a base of"), on fuel: a chain of
    bases longer than the number of classes would be a cycle, which Python refuses at class creation *)
Fixpoint subclass_fuel (h : list (string * list string)) (fuel : nat) (c d : string) : bool :=
  String.eqb c d ||
  match fuel with
  | O => false
  | S f => existsb (fun b => subclass_fuel h f b d) (assoc_bases h c)
  end.

Definition subclass_of (h : list (string * list string)) (c d : string) : bool :=
  subclass_fuel h (List.length h) c d.

(** the whole hierarchy: the source's classes, then the built-in ones *)
Definition hierarchy (src : list (string * list string)) := (src ++ builtin_bases)%list.

(** `except d:` catches [e], in the hierarchy [h] *)
Definition caught_by (h : list (string * list string)) (e d : exn) : bool :=
  subclass_of h (exn_class e) (exn_class d).

(** frozen copy of exceptions.py's class headers (tools/freeze_model.sh) *)
Definition EXC_BASES : list (string * list string) :=
  [("HPACKError", ["Exception"]); ("HPACKDecodingError", ["HPACKError"]);
   ("InvalidTableIndexError", ["HPACKDecodingError"]); ("InvalidTableIndex", ["InvalidTableIndexError"]);
   ("OversizedHeaderListError", ["HPACKDecodingError"]); ("InvalidTableSizeError", ["HPACKDecodingError"])].

(** [documented] is membership of the HPACKDecodingError family, in the frozen hierarchy *)
Lemma documented_is_family : forall e,
  documented e = subclass_of (hierarchy EXC_BASES) (exn_class e) "HPACKDecodingError".
Proof. intros []; vm_compute; reflexivity. Qed.

(** ... and every member is an HPACKError and an Exception, none is anything else the library handles *)
Lemma documented_is_hpack_error : forall e, documented e = true ->
  subclass_of (hierarchy EXC_BASES) (exn_class e) "HPACKError" = true /\
  subclass_of (hierarchy EXC_BASES) (exn_class e) "Exception" = true.
Proof. intros [] H; try discriminate H; vm_compute; split; reflexivity. Qed.

(** the relation between the model's own values that `except` uses *)
Definition exn_sub (e d : exn) : bool := caught_by (hierarchy EXC_BASES) e d.

(** the two handlers of the library name LEAF classes: `except IndexError` / `except UnicodeDecodeError`
    catch exactly that constructor, which is what [Prelude.Py.catch] implements *)
Lemma leaf_IndexError : forall e, exn_sub e IndexError = exn_eqb e IndexError.
Proof. intros []; vm_compute; reflexivity. Qed.
Lemma leaf_UnicodeDecodeError : forall e, exn_sub e UnicodeDecodeError = exn_eqb e UnicodeDecodeError.
Proof. intros []; vm_compute; reflexivity. Qed.

(** general handler: `try: m except d: raise to` *)
Definition catch_sub {A} (d to : exn) (m : outcome A) : outcome A :=
  match m with Err e => if exn_sub e d then Err to else Err e | x => x end.

Lemma catch_sub_leaf : forall A d to (m : outcome A),
  (forall e, exn_sub e d = exn_eqb e d) -> catch_sub d to m = catch d to m.
Proof. intros A d to [a|e] H; unfold catch_sub, catch; [reflexivity|]. rewrite H. reflexivity. Qed.

(** the same, in an arbitrary hierarchy [h] (what py2coq emits for a handler on a class that has modelled
    subclasses, with [h] the regenerated hierarchy) *)
Definition catch_h {A} (h : list (string * list string)) (d to : exn) (m : outcome A) : outcome A :=
  match m with Err e => if caught_by h e d then Err to else Err e | x => x end.
