(** Relations between the encoder model and the peer decoder's context, used in the
    statements of C01, C03, C09, C10, C15, C19. *)
From Coq Require Import ZArith List Bool.
From HV Require Import Prelude.Py Prelude.State Spec.DynTable Spec.SDecoder Model.Decoder Model.Encoder Model.Rel.
Import ListNotations.
Open Scope Z_scope.

(** the table a decoder would have after honouring a list of size updates *)
Definition apply_sizes (ms : list Z) (l : list entry) : list entry :=
  fold_left (fun l m => resize m l) ms l.

(** [Sync e c]: the encoder [e] and the context [c] of the peer decoder are in step, up to the
    size changes the encoder has recorded but not yet signalled: the encoder's table is what
    the peer's will be once it has honoured those changes. *)
Definition Sync (e : encoder) (c : ctx) : Prop :=
  e.(e_tab).(entries) = apply_sizes e.(e_changes) (dyn c) /\
  e.(e_tab).(maxsize) = last e.(e_changes) (size c) /\
  e.(e_tab).(resized) = negb (match e.(e_changes) with [] => true | _ => false end) /\
  Forall (fun m => 0 <= m <= limit c) e.(e_changes) /\
  size c <= limit c.

(** sizes that any real run stays below: string lengths, table limits (so that every integer
    the encoder writes fits the decoder's 20-continuation-octet limit) *)
Definition BIG : Z := 2 ^ 130.
Definition field_sane (f : field) : Prop := len (fst (fst f)) < BIG /\ len (snd (fst f)) < BIG.
Definition ctx_sane (c : ctx) : Prop := limit c < BIG.

(** name/value content of fields, forgetting the sensitivity flag / the tuple class *)
Definition nv_of_field (f : field) : bytes * bytes := (fst (fst f), snd (fst f)).
Definition nv_of_sfield (f : sfield) : bytes * bytes := (snd (fst f), snd f).
Definition nv_of_header (h : header) : bytes * bytes := (h_name h, h_value h).

(** the size of a header list given to the encoder *)
Definition fields_size (hs : list field) : Z := fold_right (fun f a => esize (nv_of_field f) + a) 0 hs.
