(** HAND-WRITTEN MODEL of hpack.hpack.Encoder (tier D: tied to the source by the
    correspondence harness).  The canonical input of [encode] is a list of
    (name bytes, value bytes, sensitive) -- the API forms are in Model/Api.v. *)
From Coq Require Import ZArith List Bool.
From Coq Require Import Init.Byte.
From HV Require Import Prelude.Py Prelude.State.
From HV Require Import Model.Data Model.Int Model.Table Model.HuffEnc Model.Decoder.
Import ListNotations.
Open Scope Z_scope.

Definition huffman_coder : hcoder := {| hc_codes := REQUEST_CODES; hc_lens := REQUEST_CODES_LENGTH |}.
Definition huffman_encode_m (s : bytes) : outcome bytes := HuffmanEncoder_encode huffman_coder s.

(** Encoder.__init__ *)
Definition Encoder_init : encoder := {| e_tab := HeaderTable_init; e_changes := [] |}.

(** header_table_size property *)
Definition Encoder_header_table_size (self : encoder) : Z := self.(e_tab).(maxsize).
Definition Encoder_set_header_table_size (self : encoder) (value : Z) : outcome unit * encoder :=
  match HeaderTable_set_maxsize self.(e_tab) value with
  | (Err e, tab) => (Err e, set_e_tab tab self)
  | (Ok _, tab) =>
      let self := set_e_tab tab self in
      if self.(e_tab).(resized)
      then (Ok tt, set_e_changes (self.(e_changes) ++ [value]) self)
      else (Ok tt, self)
  end.

(** _encode_indexed(index) *)
Definition Encoder__encode_indexed (index : Z) : outcome bytes :=
  field <- encode_integer index 7 ;;
  field <- or_first field 128 ;;
  Ok field.

(** _encode_literal(name, value, indexbit, huffman) *)
Definition Encoder__encode_literal (name value indexbit : bytes) (huffman : bool) : outcome bytes :=
  name <- (if huffman then huffman_encode_m name else Ok name) ;;
  value <- (if huffman then huffman_encode_m value else Ok value) ;;
  name_len <- encode_integer (len name) 7 ;;
  value_len <- encode_integer (len value) 7 ;;
  name_len <- (if huffman then or_first name_len 128 else Ok name_len) ;;
  value_len <- (if huffman then or_first value_len 128 else Ok value_len) ;;
  Ok (indexbit ++ name_len ++ name ++ value_len ++ value).

(** _encode_indexed_literal(index, value, indexbit, huffman) *)
Definition Encoder__encode_indexed_literal (index : Z) (value indexbit : bytes) (huffman : bool) : outcome bytes :=
  prefix <- (if negb (bytes_eqb indexbit INDEX_INCREMENTAL)
             then encode_integer index 4 else encode_integer index 6) ;;
  o <- ord_bytes indexbit ;;
  prefix <- or_first prefix o ;;
  value <- (if huffman then huffman_encode_m value else Ok value) ;;
  value_len <- encode_integer (len value) 7 ;;
  value_len <- (if huffman then or_first value_len 128 else Ok value_len) ;;
  Ok (prefix ++ value_len ++ value).

(** _encode_table_size_change(): the loop raises before anything is assigned *)
Fixpoint encode_size_changes (changes : list Z) (block : bytes) : outcome bytes :=
  match changes with
  | [] => Ok block
  | size_bytes :: r =>
      b <- encode_integer size_bytes 5 ;;
      b <- or_first b 32 ;;
      encode_size_changes r (block ++ b)
  end.
Definition Encoder__encode_table_size_change (self : encoder) : outcome bytes * encoder :=
  mbind (encode_size_changes self.(e_changes) []) self (fun block =>
  (Ok block, set_e_changes [] self)).

Definition lift_tab {A} (self : encoder) (r : outcome A * table) : outcome A * encoder :=
  (fst r, set_e_tab (snd r) self).

(** add(to_add, sensitive, huffman) *)
Definition Encoder_add (self : encoder) (name value : bytes) (sensitive huffman : bool) : outcome bytes * encoder :=
  let indexbit := if negb sensitive then INDEX_INCREMENTAL else INDEX_NEVER in
  mbind (HeaderTable_search self.(e_tab) name value) self (fun match_ =>
  match match_ with
  | None =>
      mbind (Encoder__encode_literal name value indexbit huffman) self (fun encoded =>
      if negb sensitive
      then sbind (lift_tab self (HeaderTable_add self.(e_tab) name value)) (fun _ self => (Ok encoded, self))
      else (Ok encoded, self))
  | Some (index, name, perfect) =>
      match perfect with
      | Some _ => (Encoder__encode_indexed index, self)
      | None =>
          mbind (Encoder__encode_indexed_literal index value indexbit huffman) self (fun encoded =>
          if negb sensitive
          then sbind (lift_tab self (HeaderTable_add self.(e_tab) name value)) (fun _ self => (Ok encoded, self))
          else (Ok encoded, self))
      end
  end).

Definition field := (bytes * bytes * bool)%type.   (* name, value, sensitive *)

(** the [for header in hpack_headers] loop: state (self, header_block) *)
Definition encode_fields (self : encoder) (headers : list field) (huffman : bool) (header_block : list bytes)
  : lres (encoder * list bytes) unit :=
  for_each headers (fun '(name, value, sensitive) '(self, header_block) =>
    match Encoder_add self name value sensitive huffman with
    | (Ok b, self) => Next (self, header_block ++ [b])
    | (Err e, self) => Raise e (self, header_block)
    end) (self, header_block).

(** encode(headers, huffman) on the canonical input form *)
Definition Encoder_encode (self : encoder) (headers : list field) (huffman : bool) : outcome bytes * encoder :=
  let header_block : list bytes := [] in
  sbind (if self.(e_tab).(resized)
         then sbind (Encoder__encode_table_size_change self) (fun b self =>
              (Ok (header_block ++ [b]), set_e_tab (set_resized false self.(e_tab)) self))
         else (Ok header_block, self)) (fun header_block self =>
  match encode_fields self headers huffman header_block with
  | Done (self, header_block) => (Ok (concat header_block), self)
  | Returned _ (self, _) => (Err OutOfFuel, self)
  | Raised e (self, _) => (Err e, self)
  | Exhausted (self, _) => (Err OutOfFuel, self)
  end).

(** * Operations of an encoder history *)
Inductive eop :=
| ESetSize (v : Z)                                   (* encoder.header_table_size = v *)
| EEncode (headers : list field) (huffman : bool).

Definition estep (self : encoder) (o : eop) : outcome bytes * encoder :=
  match o with
  | ESetSize v =>
      match Encoder_set_header_table_size self v with (Ok _, s) => (Ok [], s) | (Err e, s) => (Err e, s) end
  | EEncode hs h => Encoder_encode self hs h
  end.
Definition erun (ops : list eop) (e : encoder) : encoder :=
  fold_left (fun e o => snd (estep e o)) ops e.
