(** Abstraction from the model's decoder state and results to the specification's
    (used only in theorem statements). *)
From Coq Require Import ZArith List Bool.
From HV Require Import Prelude.Py Prelude.State Spec.DynTable Spec.SDecoder Model.Decoder.
Import ListNotations.
Open Scope Z_scope.

Definition ctx_of (d : decoder) : ctx :=
  {| dyn := d.(d_tab).(entries); size := d.(d_tab).(maxsize);
     limit := d.(d_max_allowed); list_limit := d.(d_max_list) |}.
Definition conv (h : header) : sfield :=
  (match h_class h with HNever => true | HPlain => false end, h_name h, h_value h).
(** the documented exception class of each specification error class *)
Definition exn_of (c : serr) : exn :=
  match c with
  | BadIndex => InvalidTableIndex
  | BadSize => InvalidTableSizeError
  | Oversized => OversizedHeaderListError
  | Malformed => HPACKDecodingError
  end.
(** the continuation-octet limit of the implementation (hpack._MAX_INTEGER_CONTINUATION_OCTETS) *)
Definition KLIM : Z := 20.
