(** A process with several Encoder/Decoder instances used interleaved (C20).

    What instances could share in the real library -- the static table and its mapping, the
    Huffman tables, the prefix table -- are Coq constants here: the MODEL cannot mutate them.
    That this is faithful (no function of the source writes to a module- or class-level
    object, every instance attribute is created fresh in __init__) is checked on the source by
    the purity check of tools/py2coq/purity.py on every run, and by running real histories
    isolated vs interleaved, with logging at DEBUG, and under several PYTHONHASHSEED values. *)
From Coq Require Import ZArith List Bool.
From HV Require Import Prelude.Py Prelude.State Model.Decoder Model.Encoder.
Import ListNotations.
Open Scope Z_scope.

Inductive inst := IEnc (e : encoder) | IDec (d : decoder).
Definition world := list inst.                       (* instance number i = position i *)

Inductive wop :=
| WNewEnc                                            (* Encoder() : appended to the world *)
| WNewDec (max_list : Z)                             (* Decoder(max_header_list_size) *)
| WEnc (i : nat) (o : eop)
| WDec (i : nat) (o : dop).

Inductive wout :=
| ONone
| OEnc (r : outcome bytes)
| ODec (r : outcome (list header)).

Fixpoint set_nth {A} (i : nat) (x : A) (l : list A) : list A :=
  match i, l with
  | O, _ :: r => x :: r
  | S k, y :: r => y :: set_nth k x r
  | _, [] => []
  end.

Definition wstep (w : world) (o : wop) : world * wout :=
  match o with
  | WNewEnc => (w ++ [IEnc Encoder_init], ONone)
  | WNewDec l => (w ++ [IDec (Decoder_init l)], ONone)
  | WEnc i eo =>
      match nth_error w i with
      | Some (IEnc e) => let '(r, e') := estep e eo in (set_nth i (IEnc e') w, OEnc r)
      | _ => (w, ONone)
      end
  | WDec i d_o =>
      match nth_error w i with
      | Some (IDec d) => let '(r, d') := dstep d d_o in (set_nth i (IDec d') w, ODec r)
      | _ => (w, ONone)
      end
  end.

(** run a history: final world and the outputs, in order *)
Fixpoint wrun (w : world) (ops : list wop) : world * list wout :=
  match ops with
  | [] => (w, [])
  | o :: r => let '(w1, out) := wstep w o in let '(w2, outs) := wrun w1 r in (w2, out :: outs)
  end.

(** does an operation address instance i? *)
Definition addresses (i : nat) (o : wop) : bool :=
  match o with
  | WEnc j _ | WDec j _ => Nat.eqb i j
  | _ => false
  end.

(** one instance run alone on its own operations *)
Definition istep (x : inst) (o : wop) : inst * wout :=
  match x, o with
  | IEnc e, WEnc _ eo => let '(r, e') := estep e eo in (IEnc e', OEnc r)
  | IDec d, WDec _ d_o => let '(r, d') := dstep d d_o in (IDec d', ODec r)
  | _, _ => (x, ONone)
  end.
Fixpoint irun (x : inst) (ops : list wop) : inst * list wout :=
  match ops with
  | [] => (x, [])
  | o :: r => let '(x1, out) := istep x o in let '(x2, outs) := irun x1 r in (x2, out :: outs)
  end.

(** the outputs of a world run that belong to instance i, in order *)
Fixpoint outputs_of (i : nat) (ops : list wop) (outs : list wout) : list wout :=
  match ops, outs with
  | o :: r, out :: routs => if addresses i o then out :: outputs_of i r routs else outputs_of i r routs
  | _, _ => []
  end.
