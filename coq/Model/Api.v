(** HAND-WRITTEN MODEL of the argument handling of Encoder.encode and of _to_bytes,
    _dict_to_iterable (tier D: tied to the source by the correspondence harness, which drives
    the real Encoder with every form below).

    A Python string argument is bytes or text; text is represented by its UTF-8 encoding
    (the only thing the code does with it is [value.encode("utf-8")]).  A header is given in
    one of the documented forms; the container is a list, a one-shot iterator or a dict. *)
From Coq Require Import ZArith List Bool.
From Coq Require Import Init.Byte.
From HV Require Import Prelude.Py Prelude.State Model.Decoder Model.Encoder.
Import ListNotations.
Open Scope Z_scope.

Inductive pystr := PBytes (b : bytes) | PText (utf8 : bytes).

Inductive hform :=
| F2 (n v : pystr)                         (* (name, value) *)
| F3 (n v : pystr) (flag : option bool)    (* (name, value, sensitive) with sensitive True / False / None *)
| FHeaderTuple (n v : pystr)               (* HeaderTuple(name, value) *)
| FNever (n v : pystr).                    (* NeverIndexedHeaderTuple(name, value) *)

Inductive container :=
| CList (l : list hform)
| CIter (l : list hform)                   (* a generator / one-shot iterator yielding these *)
| CDict (items : list (pystr * pystr)).    (* a dict, in insertion order; keys are distinct objects *)

(** _to_bytes(value): bytes stay, text is UTF-8 encoded *)
Definition _to_bytes (s : pystr) : bytes := match s with PBytes b => b | PText u => u end.

(** truthiness of the third tuple element as [add] uses it ([if not sensitive]) *)
Definition flag_truthy (f : option bool) : bool := match f with Some true => true | _ => false end.

(** the body of [for header in hpack_headers]: which (name, value, sensitive) reaches add() *)
Definition header_args (h : hform) : field :=
  let sensitive := false in
  match h with
  | FHeaderTuple n v => let sensitive := negb true in (_to_bytes n, _to_bytes v, sensitive)   (* indexable = True *)
  | FNever n v => let sensitive := negb false in (_to_bytes n, _to_bytes v, sensitive)        (* indexable = False *)
  | F3 n v flag => let sensitive := flag_truthy flag in (_to_bytes n, _to_bytes v, sensitive) (* len(header) > 2 *)
  | F2 n v => (_to_bytes n, _to_bytes v, sensitive)
  end.

(** sorted(keys, key=lambda k: not _to_bytes(k).startswith(b":")): CPython's sort is stable;
    modelled as a stable insertion sort on the boolean key (False < True) *)
Definition starts_colon (b : bytes) : bool :=
  match b with x :: _ => Byte.eqb x Byte.x3a | [] => false end.
Definition sort_key (k : pystr) : bool := negb (starts_colon (_to_bytes k)).
Fixpoint insert_stable (x : pystr * pystr) (l : list (pystr * pystr)) : list (pystr * pystr) :=
  match l with
  | [] => [x]
  | y :: r =>
      (* x goes before y iff key x < key y (strictly: equal keys keep their order, and x came later) *)
      if negb (sort_key (fst x)) && sort_key (fst y) then x :: l else y :: insert_stable x r
  end.
Definition sorted_items (items : list (pystr * pystr)) : list (pystr * pystr) :=
  fold_left (fun acc x => insert_stable x acc) items [].
(* fold_left inserts the items in their original order, each after the earlier equal-keyed ones *)

(** _dict_to_iterable(header_dict): yields (key, header_dict[key]) two-tuples *)
Definition _dict_to_iterable (items : list (pystr * pystr)) : list hform :=
  map (fun kv => F2 (fst kv) (snd kv)) (sorted_items items).

Definition container_headers (c : container) : list hform :=
  match c with
  | CList l => l
  | CIter l => l
  | CDict items => _dict_to_iterable items
  end.

(** Encoder.encode(headers, huffman) on the API forms *)
Definition Encoder_encode_api (self : encoder) (c : container) (huffman : bool) : outcome bytes * encoder :=
  Encoder_encode self (map header_args (container_headers c)) huffman.

(** * The property's reading (specification side): what a container MEANS *)
Definition spec_field (h : hform) : field :=
  match h with
  | F2 n v | FHeaderTuple n v => (_to_bytes n, _to_bytes v, false)
  | F3 n v (Some true) | FNever n v => (_to_bytes n, _to_bytes v, true)
  | F3 n v _ => (_to_bytes n, _to_bytes v, false)
  end.
Definition canon (c : container) : list field :=
  match c with
  | CList l | CIter l => map spec_field l
  | CDict items =>
      (* its items, colon-prefixed names moved first, in stable order *)
      map (fun kv => (_to_bytes (fst kv), _to_bytes (snd kv), false))
          (filter (fun kv => starts_colon (_to_bytes (fst kv))) items ++
           filter (fun kv => negb (starts_colon (_to_bytes (fst kv)))) items)
  end.
