(** Cost model of decoding one block (C16, partial).

    The unit of work is one "step": reading one octet of the block in one of the Python-level
    loops (the block loop, decode_integer, decode_huffman's two nibbles, a bytes(...) copy of
    a literal), starting one representation, or evicting one table entry.  [step_cost] charges
    every representation the octets it occupies, one unit for itself and one unit per entry
    its insertion or resize evicts; a block that is rejected is charged what was scanned, at
    most its remaining length.  This is a MODEL of the cost of the Python code: that each
    helper does work linear in the octets it consumes rests on
      - decode_integer reading at most 21 octets and accumulating below 2^141 (theorems below),
      - the helpers receiving memoryview slices (O(1)), never copies of the rest of the block,
    which the harness checks on the real code (largest shift seen in decode_integer, the type
    of every helper's buffer argument under sys.settrace, growth of line counts and of CPU time
    with the block length).  CPU time itself and CPython's allocator are outside the model. *)
From Coq Require Import ZArith List Bool.
From HV Require Import Prelude.Py Spec.IntRep Spec.DynTable Spec.SDecoder.
Import ListNotations.
Open Scope Z_scope.

Section WithLimit.
Variable K : Z.

(** mirrors [Spec.SDecoder.decode_loop] step for step, returning the work done *)
Fixpoint cost_loop (fuel : nat) (c : ctx) (bs : bytes) (nacc : Z) (run : Z) : Z :=
  match bs with
  | [] => 1
  | b :: _ =>
      match fuel with
      | O => 1
      | S fuel =>
          let first := bz b in
          if (first <? 64) && (32 <=? first) && negb (nacc =? 0) then 1
          else
          match parse_rep K (dyn c) first bs with
          | SErr _ => 1 + len bs                     (* scanned at most the rest of the block *)
          | SOk (a, rest) =>
              let consumed := len bs - len rest in
              match a with
              | Resize n =>
                  if n >? limit c then 1 + consumed
                  else let d' := resize n (dyn c) in
                       1 + consumed + (len (dyn c) - len d') +
                       cost_loop fuel {| dyn := d'; size := n; limit := limit c; list_limit := list_limit c |}
                                 rest nacc run
              | Emit never ins name value =>
                  let run := run + esize (name, value) in
                  if run >? list_limit c then 1 + consumed
                  else
                    let d' := if ins then insert (size c) (name, value) (dyn c) else dyn c in
                    1 + consumed + (if ins then len (dyn c) + 1 - len d' else 0) +
                    cost_loop fuel {| dyn := d'; size := size c; limit := limit c; list_limit := list_limit c |}
                              rest (nacc + 1) run
              end
          end
      end
  end.

Definition cost_decode (c : ctx) (bs : bytes) : Z := cost_loop (S (length bs)) c bs 0 0 + len bs.
(* + len bs: building the memoryview, the final list comprehension (at most one field per octet) *)

End WithLimit.
