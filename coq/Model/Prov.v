(** Provenance abstraction of the decoder (C17): does a byte-string VALUE that the decoder
    keeps or returns still alias the caller's input buffer?

    Python facts used (TRUSTED, validated by the correspondence harness through the run-time
    types of table entries and returned fields, the buffer's reference count, and
    mutate-after-decode runs):  [memoryview(x)] and any slice of a memoryview are VIEWS of the
    caller's buffer;  [bytes(x)] is an owned bytes object whatever x is;  [decode_huffman]
    returns an owned bytes object;  entries of the static table are owned;  [x.decode("utf-8")]
    is an owned str.

    The annotated functions below follow Model/Decoder.v statement by statement and carry,
    next to every value, its provenance tag; [erase] lemmas (Proofs/Prov.v) show that dropping
    the tags gives back the model's functions. *)
From Coq Require Import ZArith List Bool.
From HV Require Import Prelude.Py Prelude.State Prelude.Utf8.
From HV Require Import Model.Data Model.Int Model.Table Model.HuffDec Model.Decoder.
Import ListNotations.
Open Scope Z_scope.

Inductive pv := Owned | View.
Definition pv_and (a b : pv) : pv := match a, b with Owned, Owned => Owned | _, _ => View end.

(** the decoder with the tags of its table entries (parallel to [entries], newest first) *)
Record pdecoder := { pd : decoder; ptags : list (pv * pv) }.

(** tags follow the table: after an insertion / a resize the table keeps a prefix of
    (new :: old), so do the tags *)
Definition tags_after (new_entries : list (bytes * bytes)) (tags : list (pv * pv)) : list (pv * pv) :=
  firstn (length new_entries) tags.

(** data[consumed:consumed+length] of a memoryview is a view; decode_huffman gives owned *)
Definition p_decode_string (data : bytes) : outcome (bytes * pv * Z * Z) :=
  '(length, consumed) <- decode_integer data 7 ;;
  let s := slice_Z data consumed (consumed + length) in
  if negb (len s =? length) then Err HPACKDecodingError
  else
    t <- index_Z data 0 ;;
    if truthy (Z.land (bz t) 128)
    then s <- decode_huffman_m s ;; Ok (s, Owned, length, consumed)
    else Ok (s, View, length, consumed).

(** [copy]: does the code copy the literals with bytes(...) before storing/returning them
    (the D5 repair)?  The real code corresponds to [copy = true]. *)
Definition p_decode_literal (copy : bool) (self : pdecoder) (data : bytes) (should_index : bool)
  : outcome (header * (pv * pv) * Z) * pdecoder :=
  let d := self.(pd) in
  mbind (index_Z data 0) self (fun t0 =>
  let '(indexed_name, name_len, not_indexable) :=
    if should_index
    then (Z.land (bz t0) 63, 6, false)
    else let high_byte := bz t0 in
         (Z.land high_byte 15, 4, truthy (Z.land high_byte 16)) in
  mbind
    (if truthy indexed_name then
       '(index, consumed) <- decode_integer data name_len ;;
       t1 <- HeaderTable_get_by_index d.(d_tab) index ;;
       (* the name object is the table's: static entries are owned, dynamic ones carry their tag *)
       let tag := if index <=? 61 then Owned
                  else match nth_error self.(ptags) (Z.to_nat (index - 62)) with
                       | Some (tn, _) => tn | None => Owned end in
       Ok (fst t1, tag, consumed, data, consumed, 0)
     else
       let data := slice_from data 1 in
       '(name, tag, length, consumed) <- p_decode_string data ;;
       Ok (name, tag, consumed + length + 1, data, consumed, length))
    self (fun '(name, tn, total_consumed, data, consumed, length) =>
  let data := slice_from data (consumed + length) in
  mbind (p_decode_string data) self (fun '(value, tv, length, consumed) =>
  let total_consumed := total_consumed + (length + consumed) in
  (* name = bytes(name); value = bytes(value) *)
  let tn := if copy then Owned else tn in
  let tv := if copy then Owned else tv in
  let header : header := if not_indexable then (HNever, name, value) else (HPlain, name, value) in
  if should_index
  then match HeaderTable_add d.(d_tab) name value with
       | (Ok _, tab) => (Ok (header, (tn, tv), total_consumed),
                         {| pd := set_d_tab tab d; ptags := tags_after tab.(entries) ((tn, tv) :: self.(ptags)) |})
       | (Err e, tab) => (Err e, {| pd := set_d_tab tab d; ptags := tags_after tab.(entries) ((tn, tv) :: self.(ptags)) |})
       end
  else (Ok (header, (tn, tv), total_consumed), self)))).

Definition p_decode_indexed (self : pdecoder) (data : bytes) : outcome (header * (pv * pv) * Z) :=
  '(index, consumed) <- decode_integer data 7 ;;
  t1 <- HeaderTable_get_by_index self.(pd).(d_tab) index ;;
  let tag := if index <=? 61 then (Owned, Owned)
             else match nth_error self.(ptags) (Z.to_nat (index - 62)) with Some t => t | None => (Owned, Owned) end in
  Ok ((HPlain, fst t1, snd t1), tag, consumed).

Definition p_update_encoding_context (self : pdecoder) (data : bytes) : outcome Z * pdecoder :=
  match Decoder__update_encoding_context self.(pd) data with
  | (r, d') => (r, {| pd := d'; ptags := tags_after d'.(d_tab).(entries) self.(ptags) |})
  end.

Definition pstate := (pdecoder * list (header * (pv * pv)) * Z * Z)%type.

Definition p_decode_body (copy : bool) (data : bytes) (data_len : Z) (st : pstate)
  : ctl pstate (list (header * (pv * pv))) :=
  let '(self, headers, inflated_size, current_index) := st in
  if current_index <? data_len then
    match index_Z data current_index with
    | Err e => Raise e st
    | Ok t =>
      let current := bz t in
      let indexed := truthy (Z.land current 128) in
      let literal_index := truthy (Z.land current 64) in
      let encoding_update := truthy (Z.land current 32) in
      let '(r, self) :=
        if indexed then
          (match p_decode_indexed self (slice_from data current_index) with
           | Ok (h, tg, c) => Ok (Some (h, tg), c) | Err e => Err e end, self)
        else if literal_index then
          match p_decode_literal copy self (slice_from data current_index) true with
          | (Ok (h, tg, c), self) => (Ok (Some (h, tg), c), self) | (Err e, self) => (Err e, self) end
        else if encoding_update then
          if negb (len headers =? 0) then (Err HPACKDecodingError, self)
          else match p_update_encoding_context self (slice_from data current_index) with
               | (Ok c, self) => (Ok (None, c), self) | (Err e, self) => (Err e, self) end
        else
          match p_decode_literal copy self (slice_from data current_index) false with
          | (Ok (h, tg, c), self) => (Ok (Some (h, tg), c), self) | (Err e, self) => (Err e, self) end in
      match r with
      | Err e => Raise e (self, headers, inflated_size, current_index)
      | Ok (Some (h, tg), consumed) =>
          let headers := headers ++ [(h, tg)] in
          let inflated_size := inflated_size + table_entry_size (h_name h) (h_value h) in
          if inflated_size >? self.(pd).(d_max_list)
          then match py_format_d self.(pd).(d_max_list) with
               | Err e => Raise e (self, headers, inflated_size, current_index)
               | Ok _ => Raise OversizedHeaderListError (self, headers, inflated_size, current_index)
               end
          else Next (self, headers, inflated_size, current_index + consumed)
      | Ok (None, consumed) => Next (self, headers, inflated_size, current_index + consumed)
      end
    end
  else Break st.

(** decode(): the returned tuples go through _unicode_if_needed, which builds owned objects
    (bytes(...) / .decode("utf-8")) -- whatever the tags of the intermediate headers were *)
Definition p_decode (copy : bool) (self : pdecoder) (data : bytes) (raw : bool)
  : outcome (list (header * (pv * pv))) * pdecoder :=
  let data_len := len data in
  match while_fuel (S (length data)) (p_decode_body copy data data_len) (self, [], 0, 0) with
  | Done (self, headers, _, _) =>
      mbind (Decoder__assert_valid_table_size self.(pd)) self (fun _ =>
      (match catch UnicodeDecodeError HPACKDecodingError (unicode_all (map fst headers) raw) with
       | Ok hs => Ok (map (fun h => (h, (Owned, Owned))) hs)
       | Err e => Err e
       end, self))
  | Returned r (self, _, _, _) => (Ok r, self)
  | Raised e (self, _, _, _) => (Err e, self)
  | Exhausted (self, _, _, _) => (Err OutOfFuel, self)
  end.

Definition p_dstep (copy : bool) (self : pdecoder) (o : dop) : outcome (list (header * (pv * pv))) * pdecoder :=
  match o with
  | DDecode data raw => p_decode copy self data raw
  | DSetTableSize v =>
      match Decoder_set_header_table_size self.(pd) v with
      | (Ok _, d') => (Ok [], {| pd := d'; ptags := tags_after d'.(d_tab).(entries) self.(ptags) |})
      | (Err e, d') => (Err e, {| pd := d'; ptags := tags_after d'.(d_tab).(entries) self.(ptags) |})
      end
  | _ => (match fst (dstep self.(pd) o) with Ok _ => Ok [] | Err e => Err e end,
          {| pd := snd (dstep self.(pd) o); ptags := self.(ptags) |})
  end.
Definition p_drun (copy : bool) (ops : list dop) (s : pdecoder) : pdecoder :=
  fold_left (fun s o => snd (p_dstep copy s o)) ops s.
Definition p_init (max_list : Z) : pdecoder := {| pd := Decoder_init max_list; ptags := [] |}.

Definition all_owned (tags : list (pv * pv)) : Prop := Forall (fun t => t = (Owned, Owned)) tags.
