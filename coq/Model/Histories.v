(** Histories of encoder operations consumed by a decoder: the notions used in the statements
    of C01, C03, C09, C10 (definitions only; used only in theorem statements and their proofs). *)
From Coq Require Import ZArith List Bool.
From HV Require Import Prelude.Py Prelude.State Prelude.Utf8 Spec.DynTable Spec.SDecoder.
From HV Require Import Model.Data Model.Table Model.Decoder Model.Encoder Model.Rel Model.RelEnc.
Import ListNotations.
Open Scope Z_scope.

(** C10: every history from given objects: any table-size settings between blocks, any blocks;
    after EACH block the decoded list is the encoded one and the two tables are equal. *)
Fixpoint in_lockstep (d : decoder) (e : encoder) (ops : list (eop * bool)) : Prop :=
  match ops with
  | [] => True
  | (ESetSize v, _) :: r => in_lockstep d (snd (estep e (ESetSize v))) r
  | (EEncode hs h, raw) :: r =>
      match estep e (EEncode hs h) with
      | (Ok w, e') =>
          match Decoder_decode d w raw with
          | (Ok hs', d') =>
              map nv_of_header hs' = map nv_of_field hs /\
              d'.(d_tab).(entries) = e'.(e_tab).(entries) /\
              d'.(d_tab).(maxsize) = e'.(e_tab).(maxsize) /\ in_lockstep d' e' r
          | (Err _, _) => False
          end
      | (Err _, _) => False
      end
  end.
(** the operations a history may contain, for a decoder permitting table sizes up to [Lim]
    and header lists up to [LL]; the [bool] is the decoder's [raw] flag for that block *)
Definition pop_ok (Lim LL : Z) (o : eop * bool) : Prop :=
  match o with
  | (ESetSize v, _) => 0 <= v <= Lim
  | (EEncode hs _, raw) =>
      Forall field_sane hs /\ fields_size hs <= LL /\
      (raw = false -> Forall (fun f => utf8_valid (fst (fst f)) = true /\ utf8_valid (snd (fst f)) = true) hs)
  end.

(** C01: every decoded block equals the block that was encoded *)
Fixpoint round_trips (d : decoder) (e : encoder) (ops : list (eop * bool)) : Prop :=
  match ops with
  | [] => True
  | (ESetSize v, _) :: r => round_trips d (snd (estep e (ESetSize v))) r
  | (EEncode hs h, raw) :: r =>
      match estep e (EEncode hs h) with
      | (Ok w, e') =>
          match Decoder_decode d w raw with
          | (Ok hs', d') => map nv_of_header hs' = map nv_of_field hs /\ round_trips d' e' r
          | (Err _, _) => False
          end
      | (Err _, _) => False
      end
  end.

(** C03: an RFC decoder that processes the blocks in order recovers every header list *)
Fixpoint spec_consumes (c : ctx) (e : encoder) (ops : list eop) : Prop :=
  match ops with
  | [] => True
  | ESetSize v :: r => spec_consumes c (snd (estep e (ESetSize v))) r
  | EEncode hs h :: r =>
      match estep e (EEncode hs h) with
      | (Ok w, e') => exists fs c', decode KLIM c w false = SOk (fs, c') /\
                                    map nv_of_sfield fs = map nv_of_field hs /\ spec_consumes c' e' r
      | (Err _, _) => False
      end
  end.
Definition op_ok (Lim LL : Z) (o : eop) : Prop :=
  match o with
  | ESetSize v => 0 <= v <= Lim
  | EEncode hs _ => Forall field_sane hs /\ fields_size hs <= LL
  end.

(** C09: [recorded old vs] is what the encoder records of the settings [vs] made while the
    size in force is [old] and nothing is pending: the settings from the first one that
    differs from [old]. *)
Fixpoint recorded (old : Z) (vs : list Z) : list Z :=
  match vs with
  | [] => []
  | v :: r => if v =? old then recorded old r else v :: r
  end.
Definition set_all (e : encoder) (vs : list Z) : encoder :=
  fold_left (fun e v => snd (estep e (ESetSize v))) vs e.
