(** HAND-WRITTEN MODEL of hpack.hpack.Decoder (tier D: tied to the source by the
    correspondence harness; see DESIGN.md 5.2).  It follows the Python text
    statement by statement; every place where the Python could raise is a bind.

    A decoded header is [(class, name, value)]: HeaderTuple = HPlain,
    NeverIndexedHeaderTuple = HNever.  In text mode ([raw = false]) the returned
    names and values are the UTF-8 encodings of the returned str objects. *)
From Coq Require Import ZArith List Bool.
From Coq Require Import Init.Byte.
From HV Require Import Prelude.Py Prelude.State Prelude.Utf8.
From HV Require Import Model.Data Model.Int Model.Table Model.HuffDec.
Import ListNotations.
Open Scope Z_scope.

Inductive hclass := HPlain | HNever.
Definition header := (hclass * bytes * bytes)%type.
Definition h_name (h : header) : bytes := snd (fst h).
Definition h_value (h : header) : bytes := snd h.
Definition h_class (h : header) : hclass := fst (fst h).

Definition decode_huffman_m : bytes -> outcome bytes :=
  decode_huffman HUFFMAN_TABLE HUFFMAN_COMPLETE HUFFMAN_EMIT_SYMBOL HUFFMAN_FAIL.

(** HeaderTable.__init__ *)
Definition HeaderTable_init : table :=
  {| maxsize := DEFAULT_SIZE; cursize := 0; resized := false; entries := [] |}.

(** Decoder.__init__(max_header_list_size) *)
Definition Decoder_init (max_header_list_size : Z) : decoder :=
  let header_table := HeaderTable_init in
  {| d_tab := header_table; d_max_list := max_header_list_size; d_max_allowed := header_table.(maxsize) |}.

(** header_table_size property: getter and setter *)
Definition Decoder_header_table_size (self : decoder) : Z := self.(d_tab).(maxsize).
Definition Decoder_set_header_table_size (self : decoder) (value : Z) : outcome unit * decoder :=
  match HeaderTable_set_maxsize self.(d_tab) value with
  | (r, tab) => (r, set_d_tab tab self)
  end.

(** _unicode_if_needed(header, raw) *)
Definition _unicode_if_needed (h : header) (raw : bool) : outcome header :=
  let name := h_name h in
  let value := h_value h in
  if negb raw then
    n <- py_decode_utf8 name ;;
    v <- py_decode_utf8 value ;;
    Ok (h_class h, n, v)
  else Ok (h_class h, name, value).

(** _assert_valid_table_size *)
Definition Decoder__assert_valid_table_size (self : decoder) : outcome unit :=
  if Decoder_header_table_size self >? self.(d_max_allowed)
  then Err InvalidTableSizeError
  else Ok tt.

(** _update_encoding_context(data) *)
Definition Decoder__update_encoding_context (self : decoder) (data : bytes) : outcome Z * decoder :=
  mbind (decode_integer data 5) self (fun '(new_size, consumed) =>
  if new_size >? self.(d_max_allowed)
  then (Err InvalidTableSizeError, self)
  else sbind (Decoder_set_header_table_size self new_size) (fun _ self =>
       (Ok consumed, self))).

(** _decode_indexed(data) *)
Definition Decoder__decode_indexed (self : decoder) (data : bytes) : outcome (header * Z) :=
  '(index, consumed) <- decode_integer data 7 ;;
  t1 <- HeaderTable_get_by_index self.(d_tab) index ;;
  let header := (HPlain, fst t1, snd t1) in
  Ok (header, consumed).

(** A length-prefixed string at the start of [data]: the part of _decode_literal that is
    written twice in the Python (name and value):
      length, consumed = decode_integer(data, 7)
      s = data[consumed:consumed + length]
      if len(s) != length: raise HPACKDecodingError
      if data[0] & 0x80: s = decode_huffman(s)
    returns (s, length, consumed). *)
Definition decode_string (data : bytes) : outcome (bytes * Z * Z) :=
  '(length, consumed) <- decode_integer data 7 ;;
  let s := slice_Z data consumed (consumed + length) in
  if negb (len s =? length) then Err HPACKDecodingError
  else
    t <- index_Z data 0 ;;
    s <- (if truthy (Z.land (bz t) 128) then decode_huffman_m s else Ok s) ;;
    Ok (s, length, consumed).

(** _decode_literal(data, should_index) *)
Definition Decoder__decode_literal (self : decoder) (data : bytes) (should_index : bool)
  : outcome (header * Z) * decoder :=
  let total_consumed := 0 in
  mbind (index_Z data 0) self (fun t0 =>
  let '(indexed_name, name_len, not_indexable) :=
    if should_index
    then (Z.land (bz t0) 63, 6, false)
    else let high_byte := bz t0 in
         (Z.land high_byte 15, 4, truthy (Z.land high_byte 16)) in
  mbind
    (if truthy indexed_name then
       (* indexed header name *)
       '(index, consumed) <- decode_integer data name_len ;;
       t1 <- HeaderTable_get_by_index self.(d_tab) index ;;
       let name := fst t1 in
       let total_consumed := consumed in
       let length := 0 in
       Ok (name, total_consumed, data, consumed, length)
     else
       (* literal header name; the first byte is consumed *)
       let data := slice_from data 1 in
       '(name, length, consumed) <- decode_string data ;;
       let total_consumed := consumed + length + 1 in
       Ok (name, total_consumed, data, consumed, length))
    self (fun '(name, total_consumed, data, consumed, length) =>
  let data := slice_from data (consumed + length) in
  (* the header value is definitely length-based *)
  mbind (decode_string data) self (fun '(value, length, consumed) =>
  let total_consumed := total_consumed + (length + consumed) in
  let header : header := if not_indexable then (HNever, name, value) else (HPlain, name, value) in
  if should_index
  then match HeaderTable_add self.(d_tab) name value with
       | (Ok _, tab) => (Ok (header, total_consumed), set_d_tab tab self)
       | (Err e, tab) => (Err e, set_d_tab tab self)
       end
  else (Ok (header, total_consumed), self)))).

Definition Decoder__decode_literal_no_index (self : decoder) (data : bytes) :=
  Decoder__decode_literal self data false.
Definition Decoder__decode_literal_index (self : decoder) (data : bytes) :=
  Decoder__decode_literal self data true.

(** The body of the [while current_index < data_len] loop of decode().
    Loop state: (self, headers, inflated_size, current_index). *)
Definition dstate := (decoder * list header * Z * Z)%type.

Definition decode_body (data : bytes) (data_len : Z) (st : dstate) : ctl dstate (list header) :=
  let '(self, headers, inflated_size, current_index) := st in
  if current_index <? data_len then
    match index_Z data current_index with
    | Err e => Raise e st
    | Ok t =>
      let current := bz t in
      let indexed := truthy (Z.land current 128) in
      let literal_index := truthy (Z.land current 64) in
      let encoding_update := truthy (Z.land current 32) in
      (* each arm: (outcome (option header * consumed), self) *)
      let '(r, self) :=
        if indexed then
          (match Decoder__decode_indexed self (slice_from data current_index) with
           | Ok (h, c) => Ok (Some h, c) | Err e => Err e end, self)
        else if literal_index then
          match Decoder__decode_literal_index self (slice_from data current_index) with
          | (Ok (h, c), self) => (Ok (Some h, c), self) | (Err e, self) => (Err e, self) end
        else if encoding_update then
          if negb (len headers =? 0) then (Err HPACKDecodingError, self)
          else match Decoder__update_encoding_context self (slice_from data current_index) with
               | (Ok c, self) => (Ok (None, c), self) | (Err e, self) => (Err e, self) end
        else
          match Decoder__decode_literal_no_index self (slice_from data current_index) with
          | (Ok (h, c), self) => (Ok (Some h, c), self) | (Err e, self) => (Err e, self) end in
      match r with
      | Err e => Raise e (self, headers, inflated_size, current_index)
      | Ok (Some h, consumed) =>
          let headers := headers ++ [h] in
          let inflated_size := inflated_size + table_entry_size (h_name h) (h_value h) in
          if inflated_size >? self.(d_max_list)
          then match py_format_d self.(d_max_list) with
               | Err e => Raise e (self, headers, inflated_size, current_index)
               | Ok _ => Raise OversizedHeaderListError (self, headers, inflated_size, current_index)
               end
          else Next (self, headers, inflated_size, current_index + consumed)
      | Ok (None, consumed) => Next (self, headers, inflated_size, current_index + consumed)
      end
    end
  else Break st.

(** [[_unicode_if_needed(h, raw) for h in headers]] *)
Fixpoint unicode_all (hs : list header) (raw : bool) : outcome (list header) :=
  match hs with
  | [] => Ok []
  | h :: r => h' <- _unicode_if_needed h raw ;; r' <- unicode_all r raw ;; Ok (h' :: r')
  end.

(** Decoder.decode(data, raw) *)
Definition Decoder_decode (self : decoder) (data : bytes) (raw : bool) : outcome (list header) * decoder :=
  let data_len := len data in
  match while_fuel (S (length data)) (decode_body data data_len) (self, [], 0, 0) with
  | Done (self, headers, _, _) =>
      mbind (Decoder__assert_valid_table_size self) self (fun _ =>
      (catch UnicodeDecodeError HPACKDecodingError (unicode_all headers raw), self))
  | Returned r (self, _, _, _) => (Ok r, self)
  | Raised e (self, _, _, _) => (Err e, self)
  | Exhausted (self, _, _, _) => (Err OutOfFuel, self)
  end.

(** * Operations of a decoder history (what an application can do to a Decoder) *)
Inductive dop :=
| DSetMaxAllowed (v : Z)        (* decoder.max_allowed_table_size = v *)
| DSetTableSize (v : Z)         (* decoder.header_table_size = v *)
| DSetMaxList (v : Z)           (* decoder.max_header_list_size = v *)
| DDecode (data : bytes) (raw : bool).

Definition dstep (self : decoder) (o : dop) : outcome (list header) * decoder :=
  match o with
  | DSetMaxAllowed v => (Ok [], set_d_max_allowed v self)
  | DSetTableSize v =>
      match Decoder_set_header_table_size self v with (Ok _, s) => (Ok [], s) | (Err e, s) => (Err e, s) end
  | DSetMaxList v => (Ok [], set_d_max_list v self)
  | DDecode data raw => Decoder_decode self data raw
  end.
Definition drun (ops : list dop) (d : decoder) : decoder :=
  fold_left (fun d o => snd (dstep d o)) ops d.
