#!/bin/bash
# usage: try_mutant.sh <dir with patch.diff demo.py meta.json> <property ids to check...>
# 1. confirms the seeded change in a fresh scratch worktree (suite passes, demo fails with / passes without);
# 2. applies it to /repo, runs ./check for the given properties, reverts /repo straight afterwards.
set -u
D=$(realpath $1); shift
V=$(cd "$(dirname "$0")/.." && pwd)
W=/var/tmp/hv_mutwt_$$
git -C /repo worktree add --detach $W HEAD -q || exit 2
trap 'git -C /repo checkout -q -- . ; git -C /repo worktree remove --force $W 2>/dev/null' EXIT
echo "== without the change: demo"
( cd $W && PYTHONPATH=$W/src timeout 300 /venv/bin/python $D/demo.py >/dev/null 2>&1 ); echo "   exit $? (want 0)"
( cd $W && git apply $D/patch.diff ) || { echo "patch does not apply"; exit 2; }
echo "== with the change: test suite"
( cd $W && PYTHONPATH=$W/src timeout 900 /venv/bin/python -m pytest -q -p no:cacheprovider --timeout=900 2>&1 | tail -1 )
echo "== with the change: demo"
( cd $W && PYTHONPATH=$W/src timeout 300 /venv/bin/python $D/demo.py 2>&1 | tail -2 )
git -C /repo worktree remove --force $W
git -C /repo status --short | grep -q . && { echo "/repo is dirty, refusing"; exit 2; }
git -C /repo apply $D/patch.diff || exit 2
for p in "$@"; do
  echo "== ./check $p"
  ( cd $V && timeout 3000 ./check $p 2>&1 | grep -v "^KNOWN-FINDING" | head -6 | cut -c1-400 );
done
git -C /repo checkout -q -- .
git -C /repo status --short
