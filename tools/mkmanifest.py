#!/usr/bin/env python3
"""Writes /verif/MANIFEST.json from the table below (keeps the manifest in step with ./check)."""
import json
import os

V = os.path.dirname(os.path.dirname(os.path.abspath(__file__)))

NOTE_TIE_ABC = ("Trusted base: Coq 8.16.1 kernel (vm_compute for finite sweeps; no native_compute, no axioms -- every theorem "
                "prints 'Closed under the global context'); the RFC transcription in Spec/; tools/py2coq + Prelude/Py.v "
                "(Python-subset semantics), validated by running the regenerated translation, the frozen model and the "
                "extracted Spec against the real implementation on every run; extraction via ExtrOcamlBasic + driver glue. ")
NOTE_TIE_D = ("Encoder/Decoder methods, Encoder.encode's argument handling and the constructors are modelled by hand "
              "(Model/Encoder.v, Model/Decoder.v, Model/Api.v); since the tier-D translation they too are regenerated from the "
              "source on every run and proved equal to the hand model by bridge lemmas (Bridge/B_dec_*, B_enc_*, B_init_*, B_api_*; "
              "Encoder.encode under a documented typed view of its dynamically typed arguments: bytes or str names/values, "
              "two-/three-tuples, the two header-tuple classes, list / iterator / dict -- other argument types are outside the model). "
              "A fail-closed layout check (tools/py2coq/layout.py, static + run time) refuses anything that could make the running code "
              "differ from the translated text (extra files or module-level code, decorators, hooks, rebinding, monkeypatching). ")

CLAIMS = {
    "C01": ("round-trip theorem over every encoder/decoder history (C01_round_trip), composed from the encoder-meaning and decoder-refinement theorems",
            "simulation proof over histories (Coq) + translator/bridge + correspondence", NOTE_TIE_ABC + NOTE_TIE_D, "7 C10/C01/C03"),
    "C02": ("refinement theorem: model of Decoder.decode = sequential RFC decoder for every byte string and state (C02_decode_refines), and that decoder returns the declarative meaning of every wire form of every well-formed representation sequence (C02_wire_meaning)",
            "refinement proof to an RFC 7541 spec decoder + relational wire grammar (Coq)", NOTE_TIE_ABC + NOTE_TIE_D, "7 C02/C05"),
    "C03": ("every encoder block is a wire form of a representation sequence well-formed for the peer context whose meaning is the input (C03_block_meaning), over every history (C03_every_history)",
            "simulation proof encoder vs RFC spec decoder (Coq)", NOTE_TIE_ABC + NOTE_TIE_D, "7 C10/C01/C03"),
    "C04": ("totality theorem: no escape route of the model (IndexError, ValueError, UnicodeDecodeError, fuel) is reachable from decode, for every input, configuration and history (C04_every_history); the documented family is Python's subclass relation over the class headers regenerated from exceptions.py (Bridge/B_exn.v, src_C04_family_of_the_source)",
            "totality/unreachability proof over all inputs and histories (Coq)", NOTE_TIE_ABC + NOTE_TIE_D, "7 C04"),
    "C05": ("acceptance <=> RFC decoder accepts, exact error class map, limit latitude, defect-class lemmas (Props/C05.v)",
            "refinement proof + defect-class lemmas on the spec decoder (Coq)", NOTE_TIE_ABC + NOTE_TIE_D, "7 C02/C05"),
    "C06": ("invariant TInv for every reachable Encoder/Decoder state incl. after exceptions; add/set_maxsize = Spec.fit (longest fitting prefix)",
            "invariant by induction over operation histories + refinement to `fit` (Coq)", NOTE_TIE_ABC + NOTE_TIE_D, "7 C06"),
    "C07": ("returned list size <= limit; loop-state bound (at most limit/32+1 fields materialised); oversized error iff the RFC decoder's running size crosses the limit",
            "loop-invariant proof (Coq)", NOTE_TIE_ABC + NOTE_TIE_D, "7 C07"),
    "C08": ("update above the permitted maximum rejected with state unchanged; table maximum after ANY decode <= max(before, permitted); return implies size <= permitted; update after a field rejected",
            "state-after-error case lemmas + loop invariant (Coq)", NOTE_TIE_ABC + NOTE_TIE_D, "7 C08"),
    "C09": ("exact characterisation of emitted size updates = recorded settings, at block start only, decoder ends with the encoder's size, smallest setting signalled or already in force; last clause REFUTED (known finding D2)",
            "invariant over setter histories + refutation witness (Coq)", NOTE_TIE_ABC + NOTE_TIE_D, "7 C09"),
    "C10": ("two-sided simulation: after every block of every history both tables are equal (entries and maximum)",
            "simulation invariant over histories (Coq)", NOTE_TIE_ABC + NOTE_TIE_D, "7 C10/C01/C03"),
    "C11": ("encode = section 5.1 octets for all n >= 0, N in 1..8; decode of ANY byte string = section 5.1 value or the decoding error (cap 20 continuation octets); round trip with arbitrary high bits and tail",
            "algebraic law / round-trip proof by induction (Coq)", NOTE_TIE_ABC, "7 C11"),
    "C12": ("bignum accumulator + hex path = concatenated Appendix B codes padded with ones, for every byte string and any code lists passing the certificate; round trip",
            "loop-invariant proof + 256-symbol kernel sweep (Coq)", NOTE_TIE_ABC, "7 C12"),
    "C13": ("for ANY table passing the 4096-entry certificate and every byte string, the nibble FSM = the reference decoder = HuffRep; certificate evaluated on the table regenerated from the source",
            "kernel certificate sweep over all 4096 transitions lifted by simulation induction (Coq)", NOTE_TIE_ABC, "7 C13"),
    "C14": ("get_by_index = RFC lookup for every integer; search sound and complete; static data = Appendix A",
            "refinement proof + 61-entry data equality by kernel computation (Coq)", NOTE_TIE_ABC, "7 C14"),
    "C15": ("sensitive field: encoder unchanged and never-indexed literal or exact index (both paths of Encoder.add); decoder: never-indexed class and no insertion exactly for the 0001 pattern",
            "case lemmas on both encoder paths and the decoder (Coq)", NOTE_TIE_ABC + NOTE_TIE_D, "7 C15"),
    "C16": ("PARTIAL. Proved: decode_integer never reads more than 21 octets nor returns a value >= 2^141 (over-long integers refused, not accumulated); the block loop advances by >= 1 octet per iteration; evictions are amortised; a cost model mirroring the RFC decoder's control flow (to which decode() is proved equal, C02) is bounded by 4|block| + table entries + 1. Not provable in Coq: CPU time, CPython's big-integer and allocator behaviour; measured instead on the real code for 13 input shapes at n/2n/4n (executed lines under settrace, largest shift in decode_integer, octets copied into helper arguments, CPU time ratio)",
            "cost-model linear bound + integer-length bounds (Coq), run-time measurements as the tie", NOTE_TIE_ABC + NOTE_TIE_D + "The unit costs of Model/Cost.v (one step per octet consumed / entry evicted) are a MODEL of the Python code's cost. ", "7 C16"),
    "C17": ("PARTIAL. Proved on a provenance-annotated copy of the decoder model (erasure theorem: it IS the decoder model): after every history every retained table entry and every returned field is an owned object, tags stay parallel to the table, retained octets <= maxsize - 32*entries; the pre-repair code is refuted (D5). Not provable in Coq: that CPython objects tagged Owned do not alias the buffer and that nothing else keeps it alive; checked on the real code (types of retained/returned objects, reference count of the buffer before/after decode incl. after raise, resizability of bytearray input, later blocks after overwriting the buffer)",
            "provenance abstraction with invariant over histories (Coq), run-time aliasing checks as the tie", NOTE_TIE_ABC + NOTE_TIE_D + "Python's aliasing rules for memoryview/bytes/slices are trusted (Model/Prov.v header). ", "7 C17"),
    "C18": ("argument handling of Encoder.encode (forms, text/bytes, list/iterator/dict with a stable sort on the colon key) = the canonical sequence (a normal-form theorem between the hand model of the argument handling, to which the regenerated translation of Encoder.encode/_to_bytes/_dict_to_iterable is proved equal, and the property's reading `canon`; domain: names/values that are bytes or str -- other types are stringified by the library and are outside the model); decoder raw/text modes: identical state, same fields, text fails only on non-UTF-8",
            "normal-form theorem over API forms (Coq)", NOTE_TIE_ABC + NOTE_TIE_D + "Trusted: stability of sorted(), dict insertion order, str.encode('utf-8') (text is represented by its UTF-8 bytes). ", "7 C18"),
    "C20": ("PARTIAL. Proved: frame theorem for a world of instances (any interleaving: outputs and final state of instance i = its own sub-history run alone; others untouched); in the model shared data are immutable constants and outputs are functions of configuration and history. The tie to the code: a fail-closed source purity check (no function writes to module/class-level objects or their aliases, instance state created in __init__, no hash/id/time/logging-level dependence) and real runs isolated vs interleaved vs DEBUG logging vs other PYTHONHASHSEED vs fresh process, with a digest of all shared objects before/after. Not provable: interpreter-level sharing outside hpack",
            "non-interference (frame) theorem (Coq) + source purity check + differential runs", NOTE_TIE_ABC + NOTE_TIE_D, "7 C20"),
    "C19": ("addressable (name, value) incl. empty value => one indexed representation, encoder unchanged; repeated block all indexed",
            "proof from search completeness (Coq)", NOTE_TIE_ABC + NOTE_TIE_D, "7 C19"),
}

NOT_APPLICABLE = []


def main():
    checks = []
    for pid in sorted(CLAIMS):
        text, tech, note, ref = CLAIMS[pid]
        level = {"category": "proof", "text": "Machine-checked Coq theorems over unbounded inputs/histories: " + text
                 + ". The model is tied to /repo's current source on every run: translator-regenerated definitions and data are proved equal to the frozen model (Bridge/B_*.v), and model, regenerated translation and extracted Spec are run against the real implementation (correspondence); a broken obligation triggers a search for a failing input.",
                 "design_ref": "DESIGN.md section " + ref}
        checks.append({
            "property_id": pid,
            "quick_cmd": "./check %s --tier quick" % pid,
            "thorough_cmd": "./check %s --tier thorough" % pid,
            "evidence_file": "/verif/evidence/%s.json" % pid,
            "replay_cmd_template": "./check --replay {path}",
            "engine": "hv-coq",
            "level_claimed": level,
            "level_note": note,
            "technique": tech,
        })
    m = {
        "version": 1,
        "setup_cmd": "./tools/setup.sh",
        "hooks": {
            "guard": "PYTHON_HYPER_HPACK_VERIF",
            "enable": "none needed: every observable the checks use is a plain attribute of the public objects; no hook commits exist, the guard variable is never read",
            "baseline_off_cmd": "cd /repo && /venv/bin/python -m pytest -ra -q -p no:cacheprovider --timeout=900 --continue-on-collection-errors",
            "source_commits": [],
            "add_only": True,
        },
        "engines": [{
            "name": "hv-coq", "path": "/verif/check",
            "serves_properties": sorted(CLAIMS),
            "kind_free_text": "Coq 8.16 development (coq/: Spec, frozen Model, Proofs, Props) + py2coq translator regenerating coq/Gen from /repo/src/hpack with kernel-checked bridge lemmas + OCaml-extraction correspondence harness (corr/) with per-property oracles",
        }],
        "checks": checks,
        "notes": "Genuine defects repaired in /repo by fix: commits 62c2c14 (D1), a10086a (D3), e0905be (D4), 6d9945a (D5); known finding D2 (C09 last clause) in known_findings.json. See DESIGN.md.",
        "not_applicable": NOT_APPLICABLE,
    }
    json.dump(m, open(os.path.join(V, "MANIFEST.json"), "w"), indent=1)


if __name__ == "__main__":
    main()
