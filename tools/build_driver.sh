#!/bin/sh
# usage: build_driver.sh m|g   -- extract and build /verif/build/ml_<x>/driver
set -e
V=/verif
X=$1
D=$V/build/ml_$X
rm -rf $D && mkdir -p $D && cd $D
if [ "$X" = m ]; then EX=Extract; else EX=ExtractGen; fi
timeout 600 coqc -Q $V/coq HV $V/coq/Extract/$EX.v > extract.log 2>&1 || { cat extract.log; exit 1; }
cp $V/corr/common.ml $V/corr/driver_$X.ml .
ORDER=$(ocamlfind ocamldep -sort *.mli *.ml)
timeout 600 ocamlfind ocamlopt -w -a -O2 -o driver $ORDER 2>/dev/null || timeout 600 ocamlfind ocamlopt -w -a -o driver $ORDER
rm -f *.cmi *.cmx *.o
