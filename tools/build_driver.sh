#!/bin/sh
# usage: build_driver.sh m|g   -- extract and build /verif/build/ml_<x>/driver
set -e
V=$(cd "$(dirname "$0")/.." && pwd)
X=$1
D=$V/build/ml_$X
rm -rf $D && mkdir -p $D && cd $D
if [ "$X" = m ]; then EX=Extract; else EX=ExtractGen; fi
timeout 600 coqc -Q $V/coq HV $V/coq/Extract/$EX.v > extract.log 2>&1 || { cat extract.log; exit 1; }
# Performance only (semantics-preserving): the extracted py_format_d recomputes 10^4300 at every call;
# hoist that closed subexpression into a top-level constant evaluated once.
python3 - <<'PY'
import re
s = open("Py.ml").read()
m = re.search(r"let py_format_d n =\n  if Z\.leb\n(\s+\(Z\.pow .*?\)\)\)) \(Z\.abs n\)", s, re.S)
if m:
    const = m.group(1).strip()
    s = s.replace(m.group(0), "let fmt_limit_ = " + const + "\n\nlet py_format_d n =\n  if Z.leb fmt_limit_ (Z.abs n)")
    open("Py.ml", "w").write(s)
PY
cp $V/corr/common.ml $V/corr/driver_$X.ml .
ORDER=$(ocamlfind ocamldep -sort *.mli *.ml)
timeout 600 ocamlfind ocamlopt -w -a -O2 -o driver $ORDER 2>/dev/null || timeout 600 ocamlfind ocamlopt -w -a -o driver $ORDER
rm -f *.cmi *.cmx *.o
