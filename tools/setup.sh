#!/bin/sh
# MANIFEST.setup_cmd: build the framework from files on disk only (offline):
# translator -> coq/Gen, full `make` of the Coq development (full .vo), extraction, OCaml drivers.
set -e
cd "$(dirname "$0")/.."
mkdir -p build evidence replays .cache
./check --warm
