#!/bin/sh
# (re)generate the coq Makefile over every .v file present under /verif/coq
cd "$(dirname "$0")/../coq" || exit 2
{ cat _CoqProject; find . -name '*.v' -not -path './Extract/*' | sed 's|^\./||' | sort; } > .CoqProject.all
coq_makefile -f .CoqProject.all -o Makefile >/dev/null
